"""C07 — hardware compilation: output is native, equivalent, routable and validated (DESIGN 5/C07)."""
import itertools, json, math, signal
import numpy as np
from .. import env, coq, runner, gates, opsem

LEVEL = 'translation_validation'
META = dict(
    text='Coq theorems (23, axiom-free): the MappingManager model (two arrays, apply_swap) keeps phys_to_log o log_to_phys = id for every swap sequence and a swap applied twice restores the mapping; the routing certificate checker route_ok is sound: an accepted routed list is exactly the emission, under mapped_op/apply_swap, of a logical stream that is trace-equivalent to the input, every two-qubit operation lies on a graph edge, the tracked mapping equals the reported swap map, the reported swap map of an accepted certificate is a permutation of all placed physical qubits (used by the circuit or not; route_ok_final_perm), and (route_ok_sem, over every ring with the laws, any number of qubits, any matrices) the routed circuit read through the final mapping computes the original circuit on the initial state read through the initial mapping; the CNOT.(HxH).CNOT.(HxH).CNOT block emitted on one-way edges equals SWAP exactly; Gateset.__contains__ (dictionary fast paths + scans) decides "some family accepts", type families follow isinstance along the mro, tag lists behave as documented, CircuitOperations are accepted iff unrolled and all operations of their mapped circuit are (one iteration of the mapped body decides every positive number of repetitions, zero repetitions stand for no operation, an untagged nested CircuitOperation may be spliced in; the raw body is not what is judged); device_accepts <-> in gateset /\\ qubits on device /\\ allowed pairs. On every run (translation validation of real outputs): optimize_for_target_gateset for 18 configurations of the CZ, sqrt-iSWAP, Sycamore, Google CZ, IonQ API/native, AQT and Pasqal targets on generated circuits: every output operation is accepted (gateset.validate, recomputed by the membership model inside Coq), input and output unitaries agree up to global phase (evaluated in Coq from each operation\'s own matrix), the input is unmodified; RouteCQC outputs over random connected (di)graphs and initial mappers pass route_ok (exact, vm_compute) and independently satisfy U_routed ~ P(swap_map) . U_ref; the real MappingManager arrays equal the model after random swap sequences; Gateset/GateFamily membership answers equal the model on ~16000 item x gateset pairs; GridDevice / AQT / Pasqal / IonQ validate_operation accepts exactly when the statement (and the device model) says so, and GridDevice (built from metadata and from DeviceSpecification protos) / IonQ validate_circuit accepts exactly the circuits all of whose operations are acceptable one by one (ordered pairs of tag / qubit variants of one gate); every library gate standing alone on its qubits, at every special exponent, is compiled for every target and compared in Coq; so is a single CircuitOperation standing alone on its qubits (one-operation and two-moment bodies with repetitions, negative repetitions, qubit maps, nesting, parameter resolvers), whose compiled circuit must have the unitary of the unrolled input; CircuitOperations that carry a parameter resolver (with repetitions, inversion, zero repetitions, qubit maps, nesting, tags) are judged by every gateset (also FSimGateFamily gatesets and the Sycamore device, outside the Coq model) and every GridDevice exactly as the operations of their mapped circuit are.',
    note='Trusted: Coq kernel; float instance (tolerance 2^-20 ~ 1e-6) for unitaries; the Python adapters that describe an operation abstractly (type ids along the mro, == class, the instance gates it equals up to global phase as re-derived with numpy, tags, qubit integers) and that identify operations up to their qubits; numpy oracles used only to classify a disagreement. The compilers themselves (KAK, merging, swap selection) are not modelled: their outputs are validated per generated program, so the quantifier over programs is sampled. route_ok_sem covers certificates without directed-graph pieces; for directed graphs the collapse of the tagged CNOT/H block into a SWAP rests on the exact identity directed_swap_block plus commutation with operations on other qubits (argued, not proved) and the A.6 relation is compared numerically. The choice between old and new decomposition by two-qubit count does not affect the property and is only recorded as a supporting observation.',
    technique='Rocq/Coq proofs about the mapping manager, certificate checker, membership and device models + per-program translation validation by vm_compute on real compiler and router outputs',
)

TOL = '0x1p-20'
PRE = gates.COQ_HEADER + 'From VF Require Import Sim.Ref Xform.Routing Xform.Gateset.\n'
NC_TAG = 'c07_no_compile'


# ---------------------------------------------------------------- conversions
def unrolled(cirq, circuit):
    return cirq.unroll_circuit_op(circuit, deep=True, tags_to_check=None)


def gop_list(cirq, circuit, order):
    """Circuit -> Gallina list of (GMat, axes) through each operation's own unitary."""
    idx = {q: i for i, q in enumerate(order)}
    items = []
    for op in unrolled(cirq, circuit).all_operations():
        u = cirq.unitary(op)
        items.append(f'({opsem.mat_term(u, cirq.qid_shape(op))}, {gates.nlist([idx[q] for q in op.qubits])})')
    return '[' + ';\n '.join(items) + ']'


def py_unitary(cirq, circuit, order):
    """Ordered product of the operations' own matrices (numpy; used to classify disagreements and in replay)."""
    n = len(order)
    idx = {q: i for i, q in enumerate(order)}
    u = np.eye(2 ** n, dtype=complex).reshape((2,) * (2 * n))
    for op in unrolled(cirq, circuit).all_operations():
        k = len(op.qubits)
        m = np.asarray(cirq.unitary(op), dtype=complex).reshape((2,) * (2 * k))
        ax = [idx[q] for q in op.qubits]
        u = np.tensordot(m, u, axes=(list(range(k, 2 * k)), ax))
        u = np.moveaxis(u, list(range(k)), ax)
    return u.reshape(2 ** n, 2 ** n)


def phase_dist(a, b):
    k = np.unravel_index(np.argmax(np.abs(b)), b.shape)
    if abs(b[k]) < 1e-12:
        return float(np.max(np.abs(a - b)))
    f = a[k] / b[k]
    if abs(abs(f) - 1) > 1e-6:
        return float('inf')
    return float(np.max(np.abs(a - f * b)))


# ---------------------------------------------------------------- CircuitOperations: what they stand for
def show_op(cirq, op):
    """Compact text of an operation; a CircuitOperation with its body, repetitions, qubit map and parameter resolver."""
    u = op.untagged
    if isinstance(u, cirq.CircuitOperation):
        parts = ['[' + ', '.join(show_op(cirq, o) for o in u.circuit.all_operations()) + ']']
        if u.repetitions != 1:
            parts.append(f'repetitions={u.repetitions}')
        if u.qubit_map:
            parts.append('qubit_map={' + ', '.join(f'{a}: {b}' for a, b in sorted(u.qubit_map.items())) + '}')
        if u.param_resolver.param_dict:
            parts.append('param_resolver={' + ', '.join(f'{a}: {b if not isinstance(b, float) else round(b, 6)}' for a, b in sorted(u.param_resolver.param_dict.items(), key=str)) + '}')
        s = 'CircuitOperation(' + ', '.join(parts) + ')'
    else:
        s = ' '.join(str(u).split())
    if op.tags:
        s += '.with_tags(' + ', '.join(repr(t) for t in op.tags) + ')'
    return s


def stands_for(cirq, op):
    """The operations a (tagged) CircuitOperation stands for: its mapped circuit (body inverted for negative repetitions, qubit
    map and parameter resolver applied, repeated), inner CircuitOperations replaced likewise."""
    out = []
    for o in op.untagged.mapped_circuit(deep=True).all_operations():
        if isinstance(o.untagged, cirq.CircuitOperation):
            out.extend(stands_for(cirq, o))
        else:
            out.append(o)
    return out


def banned_tag(cirq, gs, op):
    return isinstance(gs, cirq.CompilationTargetGateset) and gs._intermediate_result_tag in op.tags


def reference_accepts(cirq, gs, op, by_validate):
    """The documented rule for one operation, a CircuitOperation being read as the operations it stands for.  Operations with a
    gate are judged as they stand (`op in gateset`; through validate also: no intermediate-result tag); a (tagged)
    CircuitOperation is accepted iff the gateset unrolls circuit operations and every operation of its mapped circuit is
    accepted by validate; other gate-less operations never.  Returns (answer, the operation that decides a refusal or None)."""
    if op.gate is not None:
        try:
            ok = (op in gs) and not (by_validate and banned_tag(cirq, gs, op))
        except Exception:       # an answer that is not given is not an acceptance (reported on its own where it happens)
            ok = False
        return ok, (None if ok else op)
    if banned_tag(cirq, gs, op):
        return False, op
    u = op.untagged
    if not isinstance(u, cirq.CircuitOperation) or not gs._unroll_circuit_op:
        return False, op
    for o in u.mapped_circuit(deep=True).all_operations():
        ok, why = reference_accepts(cirq, gs, o, True)
        if not ok:
            return False, why
    return True, None


COP_VALUES = [1, 0.5, -0.5, 2, 3, 0.25, 0]
COP_FSIM = [(math.pi / 2, math.pi / 6), (-math.pi / 4, 0.0), (math.pi / 4, 0.0), (0.0, math.pi), (0.3, 0.2), (-math.pi / 2, 0.0)]


def symbolic_bodies(mods, qubits):
    """(operation with symbols s, t; resolvers): gates whose membership in instance / integer-power / FSim families depends on
    the value the symbols take (the first resolvers make the canonical instance: X, CZ, ISWAP, the Sycamore gate, sqrt-iSWAP)."""
    import sympy
    cirq = mods['cirq']
    s, t = sympy.Symbol('s'), sympy.Symbol('t')
    pw = [{s: v} for v in COP_VALUES]
    fs = [{s: a, t: b} for a, b in COP_FSIM]
    one = [cirq.X ** s, cirq.Y ** s, cirq.Z ** s, cirq.H ** s, cirq.PhasedXPowGate(phase_exponent=0.25, exponent=s),
           cirq.PhasedXZGate(x_exponent=s, z_exponent=0.25, axis_phase_exponent=0.125)]
    two = [cirq.CZ ** s, cirq.CNOT ** s, cirq.ISWAP ** s, cirq.SWAP ** s, cirq.XX ** s, cirq.ZZ ** s]
    out = [(g.on(qubits[0]), pw) for g in one]
    if len(qubits) >= 2:
        out += [(g.on(*qubits[:2]), pw) for g in two]
        out += [(cirq.FSimGate(theta=s, phi=t).on(*qubits[:2]), fs), (cirq.PhasedFSimGate(theta=s, phi=t).on(*qubits[:2]), fs)]
    if len(qubits) >= 3:
        out += [((cirq.CCZ ** s).on(*qubits[:3]), pw), ((cirq.CCX ** s).on(*qubits[:3]), pw)]
    return out


COP_FORMS = ['reps2', 'inverse', 'reps0', 'inverse3', 'qubit_map', 'outer_resolver', 'chain', 'tagged_inner', 'tagged', 'with_native', 'with_params',
             'unused_resolver', 'nested_inverse']


def cop_form(cirq, rng, form, op, res, spare):
    """One CircuitOperation around the symbolic operation `op`, the resolver `res` fixing its symbols."""
    import sympy
    sub = lambda *ops, **kw: cirq.CircuitOperation(cirq.FrozenCircuit(*ops), **kw)
    qs = list(op.qubits)
    if form == 'resolver':
        return sub(op, param_resolver=res)
    if form == 'reps2':
        return sub(op, param_resolver=res, repetitions=2)
    if form == 'inverse':
        return sub(op, param_resolver=res, repetitions=-1)
    if form == 'reps0':
        return sub(op, param_resolver=res, repetitions=0)
    if form == 'inverse3':
        return sub(op, param_resolver=res, repetitions=-3)
    if form == 'qubit_map':
        # the body is written on other qubits and mapped onto the operation's
        body = op.transform_qubits(dict(zip(qs, spare[:len(qs)])))
        return sub(body, param_resolver=res, qubit_map=dict(zip(spare[:len(qs)], qs[::-1] if rng.random() < 0.5 else qs)))
    if form == 'outer_resolver':
        # the symbol sits in the inner body, the resolver on the outer CircuitOperation
        return sub(sub(op, repetitions=rng.choice([1, 2])), param_resolver=res)
    if form == 'chain':
        # the inner resolver renames the symbols, the outer one fixes the new names
        ren = {k: sympy.Symbol(f'{k}_outer') for k in res}
        return sub(sub(op, param_resolver=ren), param_resolver={ren[k]: v for k, v in res.items()}, repetitions=rng.choice([1, 2, -1]))
    if form == 'tagged_inner':
        return sub(sub(op).with_tags('acc'), param_resolver=res)
    if form == 'tagged':
        return sub(op, param_resolver=res).with_tags(rng.choice(['acc', 'ign', NC_TAG]))
    if form == 'with_native':
        return sub(cirq.PhasedXZGate(x_exponent=0.5, z_exponent=0.25, axis_phase_exponent=0.125).on(qs[0]), op, param_resolver=res)
    if form == 'with_params':
        return sub(op).with_params(res).repeat(rng.choice([1, 3]))
    if form == 'unused_resolver':
        # a body without symbols under a resolver that names another symbol
        return sub(cirq.resolve_parameters(op, res), param_resolver={sympy.Symbol('unused'): 0.5})
    if form == 'nested_inverse':
        return sub(sub(op, repetitions=-1), param_resolver=res, repetitions=-1)
    if form == 'unresolved':
        return sub(op, repetitions=rng.choice([1, 2]))
    if form == 'partial':
        keep = sorted(res, key=str)[0]
        return sub(op, param_resolver={keep: res[keep]})
    raise KeyError(form)


COP_KEY_BODIES = ('X**s', 'CZ**s', 'ISWAP**s', 'FSimGate', 'CCZ**s')


def circuit_op_grid(mods, rng, qubits, spare, full=False):
    """CircuitOperations carrying a parameter resolver.  Fixed on every run: for the key bodies (X**s, CZ**s, ISWAP**s, FSimGate(s, t),
    CCZ**s) every value under a plain resolver and every other form (repetitions, inversion, zero repetitions, qubit map, resolver on
    an outer CircuitOperation, symbols renamed through two levels, tags, beside a native operation, with_params, ...) at the value(s)
    that make the canonical instance (X, CZ, ISWAP / sqrt-iSWAP, the Sycamore gate / sqrt-iSWAP); for the other bodies the values
    1 and 0.5 and one drawn value, and three forms in rotation; the still-symbolic and the partly resolved body.  full: everything.
    (form, value index, operation)."""
    cirq = mods['cirq']
    out = []
    for bi, (op, resolvers) in enumerate(symbolic_bodies(mods, qubits)):
        key = full or any(str(op).startswith(k) or k in repr(op.gate)[:14] for k in COP_KEY_BODIES)
        second = 1 if len(resolvers[0]) == 2 or 'ISWAP' in str(op) else 0
        for vi, res in enumerate(resolvers):
            if key or vi in (0, 1) or vi == 2 + (bi + rng.randrange(5)) % 5:
                out.append(('resolver', vi, cop_form(cirq, rng, 'resolver', op, res, spare)))
        for fi, form in enumerate(COP_FORMS):
            if not key and (fi + bi) % 4:
                continue
            picks = list(range(len(resolvers))) if full else sorted({0, second, rng.randrange(len(resolvers)) if key and (bi + fi) % 3 == 0 else 0})
            for vi in picks:
                out.append((form, vi, cop_form(cirq, rng, form, op, resolvers[vi], spare)))
        out.append(('unresolved', -1, cop_form(cirq, rng, 'unresolved', op, resolvers[0], spare)))
        if len(resolvers[0]) == 2:
            out.append(('partial', 0, cop_form(cirq, rng, 'partial', op, resolvers[0], spare)))
    return out


# ---------------------------------------------------------------- targets
TARGETS = ['cz', 'cz_partial', 'cz_extra', 'cz_reorder', 'sqrt_iswap', 'sqrt_iswap_inv', 'sqrt_iswap_3', 'sqrt_iswap_extra', 'sycamore',
           'google_cz', 'google_cz_eject', 'google_cz_extra', 'ionq_api', 'ionq_aria', 'ionq_forte', 'aqt', 'pasqal', 'pasqal_basic']


def make_target(mods, name):
    cirq, cg, ci, ca, cp = mods['cirq'], mods['cirq_google'], mods['cirq_ionq'], mods['cirq_aqt'], mods['cirq_pasqal']
    if name == 'cz':
        return cirq.CZTargetGateset()
    if name == 'cz_partial':
        return cirq.CZTargetGateset(allow_partial_czs=True)
    if name == 'cz_extra':
        return cirq.CZTargetGateset(additional_gates=[cirq.SWAP, cirq.XPowGate, cirq.GateFamily(cirq.ISWAP, tags_to_accept=['native_iswap'])])
    if name == 'cz_reorder':
        return cirq.CZTargetGateset(preserve_moment_structure=False, reorder_operations=True)
    if name == 'sqrt_iswap':
        return cirq.SqrtIswapTargetGateset()
    if name == 'sqrt_iswap_inv':
        return cirq.SqrtIswapTargetGateset(use_sqrt_iswap_inv=True)
    if name == 'sqrt_iswap_3':
        return cirq.SqrtIswapTargetGateset(required_sqrt_iswap_count=3)
    if name == 'sqrt_iswap_extra':
        return cirq.SqrtIswapTargetGateset(additional_gates=[cirq.CZPowGate, cirq.H])
    if name == 'sycamore':
        return cg.SycamoreTargetGateset()
    if name == 'google_cz':
        return cg.GoogleCZTargetGateset()
    if name == 'google_cz_eject':
        # the property text: eject_paulis only together with the Pauli gate families as additional accepted gates
        # (eject_z leaves Z**t, eject_phased_paulis leaves X/Y/PhasedX pi-rotations: the X, Y, Z and PhasedX power-gate families)
        return cg.GoogleCZTargetGateset(eject_paulis=True, additional_gates=[cirq.XPowGate, cirq.YPowGate, cirq.ZPowGate, cirq.PhasedXPowGate])
    if name == 'google_cz_extra':
        return cg.GoogleCZTargetGateset(additional_gates=[cirq.ZPowGate, cg.SYC])
    if name == 'ionq_api':
        return ci.IonQTargetGateset()
    if name == 'ionq_aria':
        return ci.AriaNativeGateset()
    if name == 'ionq_forte':
        return ci.ForteNativeGateset()
    if name == 'aqt':
        return ca.aqt_target_gateset.AQTTargetGateset()
    if name == 'pasqal':
        return cp.PasqalGateset()
    if name == 'pasqal_basic':
        return cp.PasqalGateset(include_additional_controlled_ops=False)
    raise KeyError(name)


def native_gate(mods, name, rng):
    """A gate the target accepts as it stands (for already-native circuits and no-compile operations)."""
    cirq, cg, ci = mods['cirq'], mods['cirq_google'], mods['cirq_ionq']
    e = lambda: gates.draw_exp(rng)
    phxz = lambda: cirq.PhasedXZGate(x_exponent=e(), z_exponent=e(), axis_phase_exponent=e())
    phx = lambda: cirq.PhasedXPowGate(phase_exponent=e(), exponent=e())
    if name in ('cz', 'cz_reorder', 'google_cz'):
        return rng.choice([lambda: cirq.CZ, phxz, phxz])()
    if name == 'cz_partial':
        return rng.choice([lambda: cirq.CZ ** e(), lambda: cirq.CZ, phxz])()
    if name == 'cz_extra':
        return rng.choice([lambda: cirq.CZ, phxz, lambda: cirq.SWAP, lambda: cirq.X ** e(), lambda: cirq.rx(gates.draw_angle(rng))])()
    if name in ('sqrt_iswap', 'sqrt_iswap_3'):
        return rng.choice([lambda: cirq.SQRT_ISWAP, phxz])()
    if name == 'sqrt_iswap_inv':
        return rng.choice([lambda: cirq.SQRT_ISWAP_INV, phxz])()
    if name == 'sqrt_iswap_extra':
        return rng.choice([lambda: cirq.SQRT_ISWAP, phxz, lambda: cirq.CZ ** e(), lambda: cirq.H])()
    if name == 'sycamore':
        return rng.choice([lambda: cg.SYC, phxz, phx, lambda: cirq.X ** e(), lambda: cirq.Y ** e(), lambda: cirq.Z ** e()])()
    if name == 'google_cz_eject':
        return rng.choice([lambda: cirq.CZ, phxz, phx, lambda: cirq.X, lambda: cirq.Y ** e(), lambda: cirq.Z ** e()])()
    if name == 'google_cz_extra':
        return rng.choice([lambda: cirq.CZ, phxz, lambda: cirq.Z ** e(), lambda: cg.SYC])()
    if name == 'ionq_api':
        return rng.choice([lambda: cirq.H, lambda: cirq.CNOT, lambda: cirq.SWAP, lambda: cirq.X ** e(), lambda: cirq.Y ** e(), lambda: cirq.Z ** e(),
                           lambda: cirq.XX ** e(), lambda: cirq.YY ** e(), lambda: cirq.ZZ ** e()])()
    if name == 'ionq_aria':
        return rng.choice([lambda: ci.GPIGate(phi=e()), lambda: ci.GPI2Gate(phi=e()), lambda: ci.MSGate(phi0=e(), phi1=e())])()
    if name == 'ionq_forte':
        return rng.choice([lambda: ci.GPIGate(phi=e()), lambda: ci.GPI2Gate(phi=e()), lambda: ci.ZZGate(theta=e())])()
    if name == 'aqt':
        return rng.choice([lambda: cirq.XX ** e(), lambda: cirq.Z ** e(), phx])()
    if name in ('pasqal', 'pasqal_basic'):
        c = [lambda: cirq.H, phx, lambda: cirq.X ** e(), lambda: cirq.Y ** e(), lambda: cirq.Z ** e(), lambda: cirq.CZ, lambda: cirq.CZ ** 3]
        if name == 'pasqal':
            c += [lambda: cirq.CNOT, lambda: cirq.CCZ, lambda: cirq.CCX]
        return rng.choice(c)()
    raise KeyError(name)


LIB_FAMILIES = [f for f in gates.CORE_FAMILIES if f not in ('Matrix', 'Identity', 'GlobalPhase')]


def library_gate(mods, rng):
    """A library gate on 1-3 qubits from the shared vocabulary."""
    for _ in range(50):
        g = gates.draw(rng, rng.choice(gates.FAST) if rng.random() < 0.35 else rng.choice(LIB_FAMILIES + ['Sycamore']))
        if 1 <= len(g.shape) <= 3 and all(d == 2 for d in g.shape):
            return g.cirq_gate(mods['cirq'], mods)
    return mods['cirq'].X


def matrix_gate(mods, rng, k):
    return mods['cirq'].MatrixGate(gates.random_unitary(rng, 2 ** k))


def place(rng, gate, qs):
    k = gate.num_qubits() if hasattr(gate, 'num_qubits') else len(gate.qid_shape)
    return gate.on(*rng.sample(qs, k))


def gen_input(mods, rng, tname, kind, nq):
    """Returns (circuit, qubits, uses_no_compile_tag)."""
    cirq = mods['cirq']
    qs = cirq.LineQubit.range(nq)
    ops = []
    n_ops = rng.randint(2, 7)
    tagged = False

    def one(kd):
        if kd == 'matrix':
            k = rng.choice([1, 2, 2] + ([3] if nq >= 3 and rng.random() < 0.35 else []))
            return place(rng, matrix_gate(mods, rng, min(k, nq)), qs)
        if kd == 'library':
            for _ in range(30):
                g = library_gate(mods, rng)
                if cirq.num_qubits(g) <= nq:
                    return place(rng, g, qs)
            return cirq.X(qs[0])
        if kd == 'native':
            for _ in range(30):
                g = native_gate(mods, tname, rng)
                if cirq.num_qubits(g) <= nq:
                    op = place(rng, g, qs)
                    if tname == 'cz_extra' and rng.random() < 0.15 and nq >= 2:
                        op = cirq.ISWAP(*rng.sample(qs, 2)).with_tags('native_iswap')
                    return op
            return cirq.Z(qs[0]) ** 0.5
        raise KeyError(kd)

    if kind in ('matrix', 'library', 'native'):
        ops = [one(kind) for _ in range(n_ops)]
    elif kind == 'mixed':
        ops = [one(rng.choice(['matrix', 'library', 'library', 'native'])) for _ in range(n_ops)]
    elif kind == 'tagged':
        for _ in range(n_ops):
            if rng.random() < 0.4:
                ops.append(one('native').with_tags(NC_TAG))
                tagged = True
            else:
                ops.append(one(rng.choice(['matrix', 'library', 'native'])))
        if not tagged:
            ops.append(one('native').with_tags(NC_TAG))
            tagged = True
    elif kind == 'circuit_op':
        for _ in range(rng.randint(1, 3)):
            inner = [one(rng.choice(['matrix', 'library', 'native'])) for _ in range(rng.randint(1, 3))]
            cop = cirq.CircuitOperation(cirq.FrozenCircuit(inner), repetitions=rng.choice([1, 1, 2]))
            if rng.random() < 0.3:
                sub_qs = sorted(cop.qubits)
                perm = list(sub_qs)
                rng.shuffle(perm)
                cop = cop.with_qubit_mapping(dict(zip(sub_qs, perm)))
            ops.append(cop)
            if rng.random() < 0.6:
                ops.append(one(rng.choice(['matrix', 'library', 'native'])))
    else:
        raise KeyError(kind)
    c = cirq.Circuit()
    for op in ops:
        c.append(op, strategy=cirq.InsertStrategy.NEW if rng.random() < 0.2 else cirq.InsertStrategy.EARLIEST)
    return c, qs, tagged


KINDS = ['matrix', 'library', 'native', 'mixed', 'tagged', 'circuit_op']


def compile_case(mods, tname, circuit, tagged, deep=False, passes=1):
    cirq = mods['cirq']
    gs = make_target(mods, tname)
    context = cirq.TransformerContext(tags_to_ignore=(NC_TAG,) if tagged else (), deep=deep)
    return gs, cirq.optimize_for_target_gateset(circuit, gateset=gs, context=context, max_num_passes=passes)


def case_record(cirq, tname, kind, circuit, tagged, deep, passes):
    return dict(kind='compile', target=tname, input_kind=kind, circuit_json=cirq.to_json(circuit), tagged=tagged, deep=deep, passes=passes,
                circuit=str(circuit)[:1500])


def report_compile(ctx, mods, rec, what):
    holds, detail, sig, rec2 = confirm_compile(mods, rec)
    if holds:
        ctx.mark_broken('harness:compile-oracle', f'{what}: not reproduced by the oracle ({detail})')
    else:
        ctx.violation(sig, f'{what} ({detail}); minimised: {rec2.get("minimised_ops", "")}'[:600], rec2)


def corpus_circuits(mods):
    """Hand-picked inputs replayed first: past failures of this property (minimised)."""
    cirq = mods['cirq']
    q = cirq.LineQubit.range(3)
    return [
        cirq.Circuit(cirq.ThreeQubitDiagonalGate([-1.5186, 0.3948, math.pi, -3.4363, 2 * math.pi, math.pi / 2, math.pi, -6.3889]).on(q[0], q[2], q[1])),
        cirq.Circuit(cirq.ControlledOperation(controls=(q[0], q[2]), sub_operation=cirq.H(q[1]), control_values=cirq.SumOfProducts(((0, 1), (1, 0))))),
        cirq.Circuit(cirq.CZ(q[0], q[1]), cirq.CZ(q[0], q[1]), cirq.CZ(q[0], q[1])),
    ]


def compile_stream(ctx, mods, checks, per_target):
    cirq = mods['cirq']
    rng = ctx.rng
    corpus = corpus_circuits(mods)
    for tname in TARGETS:
        for i in range(per_target + (len(corpus) if tname in ('cz', 'sqrt_iswap', 'ionq_api') else 0)):
            kind = KINDS[i % len(KINDS)] if i < len(KINDS) else rng.choice(KINDS)
            nq = rng.choice([1, 2, 2, 3, 3])
            if kind == 'circuit_op':
                nq = max(nq, 2)
            if i >= per_target:
                kind, nq, tagged = 'corpus', 3, False
                circuit = corpus[i - per_target].copy()
                qs = cirq.LineQubit.range(3)
            else:
                circuit, qs, tagged = gen_input(mods, rng, tname, kind, nq)
            deep = kind == 'circuit_op' and rng.random() < 0.3 and not tname.startswith(('ionq', 'aqt', 'pasqal'))
            passes = rng.choice([1, 1, 1, None])
            rec = case_record(cirq, tname, kind, circuit, tagged, deep, passes)
            before_json = rec['circuit_json']
            before = circuit.copy()
            stream = f'compile:{tname}'
            try:
                gs, out = compile_case(mods, tname, circuit, tagged, deep, passes)
            except Exception as e:
                ctx.count(stream, [tname, before_json], True)
                report_compile(ctx, mods, rec, f'optimize_for_target_gateset({tname}) raised {type(e).__name__}: {str(e)[:200]} on a {kind} circuit')
                continue
            n_ops_in = sum(1 for _ in circuit.all_operations())
            ctx.count(stream, [tname, before_json], n_ops_in >= 2,
                      sample=dict(target=tname, input_kind=kind, qubits=nq, input_ops=n_ops_in, output_ops=sum(1 for _ in out.all_operations()),
                                  deep=deep, passes=passes))
            # (iii) the argument is left unmodified
            if circuit != before or cirq.to_json(circuit) != before_json:
                report_compile(ctx, mods, rec, f'optimize_for_target_gateset({tname}) modified its input circuit')
            # (i) only operations the target accepts
            bad = [op for op in out.all_operations() if not gs.validate(op)]
            if bad or not gs.validate(out):
                report_compile(ctx, mods, rec, f'optimize_for_target_gateset({tname}) left {len(bad)} operation(s) the target does not accept, e.g. {str(bad[:2])[:200]}')
            output_membership_checks(ctx, mods, tname, gs, out, checks, rec)
            # supporting (not deciding): for already-native input a two-qubit target keeps the old operations unless the new
            # decomposition has fewer two-qubit gates, so the output never has more two-qubit operations than the input
            if kind == 'native' and not tname.startswith('pasqal'):
                n2 = lambda c: sum(1 for o in unrolled(cirq, c).all_operations() if len(o.qubits) == 2)
                ctx.cov['two_qubit_count_cases'] = ctx.cov.get('two_qubit_count_cases', 0) + 1
                if n2(out) > n2(circuit):
                    note = f'two-qubit-count-choice:{tname}: output has {n2(out)} two-qubit operations, the already-native input {n2(circuit)}'
                    if not any(x.startswith(f'two-qubit-count-choice:{tname}') for x in ctx.stale_supporting):
                        ctx.stale_supporting.append(note)
            # (ii) same unitary up to global phase, evaluated in Coq from each operation's own matrix
            try:
                lhs, rhs = gop_list(cirq, circuit, qs), gop_list(cirq, out, qs)
            except Exception as e:
                ctx.violation(f'compile:{tname}:{kind}:non-unitary-output', f'an output operation of optimize_for_target_gateset({tname}) has no unitary: {type(e).__name__}: {str(e)[:200]}', rec)
                continue
            sh = gates.nlist([2] * nq)
            checks.append((stream, f'fcll_close_phase {TOL} (circ_unitary FOps {sh} {rhs}) (circ_unitary FOps {sh} {lhs})',
                           f'optimize_for_target_gateset({tname}) changed the unitary of a {kind} circuit', dict(signature=f'compile:{tname}:{kind}:unitary', **rec)))


# ---- a single library gate standing alone on its qubits (nothing to merge with: the bare gate reaches the target's own dispatch)
LONE_CORE_EXP = [1.0, -1.0, 0.5, -0.5]
LONE_POW1 = ['XPowGate', 'YPowGate', 'ZPowGate', 'HPowGate']
LONE_POW2 = ['CZPowGate', 'CXPowGate', 'CYPowGate', 'SwapPowGate', 'ISwapPowGate', 'XXPowGate', 'YYPowGate', 'ZZPowGate']
LONE_POW3 = ['CCZPowGate', 'CCXPowGate']
LONE_FSIM = [(math.pi / 2, 0.0), (-math.pi / 2, 0.0), (math.pi / 4, 0.0), (-math.pi / 4, 0.0), (0.0, math.pi), (0.0, -math.pi), (math.pi / 2, math.pi / 6),
             (math.pi / 2, math.pi), (0.0, math.pi / 2), (math.pi, 0.0), (0.0, 0.0)]


def lone_gate_grid(mods, rng):
    """(gate, core) pairs: every power-gate family of the library at every special exponent (canonical form, zero shift), the
    named two-qubit interactions at their special angles, three-qubit gates.  core = compiled for every target on every run;
    the others are compiled for every target in the thorough tier and for a few drawn targets in the quick tier."""
    cirq, cg = mods['cirq'], mods['cirq_google']
    out = []
    rest_exp = [e for e in gates.SPECIAL_EXP if e not in LONE_CORE_EXP]
    for name in LONE_POW1 + LONE_POW2 + LONE_POW3:
        cls = getattr(cirq, name)
        out += [(cls(exponent=e), True) for e in LONE_CORE_EXP]
        out += [(cls(exponent=e), False) for e in rest_exp + [round(rng.uniform(-4, 4), 3)]]
        if name in LONE_POW2:
            out += [(cls(exponent=e, global_shift=rng.choice([-0.5, 0.25, 0.5, 1.0])), False) for e in LONE_CORE_EXP]
    for p in (0.0, 0.25, -0.25, 0.5, 1.0):
        for e in LONE_CORE_EXP + [2.0, 3.0, 0.0]:
            out.append((cirq.PhasedISwapPowGate(phase_exponent=p, exponent=e), p in (0.0, 0.25) and e in LONE_CORE_EXP))
    out += [(cirq.FSimGate(theta=t, phi=p), i < 7) for i, (t, p) in enumerate(LONE_FSIM)]
    out += [(cirq.FSimGate(theta=gates.draw_angle(rng), phi=gates.draw_angle(rng)), False) for _ in range(3)]
    out += [(cirq.PhasedFSimGate(theta=t, zeta=gates.draw_angle(rng), chi=gates.draw_angle(rng), gamma=gates.draw_angle(rng), phi=p), False) for t, p in LONE_FSIM[:7]]
    out += [(cirq.givens(a), a in (math.pi / 2, -math.pi / 2, math.pi / 4)) for a in (math.pi / 2, -math.pi / 2, math.pi / 4, -math.pi / 4, math.pi, 0.4)]
    out += [(cirq.ms(a), a in (math.pi / 4, -math.pi / 4, math.pi / 2)) for a in (math.pi / 4, -math.pi / 4, math.pi / 2, -math.pi / 2, math.pi, 0.3)]
    out += [(cg.SYC, True), (cirq.CSWAP, True), (cirq.QubitPermutationGate([1, 0]), False), (cirq.QubitPermutationGate([2, 0, 1]), False),
            (cirq.TwoQubitDiagonalGate([0.0, math.pi, 0.0, 0.0]), False), (cirq.TwoQubitDiagonalGate([gates.draw_angle(rng) for _ in range(4)]), False)]
    for pa, pb in itertools.product([cirq.X, cirq.Y, cirq.Z], repeat=2):
        out += [(cirq.PauliInteractionGate(pa, rng.random() < 0.5, pb, rng.random() < 0.5, exponent=e), False) for e in (1.0, -1.0)]
    for sub in (cirq.Z, cirq.X, cirq.Y, cirq.H, cirq.S, cirq.S ** -1, cirq.X ** 0.5, cirq.X ** -0.5, cirq.Z ** -1, cirq.X ** -1, cirq.CZ, cirq.CZ ** -1, cirq.ISWAP):
        out.append((cirq.ControlledGate(sub), False))
    return out


def lone_circuit(mods, rng, tname, gate):
    """The gate alone on its qubits: in either qubit order, beside a spectator qubit that carries something else, or next to a
    no-compile tagged native operation (which the compiler must leave where it is).  Returns (circuit, qubits, tagged, placement)."""
    cirq = mods['cirq']
    k = cirq.num_qubits(gate)
    placement = rng.choice(['forward', 'reversed', 'spectator', 'no_compile_neighbour'])
    nq = k + 1 if placement == 'spectator' and k < 3 else k
    qs = cirq.LineQubit.range(nq)
    own = qs[nq - k:]
    if placement != 'forward':
        own = own[::-1] if k < 3 else rng.sample(own, k)
    ops, tagged = [], False
    if placement == 'spectator' and k < 3:
        ops.append((cirq.X ** 0.3).on(qs[0]))
    if placement == 'no_compile_neighbour':
        for _ in range(40):
            g1 = native_gate(mods, tname, rng)
            if cirq.num_qubits(g1) == 1:
                ops.append(g1.on(rng.choice(own)).with_tags(NC_TAG))
                tagged = True
                break
    ops.insert(rng.randrange(len(ops) + 1) if tagged else len(ops), gate.on(*own))
    return cirq.Circuit(ops), qs, tagged, placement


def lone_gate_stream(ctx, mods, checks, full):
    cirq = mods['cirq']
    rng = ctx.rng
    grid = lone_gate_grid(mods, rng)
    for gate, core in grid:
        targets = TARGETS if core else rng.sample(TARGETS, 6 if full else 2)
        for tname in targets:
            for rep in range(2 if full and core else 1):
                circuit, qs, tagged, placement = lone_circuit(mods, rng, tname, gate)
                rec = case_record(cirq, tname, 'lone', circuit, tagged, False, 1)
                before_json = rec['circuit_json']
                stream = f'compile:{tname}:lone'
                try:
                    gs, out = compile_case(mods, tname, circuit, tagged, False, 1)
                except Exception as e:
                    ctx.count(stream, [tname, before_json], True)
                    report_compile(ctx, mods, rec, f'optimize_for_target_gateset({tname}) raised {type(e).__name__}: {str(e)[:200]} on the lone gate {gate!r}')
                    continue
                ctx.count(stream, [tname, before_json], True,
                          sample=dict(target=tname, gate=repr(gate)[:80], placement=placement, output_ops=sum(1 for _ in out.all_operations())) if rng.random() < 0.01 else None)
                if cirq.to_json(circuit) != before_json:
                    report_compile(ctx, mods, rec, f'optimize_for_target_gateset({tname}) modified its input circuit')
                bad = [op for op in out.all_operations() if not gs.validate(op)]
                if bad or not gs.validate(out):
                    report_compile(ctx, mods, rec, f'optimize_for_target_gateset({tname}) left {len(bad)} operation(s) the target does not accept for the lone gate {gate!r}, e.g. {str(bad[:2])[:200]}')
                if not set(out.all_qubits()) <= set(qs):
                    ctx.violation(f'compile:extra-qubits:{type(gate).__name__}', f'optimize_for_target_gateset({tname}) output for the lone gate {gate!r} acts on qubits outside the input', rec)
                    continue
                try:
                    lhs, rhs = gop_list(cirq, circuit, qs), gop_list(cirq, out, qs)
                except Exception as e:
                    ctx.violation(f'compile:{tname}:lone:non-unitary-output', f'an output operation of optimize_for_target_gateset({tname}) has no unitary: {type(e).__name__}: {str(e)[:200]}', rec)
                    continue
                sh = gates.nlist([2] * len(qs))
                checks.append((stream, f'fcll_close_phase {TOL} (circ_unitary FOps {sh} {rhs}) (circ_unitary FOps {sh} {lhs})',
                               f'optimize_for_target_gateset({tname}) changed the unitary of the lone gate {gate!r} ({placement})', dict(signature=f'compile:{tname}:lone:unitary', **rec)))


# ---- a single CircuitOperation standing alone on its qubits: repetitions, inversion, qubit maps, nesting, parameter resolvers
SUB_FORMS_1 = ['reps2', 'reps3', 'reps5', 'inverse', 'inverse2', 'qubit_map', 'nested_reps', 'nested_inner_reps', 'nested_map', 'resolver', 'tagged_reps', 'two_moments', 'plain', 'reps0']
SUB_FORMS_2 = ['reps2', 'reps3', 'inverse', 'qubit_swap', 'qubit_map', 'nested_reps', 'nested_inner_reps', 'resolver']


def sub_circuit_form(cirq, rng, form, gate, own, other):
    """One CircuitOperation whose body is the single operation gate.on(own) (written on `other` qubits where a qubit map is part
    of the form); `other` are further qubits of the circuit."""
    import sympy
    sub = lambda *ops, **kw: cirq.CircuitOperation(cirq.FrozenCircuit(*ops), **kw)
    op = gate.on(*own)
    k = len(own)
    away = gate.on(*other[:k]) if len(other) >= k else gate.on(*own[::-1])
    away_map = dict(zip(other[:k], own)) if len(other) >= k else dict(zip(own[::-1], own))
    if form == 'plain':
        return sub(op)
    if form in ('reps2', 'reps3', 'reps5', 'reps0'):
        return sub(op, repetitions=int(form[4:]))
    if form == 'inverse':
        return sub(op, repetitions=-1)
    if form == 'inverse2':
        return sub(op, repetitions=-2)
    if form == 'qubit_map':
        # body written on other qubits of the circuit, mapped onto its own
        return sub(away, qubit_map=away_map, repetitions=rng.choice([1, 2]))
    if form == 'qubit_swap':
        return sub(op, qubit_map={own[0]: own[1], own[1]: own[0]})
    if form == 'nested_reps':
        return sub(sub(op), repetitions=3)
    if form == 'nested_inner_reps':
        return sub(sub(op, repetitions=2), repetitions=-1)
    if form == 'nested_map':
        return sub(sub(away, repetitions=rng.choice([1, -1])), qubit_map=away_map, repetitions=2)
    if form == 'resolver':
        s = sympy.Symbol('s')
        return sub((gate ** s).on(*own), param_resolver={s: rng.choice([0.5, -1, 2, 0.25])}, repetitions=rng.choice([1, 2, -1]))
    if form == 'tagged_reps':
        return sub(op, repetitions=2).with_tags('user_tag')
    if form == 'two_moments':
        return sub(op, (cirq.Z ** 0.25).on(own[0]), repetitions=2)
    raise KeyError(form)


def sub_circuit_cases(mods, rng, tname, ti, full):
    """(form, gate, placement, circuit, qubits, tagged) for one target: every form x the one-qubit bodies (H and sqrt(X) on every run, the
    others in rotation; all when full) and the two-qubit bodies in rotation.  Placements: the CircuitOperation is the whole circuit; it stands
    alone on its qubit(s) while the other qubits carry other gates; it has a unitary neighbour on its qubit (and is merged with it); it stands
    next to a no-compile tagged native operation."""
    cirq, cg = mods['cirq'], mods['cirq_google']
    one = [cirq.H, cirq.X ** 0.5, cirq.T, cirq.Y ** 0.3, cirq.S, cirq.PhasedXPowGate(phase_exponent=0.25, exponent=0.5), cirq.Z ** -0.25]
    two = [cirq.CZ, cirq.CNOT, cirq.SQRT_ISWAP, cirq.ISWAP, cirq.XX ** 0.5, cirq.CZ ** 0.5, cg.SYC]
    q = cirq.LineQubit.range(3)
    n = 0
    for fi, form in enumerate(SUB_FORMS_1):
        gs1 = one if full else ([one[(ti + fi) % 7]] if form in ('plain', 'reps5', 'reps0', 'tagged_reps') else one[:2] + [one[2 + (ti + fi) % 5]])
        for gate in gs1:
            placement = ['spectators', 'whole', 'spectators', 'neighbour', 'spectators', 'no_compile_neighbour'][(n + rng.randrange(2)) % 6]
            n += 1
            own, other = [q[0]], [q[2], q[1]]
            cop = sub_circuit_form(cirq, rng, form, gate, own, other)
            tagged = False
            if placement == 'whole':
                ops = [cop] if form not in ('qubit_map', 'nested_map') else [cop, cirq.X(q[2]) ** 0.3]
            elif placement == 'spectators':
                ops = [cop, rng.choice([cirq.CNOT, cirq.CZ, cirq.XX ** 0.5, cirq.ISWAP ** 0.5]).on(q[1], q[2])]
                if rng.random() < 0.5:
                    ops.reverse()
            elif placement == 'neighbour':
                ops = [cop, (cirq.Z ** 0.3).on(q[0]), cirq.CNOT(q[1], q[2])]
            else:
                g1 = next((g for g in (native_gate(mods, tname, rng) for _ in range(40)) if cirq.num_qubits(g) == 1), None)
                ops = [cop, cirq.CNOT(q[1], q[2])]
                if g1 is not None:
                    ops.insert(rng.randrange(2), g1.on(q[0]).with_tags(NC_TAG))
                    tagged = True
            yield form, gate, placement, cirq.Circuit(ops), q, tagged
    for fi, form in enumerate(SUB_FORMS_2):
        gs2 = two if full else [two[(ti + fi) % len(two)], two[(ti + 2 * fi + 3) % len(two)]]
        for gate in dict.fromkeys(gs2):
            placement = ['whole', 'spectators', 'neighbour'][(n + rng.randrange(2)) % 3]
            n += 1
            own, other = ([q[0], q[1]], [q[2], q[0]]) if rng.random() < 0.5 else ([q[2], q[1]], [q[1], q[0]])
            cop = sub_circuit_form(cirq, rng, form, gate, own, other)
            spare = [x for x in q if x not in own][0]
            ops = [cop] + ([] if placement == 'whole' and form != 'qubit_map' else [(cirq.X ** 0.3).on(spare)]) + ([(cirq.Y ** 0.3).on(own[0])] if placement == 'neighbour' else [])
            yield form, gate, placement, cirq.Circuit(ops), q, False


def sub_circuit_stream(ctx, mods, checks, full):
    cirq = mods['cirq']
    rng = ctx.rng
    for ti, tname in enumerate(TARGETS):
        for form, gate, placement, circuit, qs, tagged in sub_circuit_cases(mods, rng, tname, ti, full):
            # deep compilation is handed the body as written: a body with unresolved symbols is a parameterized circuit, which the
            # property does not quantify over (the resolver form is compiled with deep=False, i.e. through the operations it stands for)
            deep = (not tname.startswith(('ionq', 'aqt', 'pasqal'))) and form != 'resolver' and rng.random() < 0.15
            rec = case_record(cirq, tname, 'sub_circuit', circuit, tagged, deep, 1)
            before_json = rec['circuit_json']
            stream = f'compile:{tname}:sub-circuit'
            cop = next(op for op in circuit.all_operations() if isinstance(op.untagged, cirq.CircuitOperation))
            shown = f'{show_op(cirq, cop)} ({placement}: [{", ".join(show_op(cirq, o) for o in circuit.all_operations())}])'
            try:
                gs, out = compile_case(mods, tname, circuit, tagged, deep, 1)
            except Exception as e:
                ctx.count(stream, [tname, before_json], True)
                report_compile(ctx, mods, rec, f'optimize_for_target_gateset({tname}) raised {type(e).__name__}: {str(e)[:160]} on the sub-circuit {shown}')
                continue
            ctx.count(stream, [tname, before_json], True,
                      sample=dict(target=tname, form=form, gate=repr(gate)[:60], placement=placement, output_ops=sum(1 for _ in out.all_operations())) if rng.random() < 0.01 else None)
            if cirq.to_json(circuit) != before_json:
                report_compile(ctx, mods, rec, f'optimize_for_target_gateset({tname}) modified its input circuit')
            bad = [op for op in out.all_operations() if not gs.validate(op)]
            if bad or not gs.validate(out):
                report_compile(ctx, mods, rec, f'optimize_for_target_gateset({tname}) left {len(bad)} operation(s) the target does not accept for the sub-circuit {shown}, e.g. {show_op(cirq, bad[0])[:200] if bad else ""}')
            if not set(out.all_qubits()) <= set(qs):
                ctx.violation('compile:extra-qubits:CircuitOperation', f'optimize_for_target_gateset({tname}) output for the sub-circuit {shown} acts on qubits outside the input', rec)
                continue
            try:
                lhs, rhs = gop_list(cirq, circuit, qs), gop_list(cirq, out, qs)
            except Exception as e:
                ctx.violation(f'compile:{tname}:sub-circuit:non-unitary-output', f'an output operation of optimize_for_target_gateset({tname}) has no unitary: {type(e).__name__}: {str(e)[:200]}', rec)
                continue
            sh = gates.nlist([2] * len(qs))
            checks.append((stream, f'fcll_close_phase {TOL} (circ_unitary FOps {sh} {rhs}) (circ_unitary FOps {sh} {lhs})',
                           f'optimize_for_target_gateset({tname}) changed the unitary of the sub-circuit {shown}: the compiled circuit does not have the unitary of the unrolled input',
                           dict(signature=f'compile:{tname}:sub-circuit:unitary', **rec)))


def compile_holds(mods, rec, circuit):
    """The three clauses of the property on one compile case, decided on the real code with numpy. Returns (holds, detail, clause)."""
    cirq = mods['cirq']
    qs = sorted(circuit.all_qubits())
    text = cirq.to_json(circuit)
    try:
        gs, out = compile_case(mods, rec['target'], circuit, rec['tagged'], rec['deep'], rec['passes'])
    except Exception as e:
        return False, f'raised {type(e).__name__}: {str(e)[:160]}', 'raises'
    d = phase_dist(py_unitary(cirq, out, qs), py_unitary(cirq, circuit, qs))
    bad = [op for op in out.all_operations() if not gs.validate(op)]
    same = cirq.to_json(circuit) == text
    clause = 'unitary' if d > 2e-6 else ('not-native' if bad else ('input-modified' if not same else ''))
    detail = f'max deviation up to phase {d:.3g}; unaccepted operations {len(bad)}; input unchanged {same}'
    if clause == 'not-native' and rec['deep'] and all(isinstance(op.untagged, cirq.CircuitOperation) for op in bad):
        # deep compilation kept a CircuitOperation whose body it compiled, but the operations the CircuitOperation stands for
        # (body inverted by negative repetitions, symbols fixed by its parameter resolver) are not all accepted by the target
        clause = 'not-native-deep-wrapper'
        leaf = next((o for op in bad for o in stands_for(cirq, op) if not gs.validate(o)), None)
        detail += (f'; deep=True kept {show_op(cirq, bad[0])[:300]} in the output, which stands for operations the target does not accept'
                   + (f', e.g. {show_op(cirq, leaf)}' if leaf is not None else ''))
    return clause == '', detail, clause


def gate_name(op):
    u = op.untagged
    return type(u.gate).__name__ if u.gate is not None else type(u).__name__


def minimise_compile(mods, rec, clause):
    """Greedy removal of operations while the same clause still fails; the signature names the gate types that remain."""
    cirq = mods['cirq']
    circuit = cirq.read_json(json_text=rec['circuit_json'])
    ops = list(circuit.all_operations())
    fails = lambda ops_: bool(ops_) and compile_holds(mods, rec, cirq.Circuit(ops_))[2] == clause
    if not fails(ops):
        return circuit, None          # depends on the moment structure: keep the circuit as generated
    changed = True
    while changed and len(ops) > 1:
        changed = False
        for i in range(len(ops)):
            t = ops[:i] + ops[i + 1:]
            if fails(t):
                ops, changed = t, True
                break
    names = '+'.join(sorted(gate_name(op) for op in ops))
    return cirq.Circuit(ops), names


def confirm_compile(mods, rec):
    """Python oracle on the real code for one compile case: returns (holds, detail, signature or None, minimised record)."""
    cirq = mods['cirq']
    circuit = cirq.read_json(json_text=rec['circuit_json'])
    holds, detail, clause = compile_holds(mods, rec, circuit)
    if holds:
        return True, detail, None, rec
    small, names = minimise_compile(mods, rec, clause)
    rec = dict(rec, circuit_json=cirq.to_json(small), circuit=str(small)[:1500], minimised_ops=[repr(op)[:300] for op in small.all_operations()][:8])
    sig = f'compile:{clause}:{names}' if names else f'compile:{clause}:{rec["target"]}:{rec["input_kind"]}'
    if clause == 'not-native-deep-wrapper':
        sig = 'compile:not-native:deep-kept-circuit-op'
    return False, detail, sig, rec




# ---------------------------------------------------------------- abstract descriptions for the membership model
class Unmodelled(Exception):
    pass



class Describer:
    """Gate / operation / family / gateset -> Gallina terms of Xform/Gateset.v.  Type ids follow class objects, tag ids
    follow tag equality, value classes follow the gate's own ==; for every gate the list of instance-family gates it
    equals up to global phase is computed here (phase_equal).  Families must be described before the gates."""

    def __init__(self, cirq):
        self.cirq = cirq
        self.types, self.tags, self.vals, self.insts = {}, [], [], []

    def type_id(self, cls):
        return self.types.setdefault(cls, len(self.types))

    def tag_id(self, tag):
        for i, t in enumerate(self.tags):
            if type(t) is type(tag) and t == tag:
                return i
        self.tags.append(tag)
        return len(self.tags) - 1

    def tag_list(self, tags):
        return gates.nlist([self.tag_id(t) for t in tags])

    def val_id(self, g):
        for i, h in enumerate(self.vals):
            try:
                if h == g:
                    return i
            except Exception:
                pass
        self.vals.append(g)
        return len(self.vals) - 1

    def inst_id(self, h):
        """Id of an instance-family gate (registered while describing families)."""
        for i, x in enumerate(self.insts):
            if x is h:
                return i
        self.insts.append(h)
        return len(self.insts) - 1

    def phase_equal(self, g, h):
        """cirq.equal_up_to_global_phase as documented for gates, re-derived with numpy: two EigenGates must belong to the
        same eigen-family (the class their own equality uses) and have equal matrices up to phase; otherwise equal
        matrices up to phase; gates without a matrix fall back on ==."""
        cirq = self.cirq
        if cirq.is_parameterized(g) or cirq.is_parameterized(h):
            return False
        if isinstance(g, cirq.EigenGate) and isinstance(h, cirq.EigenGate) and g._value_equality_values_cls_() is not h._value_equality_values_cls_():
            return False
        if cirq.has_unitary(g) and cirq.has_unitary(h):
            if cirq.qid_shape(g) != cirq.qid_shape(h):
                return False
            return phase_dist(np.asarray(cirq.unitary(g)), np.asarray(cirq.unitary(h))) <= 1e-8
        try:
            return bool(g == h)
        except Exception:
            return False

    def phase_list(self, g):
        return [i for i, h in enumerate(self.insts) if self.phase_equal(g, h)]

    def gate(self, g):
        cirq = self.cirq
        b = lambda x: 'true' if x else 'false'
        mro = [self.type_id(c) for c in type(g).mro()]
        sym = cirq.is_parameterized(g)
        is_int = False
        if isinstance(g, cirq.EigenGate) and not sym:
            is_int = int(g.exponent) == g.exponent
        sub = f'(Some {self.gate(g.sub_gate)})' if isinstance(g, cirq.ParallelGate) else 'None'
        return (f'(GD {gates.nlist(mro)} {self.val_id(g)} {gates.nlist(self.phase_list(g))} {b(sym)} {b(is_int)} {cirq.num_qubits(g)} '
                f'{b(cirq.has_unitary(g))} {b(isinstance(g, (cirq.MeasurementGate, cirq.WaitGate)))} {sub})')

    def op(self, op):
        cirq = self.cirq
        if op.gate is not None:
            return f'(OGate {self.gate(op.gate)} {self.tag_list(op.tags)})'
        if isinstance(op.untagged, cirq.CircuitOperation):
            inner = [self.op(o) for o in op.untagged.mapped_circuit(deep=True).all_operations()]
            return f'(OCircuit {self.tag_list(op.tags)} [{"; ".join(inner)}])'
        return f'(OOther {self.tag_list(op.tags)})'

    def item(self, x):
        cirq = self.cirq
        if isinstance(x, cirq.Operation):
            g = f'(Some {self.gate(x.gate)})' if x.gate is not None else 'None'
            return f'(IOp {g} {self.tag_list(x.tags)})'
        return f'(IGate {self.gate(x)})'

    def base(self, f):
        if isinstance(f.gate, type):
            return f'(BType {self.type_id(f.gate)})'
        return f'(BInst {self.val_id(f.gate)} {self.inst_id(f.gate)} {"true" if f._ignore_global_phase else "false"})'

    def family(self, f):
        cirq = self.cirq
        t = type(f)
        if t is cirq.GateFamily:
            k = f'(FBase {self.base(f)})'
        elif t is cirq.AnyIntegerPowerGateFamily:
            k = f'(FIntPow {self.type_id(f.gate)})'
        elif t is cirq.ParallelGateFamily:
            k = f'(FParallel {self.base(f)} {coq.opt(f._max_parallel_allowed, lambda x: f"{x}%nat")})'
        elif t is cirq.AnyUnitaryGateFamily:
            k = f'(FAnyUnitary {coq.opt(f._num_qubits, lambda x: f"{x}%nat")})'
        else:
            raise Unmodelled(t.__name__)
        return f'(mkF {k} {self.tag_list(sorted(f.tags_to_accept, key=repr))} {self.tag_list(sorted(f.tags_to_ignore, key=repr))})'

    def gateset(self, gs):
        cirq = self.cirq
        fams = '; '.join(self.family(f) for f in sorted(gs.gates, key=repr))
        banned = [gs._intermediate_result_tag] if isinstance(gs, cirq.CompilationTargetGateset) else []
        return f'(mkGS [{fams}] {"true" if gs._unroll_circuit_op else "false"} {self.tag_list(banned)})'


GS_PRE = gates.COQ_HEADER + 'From VF Require Import Xform.Gateset.\n'


def membership_items(mods, rng):
    """Gates and operations probing every branch of the membership rules."""
    cirq, cg, ci = mods['cirq'], mods['cirq_google'], mods['cirq_ionq']
    import sympy
    q = cirq.LineQubit.range(4)
    e = lambda: gates.draw_exp(rng)
    gs = [cirq.X, cirq.XPowGate(), cirq.X ** 0.5, cirq.X ** e(), cirq.rx(math.pi), cirq.rx(0.3), cirq.Y, cirq.ry(math.pi), cirq.Y ** e(), cirq.Z, cirq.S, cirq.T,
          cirq.rz(math.pi), cirq.Z ** e(), cirq.Z ** 3, cirq.H, cirq.H ** 0.5, cirq.H ** 3, cirq.CZ, cirq.CZ ** 0.5, cirq.CZ ** 3, cirq.CZ ** 2, cirq.CZ ** -1,
          cirq.CZPowGate(exponent=1, global_shift=0.5), cirq.CNOT, cirq.CNOT ** 2, cirq.CX ** 0.5, cirq.CNOT ** 3, cirq.SWAP, cirq.SWAP ** 0.5, cirq.SWAP ** 3,
          cirq.ISWAP, cirq.SQRT_ISWAP, cirq.SQRT_ISWAP_INV, cirq.ISWAP ** -0.5, cirq.ISWAP ** 3.5, cirq.ISWAP ** 2.5, cirq.ISWAP ** 4.5, cg.SYC,
          cirq.FSimGate(math.pi / 2, math.pi / 6), cirq.FSimGate(math.pi / 2, 0.3), cirq.PhasedXZGate(x_exponent=e(), z_exponent=e(), axis_phase_exponent=e()),
          cirq.PhasedXPowGate(phase_exponent=e(), exponent=e()), cirq.XX ** e(), cirq.XX, cirq.YY ** e(), cirq.ZZ ** e(), cirq.ms(0.3), cirq.CCZ, cirq.CCX,
          cirq.CCZ ** 2, cirq.CCZ ** 0.5, cirq.CCX ** 3, cirq.MeasurementGate(1, 'k'), cirq.MeasurementGate(2, 'kk'), cirq.I, cirq.IdentityGate(2),
          cirq.GlobalPhaseGate(1j), cirq.MatrixGate(gates.random_unitary(rng, 2)), cirq.MatrixGate(gates.random_unitary(rng, 4)),
          cirq.MatrixGate(np.diag([1, 1, 1, -1]).astype(complex)), cirq.ParallelGate(cirq.H, 2), cirq.ParallelGate(cirq.X ** 0.3, 3),
          cirq.ParallelGate(cirq.Y, 2), ci.GPIGate(phi=0.2), ci.GPI2Gate(phi=0.1), ci.MSGate(phi0=0.1, phi1=0.2), ci.ZZGate(theta=0.25),
          cirq.WaitGate(cirq.Duration(nanos=10)), cirq.X ** sympy.Symbol('a'), cirq.CZ ** sympy.Symbol('b'), cirq.ControlledGate(cirq.Z), cirq.ControlledGate(cirq.X),
          cirq.QubitPermutationGate([1, 0]), cirq.CSWAP, cirq.ResetChannel(), cirq.depolarize(0.1), cirq.PhasedISwapPowGate(phase_exponent=0.25, exponent=0.5),
          cirq.FSimGate(theta=sympy.Symbol('a'), phi=sympy.Symbol('b')), cirq.FSimGate(theta=sympy.Symbol('a'), phi=math.pi / 6),
          cirq.PhasedXPowGate(phase_exponent=0.25, exponent=sympy.Symbol('a')), cirq.ISWAP ** sympy.Symbol('a'), cirq.H ** sympy.Symbol('a')]
    items = []
    tags = [(), (), ('native_iswap',), (NC_TAG,), ('_default_merged_k_qubit_unitaries',), (cg.PhysicalZTag(),), ('acc',), ('ign',), ('acc', 'ign'), ('other', 7)]
    for g in gs:
        items.append(g)
        n = cirq.num_qubits(g)
        if n <= 4:
            op = g.on(*q[:n])
            items.append(op)
            t = rng.choice(tags)
            if t:
                items.append(op.with_tags(*t))
            if rng.random() < 0.3:
                items.append(op.with_tags(*rng.choice(tags[2:])))
    # every tag combination on the gates the tagged families talk about
    for g in (cirq.X, cirq.X ** 0.5, cirq.Z, cirq.Z ** 0.3, cirq.CZ, cirq.CZ ** 0.5, cirq.ISWAP, cirq.SQRT_ISWAP, cirq.H, cirq.rx(math.pi)):
        for t in tags[2:]:
            items.append(g.on(*q[:cirq.num_qubits(g)]).with_tags(*t))
    sub1 = cirq.FrozenCircuit(cirq.CZ(q[0], q[1]), cirq.PhasedXZGate(x_exponent=0.1, z_exponent=0.2, axis_phase_exponent=0.3).on(q[0]))
    sub2 = cirq.FrozenCircuit(cirq.CZ(q[0], q[1]), cirq.ISWAP(q[1], q[2]))
    sub3 = cirq.FrozenCircuit(cirq.CircuitOperation(sub1), cirq.X(q[2]) ** 0.5)
    sub4 = cirq.FrozenCircuit(cirq.CZ(q[0], q[1]).with_tags('_default_merged_k_qubit_unitaries'))
    items += [cirq.CircuitOperation(sub1), cirq.CircuitOperation(sub2), cirq.CircuitOperation(sub3), cirq.CircuitOperation(sub1).with_tags('acc'),
              cirq.CircuitOperation(sub1).with_tags('_default_merged_k_qubit_unitaries'), cirq.CircuitOperation(sub4), cirq.CircuitOperation(sub1, repetitions=2),
              cirq.CircuitOperation(cirq.FrozenCircuit()), cirq.X(q[0]).with_classical_controls('k'), cirq.CZ(q[0], q[1]).with_classical_controls('k').with_tags('acc'),
              cirq.Z(q[0]).controlled_by(q[1]), cirq.X(q[0]).controlled_by(q[1]).with_tags('acc')]
    return items


def extra_gatesets(mods):
    """Hand-made gatesets exercising tag lists, instance families without phase, the special families and unroll_circuit_op."""
    cirq, cg = mods['cirq'], mods['cirq_google']
    GF = cirq.GateFamily
    return {
        'tags': cirq.Gateset(GF(cirq.ZPowGate, tags_to_accept=['acc']), GF(cirq.XPowGate, tags_to_ignore=['ign']), GF(cirq.CZ, tags_to_accept=['acc', 'other'], tags_to_ignore=['ign']),
                             GF(cirq.ISWAP, tags_to_ignore=['acc'])),
        'physz': cirq.Gateset(GF(cirq.ZPowGate, tags_to_accept=[cg.PhysicalZTag()]), GF(cirq.ZPowGate, tags_to_ignore=[cg.PhysicalZTag()]), cirq.CZ, unroll_circuit_op=False),
        'exact_instances': cirq.Gateset(GF(cirq.X, ignore_global_phase=False), GF(cirq.CZ, ignore_global_phase=False), GF(cirq.SQRT_ISWAP), cirq.H, cirq.MeasurementGate),
        'special': cirq.Gateset(cirq.AnyIntegerPowerGateFamily(cirq.CZPowGate), cirq.AnyIntegerPowerGateFamily(cirq.CCXPowGate), cirq.ParallelGateFamily(cirq.H),
                                cirq.ParallelGateFamily(cirq.XPowGate, max_parallel_allowed=2), cirq.AnyUnitaryGateFamily(1), cirq.IdentityGate),
        'any_unitary': cirq.Gateset(cirq.AnyUnitaryGateFamily(), unroll_circuit_op=False),
        'base_gate': cirq.Gateset(cirq.EigenGate, cirq.MeasurementGate),
        'empty': cirq.Gateset(),
    }


def answer(f):
    """True / False, or 'raises <Type>' when the implementation raises instead of answering."""
    try:
        return f()
    except Exception as e:
        return f'raises {type(e).__name__}'


def fsim_gatesets(mods):
    """Gatesets with FSimGateFamily members (not described by the Coq model): judged against the reference rule only."""
    cirq, cg = mods['cirq'], mods['cirq_google']
    F = cg.FSimGateFamily
    return {
        'fsim_family_cz_symbols': cirq.Gateset(F(gates_to_accept=[cirq.CZ], allow_symbols=True), cirq.PhasedXZGate),
        'fsim_family_instances': cirq.Gateset(F(gates_to_accept=[cg.SYC, cirq.SQRT_ISWAP, cirq.SQRT_ISWAP_INV, cirq.CZ]), cirq.XPowGate),
        'fsim_family_types': cirq.Gateset(F(gates_to_accept=[cirq.CZPowGate, cirq.SQRT_ISWAP], allow_symbols=True), cirq.AnyIntegerPowerGateFamily(cirq.CXPowGate)),
        'sycamore_device_gateset': cg.Sycamore.metadata.gateset,
    }


SYMBOLIC_RAISES = 'membership:raises:symbolic-gate-vs-instance-family'


def report_membership_raise(ctx, cirq, gname, it, ans):
    """`x in gateset` / validate raised: the documented answers are True and False."""
    leaves = stands_for(cirq, it) if isinstance(it, cirq.Operation) and isinstance(it.untagged, cirq.CircuitOperation) else [it]
    sym = [o for o in leaves if cirq.is_parameterized(o)]
    text = show_op(cirq, it) if isinstance(it, cirq.Operation) else repr(it)[:200]
    if sym:
        ctx.violation(SYMBOLIC_RAISES, (f'gateset {gname}: membership / validate of {text} raises ({ans}) instead of answering: it stands for the parameterized '
                                        f'{show_op(cirq, sym[0]) if isinstance(sym[0], cirq.Operation) else sym[0]!r}, which an instance family of the gateset compares approximately')[:600],
                      dict(kind='membership', gateset=gname, item=repr(it)[:400], cirq_answer=ans))
    else:
        stands = f', which stands for [{", ".join(show_op(cirq, o) for o in leaves[:4])}]' if leaves != [it] else ''
        ctx.violation(f'membership:raises:{str(ans).split()[-1]}', f'gateset {gname}: membership / validate of {text}{stands} raises ({ans}) instead of answering',
                      dict(kind='membership', gateset=gname, item=repr(it)[:400], cirq_answer=ans))


def judge_circuit_op(ctx, cirq, gname, gs, it, ans_in, ans_val):
    """A CircuitOperation against the reference rule (it is accepted exactly when the gateset unrolls and accepts every operation
    of its mapped circuit).  Returns 'new' / 'known' when a failing input was reported, else False."""
    want, why = reference_accepts(cirq, gs, it, False)
    ctx.cov['circuit_op_membership'] = ctx.cov.get('circuit_op_membership', 0) + 1
    ctx.cov['circuit_op_membership_accepted'] = ctx.cov.get('circuit_op_membership_accepted', 0) + (1 if want else 0)
    if (ans_in is True) == want and (ans_val is True) == want:
        return False
    flat = stands_for(cirq, it)
    shown = ', '.join(show_op(cirq, o) for o in flat[:4]) + (f', ... {len(flat) - 4} more' if len(flat) > 4 else '')
    if not flat:
        tail = 'which stands for no operation at all, so a gateset that unrolls circuit operations must accept it'
    elif want:
        tail = (f'which stands for [{shown}], each of which the gateset accepts on its own: validation must judge the mapped circuit (parameter resolver, '
                'repetitions / inversion, qubit map applied), not the raw body')
    else:
        tail = f'which stands for [{shown}], of which {show_op(cirq, why)} is not accepted by the gateset'
    r = ctx.violation(f'membership:circuit-op:{"refused" if want else "accepted"}{"" if flat else ":zero-repetitions"}',
                      (f'gateset {gname}: `op in gateset` -> {ans_in}, gateset.validate(op) -> {ans_val} for op = {show_op(cirq, it)}, {tail}')[:700],
                      dict(kind='cop_membership', gateset=gname, op_json=cirq.to_json(it), op=show_op(cirq, it), cirq_answer=f'in={ans_in} validate={ans_val}', reference=want))
    return 'known' if r == 'known' else 'new'


def membership_stream(ctx, mods, n_rounds):
    """Cirq's `x in gateset`, `gateset.validate(x)` and `x in family` against the model, for every item x family/gateset (both answers occur).
    CircuitOperations carrying parameter resolvers / repetitions / qubit maps / nesting are also judged by the reference rule on the real objects."""
    cirq = mods['cirq']
    rng = ctx.rng
    gsets = {t: make_target(mods, t) for t in TARGETS}
    gsets.update(extra_gatesets(mods))
    q = cirq.LineQubit.range(8)
    shards = []
    for rnd in range(n_rounds):
        items = membership_items(mods, rng)
        grid = circuit_op_grid(mods, rng, q[:3], q[4:7], full=rnd == 1)
        cop_ids = {id(it): form for form, _, it in grid}
        items = items + [it for _, _, it in grid]
        for gname, gs in gsets.items():
            d = Describer(cirq)
            try:
                gterm = d.gateset(gs)
            except Unmodelled as e:
                ctx.mark_broken('model:gateset-family', f'gateset {gname} has a family kind the model does not cover: {e}')
                continue
            rows, meta = [], []
            fams = sorted(gs.gates, key=repr)
            for it in items:
                is_op = isinstance(it, cirq.Operation)
                form = cop_ids.get(id(it))
                ans_in = answer(lambda: it in gs)
                ans_val = answer(lambda: gs.validate(it)) if is_op else None
                for a in (ans_in, ans_val):
                    if isinstance(a, str):
                        report_membership_raise(ctx, cirq, gname, it, a)
                        break
                fam = rng.choice(fams) if fams and (form is None or rng.random() < 0.1) else None
                acc = ans_in is True
                ctx.count('membership:' + gname + (':circuit-op' if form else ''), [gname, repr(it)[:300] if form is None else show_op(cirq, it)], True,
                          sample=dict(gateset=gname, item=repr(it)[:100] if form is None else show_op(cirq, it)[:160], accepted=ans_in) if rng.random() < 0.02 else None)
                flagged = form is not None and judge_circuit_op(ctx, cirq, gname, gs, it, ans_in, ans_val)
                if is_op:
                    rows.append(f'(let o := {d.op(it)} in Bool.eqb (op_in_gateset GS o) {"true" if acc else "false"} && Bool.eqb (validate_op GS o) {"true" if ans_val is True else "false"})')
                    meta.append((gname, it, f'in={ans_in} validate={ans_val}', flagged))
                else:
                    gd = d.gate(it)
                    rows.append(f'Bool.eqb (gateset_contains_gate GS {gd} (IGate {gd})) {"true" if acc else "false"}')
                    meta.append((gname, it, f'in={ans_in}', False))
                if fam is not None:
                    fans = answer(lambda: it in fam)
                    rows.append(f'Bool.eqb (family_contains {d.family(fam)} {d.item(it)}) {"true" if fans is True else "false"}')
                    meta.append((gname + ':family:' + type(fam).__name__, it, f'{fam!r} contains -> {fans}', False))
                    ctx.count('membership:family', [repr(fam), repr(it)[:300]], True)
            shards.append((gname, f'Definition GS := {gterm}.\nDefinition checks : list bool := [\n' + ';\n'.join(rows) + '].\nEval vm_compute in failing (fun b => b) checks.\n', meta))
        # gatesets outside the Coq model (FSimGateFamily): the reference rule on the real objects only
        for gname, gs in fsim_gatesets(mods).items():
            for form, _, it in grid:
                ans_in, ans_val = answer(lambda: it in gs), answer(lambda: gs.validate(cirq.Circuit(it)))
                ctx.count('membership:' + gname + ':circuit-op', [gname, show_op(cirq, it)], True)
                for a in (ans_in, ans_val):
                    if isinstance(a, str):
                        report_membership_raise(ctx, cirq, gname, it, a)
                        break
                judge_circuit_op(ctx, cirq, gname, gs, it, ans_in, ans_val)
    outs = coq.coq_eval_many([(f'c07m_{ctx.seed}_{i}', GS_PRE + text) for i, (_, text, _) in enumerate(shards)], workers=12)
    for (gname, _, meta), out in zip(shards, outs):
        failing = set(coq.parse_nat_list(coq.parse_evals(out)[0]))
        for idx, (where, it, ans, flagged) in enumerate(meta):
            if flagged and idx not in failing:
                ctx.mark_broken('correspondence:membership-reference', f'{where}: the reference rule refutes Cirq\'s answer ({ans}) for {show_op(cirq, it)} but the Coq model agrees with it')
        for idx in sorted(failing):
            where, it, ans, flagged = meta[idx]
            if flagged:
                if flagged == 'new':
                    ctx.mark_broken('correspondence:membership', f'{where}: {show_op(cirq, it)}'[:300])
                continue
            kind = type(it.gate).__name__ if isinstance(it, cirq.Operation) and it.gate is not None else type(it.untagged if isinstance(it, cirq.Operation) else it).__name__
            shown = show_op(cirq, it) if isinstance(it, cirq.Operation) and isinstance(it.untagged, cirq.CircuitOperation) else repr(it)[:200]
            ctx.disagree('correspondence:membership', f'{where}: {it!r}'[:300], f'membership:{where}:{kind}',
                         f'membership of {shown} in gateset/family {where} differs from the documented rule (Cirq answers {ans})',
                         dict(kind='membership', gateset=where, item=repr(it)[:400], cirq_answer=ans))


def output_membership_checks(ctx, mods, tname, gs, out, checks, rec):
    """(i) recomputed by the model: every operation of a compiler output is accepted by the described gateset."""
    cirq = mods['cirq']
    d = Describer(cirq)
    try:
        gterm = d.gateset(gs)
        ops = '[' + ';\n '.join(d.op(o) for o in out.all_operations()) + ']'
    except Unmodelled as e:
        ctx.mark_broken('model:gateset-family', f'{tname}: {e}')
        return
    cirq_says = 'true' if gs.validate(out) else 'false'
    checks.append((f'compile:{tname}:membership', f'Bool.eqb (validate {gterm} {ops}) {cirq_says}', f'the membership model and gateset.validate disagree on the output of optimize_for_target_gateset({tname})',
                   dict(signature=f'compile:{tname}:membership-model', **rec)))


# ---------------------------------------------------------------- routing
class Timeout(Exception):
    pass


def with_timeout(seconds, f):
    def h(signum, frame):
        raise Timeout()
    old = signal.signal(signal.SIGALRM, h)
    signal.alarm(seconds)
    try:
        return f()
    finally:
        signal.alarm(0)
        signal.signal(signal.SIGALRM, old)


def gen_graph(mods, rng, big=False):
    """A connected device graph: dict(kind, nodes(list of qubit specs), edges(list of index pairs), directed)."""
    kind = rng.choice(['line', 'grid', 'tree', 'tree+chords', 'ring'])
    if kind == 'line':
        n = rng.randint(2, 8 if big else 5)
        nodes = [('L', i) for i in range(n)]
        edges = [(i, i + 1) for i in range(n - 1)]
    elif kind == 'ring':
        n = rng.randint(3, 8 if big else 5)
        nodes = [('L', i) for i in range(n)]
        edges = [(i, (i + 1) % n) for i in range(n)]
    elif kind == 'grid':
        r, c = rng.choice([(2, 2), (2, 3), (3, 3), (2, 4)] if big else [(2, 2), (2, 2), (1, 4), (2, 3)])
        if not big and r * c > 5:
            r, c = 2, 2
        nodes = [('G', i, j) for i in range(r) for j in range(c)]
        at = {(i, j): i * c + j for i in range(r) for j in range(c)}
        edges = [(at[i, j], at[i, j + 1]) for i in range(r) for j in range(c - 1)] + [(at[i, j], at[i + 1, j]) for i in range(r - 1) for j in range(c)]
    else:
        n = rng.randint(3, 9 if big else 5)
        nodes = [('N', i) for i in range(n)]
        edges = [(rng.randrange(i), i) for i in range(1, n)]
        if kind == 'tree+chords':
            for _ in range(rng.randint(1, 3)):
                a, b = rng.sample(range(n), 2)
                if (a, b) not in edges and (b, a) not in edges:
                    edges.append((a, b))
    directed = rng.random() < 0.35
    if directed:
        de = []
        for a, b in edges:
            r = rng.random()
            de += [(a, b)] if r < 0.35 else ([(b, a)] if r < 0.7 else [(a, b), (b, a)])
        edges = de
    return dict(kind=kind, nodes=nodes, edges=edges, directed=directed)


def qubit_of(cirq, spec):
    if spec[0] == 'L':
        return cirq.LineQubit(spec[1])
    if spec[0] == 'G':
        return cirq.GridQubit(spec[1], spec[2])
    return cirq.NamedQubit(f'n{spec[1]:02d}')


def nx_graph(cirq, g):
    import networkx as nx
    G = nx.DiGraph() if g['directed'] else nx.Graph()
    qs = [qubit_of(cirq, s) for s in g['nodes']]
    G.add_nodes_from(qs)
    G.add_edges_from((qs[a], qs[b]) for a, b in g['edges'])
    return G, qs


ROUTE_1Q = ['XPow', 'YPow', 'ZPow', 'HPow', 'PhasedX', 'PhasedXZ', 'Rx', 'Rz', 'Matrix1']
ROUTE_2Q = ['CZPow', 'CXPow', 'SwapPow', 'ISwapPow', 'XXPow', 'ZZPow', 'FSim', 'PhasedISwap', 'Matrix2', 'CXPow', 'CZPow']


def gen_route_circuit(mods, rng, k, measure):
    """A circuit on k logical qubits (LineQubit 100+i) of one- and two-qubit operations."""
    cirq = mods['cirq']
    lq = [cirq.LineQubit(100 + i) for i in range(k)]
    c = cirq.Circuit()
    if k >= 2 and rng.random() < 0.06:
        # the same interaction repeated through more timesteps than the default lookahead radius
        a, b = rng.sample(lq, 2)
        c.append([cirq.CZ(a, b)] * rng.randint(8, 10))
    for _ in range(rng.randint(2, 12)):
        two = k >= 2 and rng.random() < 0.6
        fam = rng.choice(ROUTE_2Q if two else ROUTE_1Q)
        if fam.startswith('Matrix'):
            gate = matrix_gate(mods, rng, int(fam[-1]))
        else:
            gate = gates.draw(rng, fam).cirq_gate(cirq, mods)
        op = gate.on(*rng.sample(lq, 2 if two else 1))
        if rng.random() < 0.1:
            op = op.with_tags('user_tag')
        if rng.random() < 0.08 and len(op.qubits) <= 2:
            op = cirq.CircuitOperation(cirq.FrozenCircuit(op, cirq.H(op.qubits[0])))
        c.append(op, strategy=cirq.InsertStrategy.NEW if rng.random() < 0.15 else cirq.InsertStrategy.EARLIEST)
    if measure:
        m = rng.sample(lq, rng.randint(1, k))
        if rng.random() < 0.5:
            # a joint measurement of three or more qubits under a custom key is routed only from the last moment (the router refuses it
            # elsewhere with ValueError, as documented), so it gets a final moment of its own
            c.append(cirq.measure(*m, key='out'), strategy=cirq.InsertStrategy.NEW if len(m) >= 3 else cirq.InsertStrategy.EARLIEST)
        else:
            c.append([cirq.measure(q, key=f'm{i}') for i, q in enumerate(m)])
    return c, lq


def route_case(mods, rec):
    """Runs the router on the recorded case. Returns dict(graph, phys, circuit, routed, init, swap)."""
    cirq = mods['cirq']
    G, phys = nx_graph(cirq, rec['graph'])
    circuit = cirq.read_json(json_text=rec['circuit_json'])
    if rec['mapper'] == 'line':
        mapper = cirq.LineInitialMapper(G)
    elif rec['mapper'] == 'default':
        mapper = None
    elif rec['mapper'] == 'custom':
        # a user-written mapper: any AbstractInitialMapper may place more logical qubits than the circuit uses
        placement = {cirq.LineQubit(a): phys[b] for a, b in rec['mapping']}

        class RegisterMapper(cirq.AbstractInitialMapper):
            def initial_mapping(self, circuit):
                return dict(placement)

        mapper = RegisterMapper()
    else:
        mapper = cirq.HardCodedInitialMapper({cirq.LineQubit(a): phys[b] for a, b in rec['mapping']})
    router = cirq.RouteCQC(G)
    routed, init, swap = with_timeout(rec.get('timeout', 8), lambda: router.route_circuit(
        circuit, lookahead_radius=rec['lookahead'], tag_inserted_swaps=True, initial_mapper=mapper))
    return dict(G=G, phys=phys, circuit=circuit, routed=routed, init=init, swap=swap)


class OpTable:
    """Identifies operations up to their qubits: index of (operation moved to placeholder qubits) in a table."""

    def __init__(self, cirq):
        self.cirq, self.items, self.keys = cirq, [], {}

    def ident(self, op):
        cirq = self.cirq
        canon = op.transform_qubits({q: cirq.NamedQubit(f'_slot{i}') for i, q in enumerate(op.qubits)})
        for i, c in enumerate(self.items):
            if c == canon:
                return i
        self.items.append(canon)
        return len(self.items) - 1

    def key_ids(self, op):
        cirq = self.cirq
        ks = sorted(str(k) for k in (cirq.measurement_key_objs(op) | cirq.control_keys(op)))
        return [self.keys.setdefault(k, len(self.keys)) for k in ks]


def expected_original_ops(cirq, circuit):
    """The operation stream the router is documented to route: as given, except that an intermediate measurement on
    three or more qubits with the default key is split into single-qubit measurements (known contract detail)."""
    out = []
    n_m = len(circuit.moments)
    for i, moment in enumerate(circuit):
        for op in moment:
            if cirq.num_qubits(op) > 2 and cirq.is_measurement(op) and i + 1 != n_m and op.gate.key in ('', cirq.measure(op.qubits).gate.key):
                out.extend(cirq.measure(q) for q in op.qubits)
            else:
                out.append(op)
    return out


def certificate(mods, r):
    """The route_ok call for one router result (Gallina text), or a string describing why it cannot even be written."""
    cirq = mods['cirq']
    init, swap, routed, G = r['init'], r['swap'], r['routed'], r['G']
    logical = sorted(init.keys())
    physical = sorted(init.values())
    if len(set(physical)) != len(physical) or set(swap.keys()) != set(physical) or set(swap.values()) != set(physical):
        return None, 'initial mapping is not injective or the swap map is not a permutation of the mapped physical qubits'
    if any(p not in G.nodes for p in physical):
        return None, 'initial mapping uses qubits that are not on the device'
    li = {q: i for i, q in enumerate(logical)}
    pi = {q: i for i, q in enumerate(physical)}
    tbl = OpTable(cirq)
    oop = lambda op, idx: f'mkO {tbl.ident(op)} {gates.nlist([idx[q] for q in op.qubits])} {gates.nlist(tbl.key_ids(op))}'
    orig = []
    for op in expected_original_ops(cirq, r['circuit']):
        if any(q not in li for q in op.qubits):
            return None, f'input operation {op} uses a qubit the initial mapping does not place'
        orig.append(oop(op, li))
    rt = []
    tag = cirq.RoutingSwapTag()
    for op in routed.all_operations():
        if any(q not in pi for q in op.qubits):
            return None, f'routed operation {op} acts on a qubit outside the mapped physical qubits'
        if tag in op.tags:
            g = op.gate
            a = [pi[q] for q in op.qubits]
            if g == cirq.SWAP:
                rt.append(f'RSwap {a[0]} {a[1]}')
            elif g == cirq.CNOT:
                rt.append(f'RCx {a[0]} {a[1]}')
            elif g == cirq.H:
                rt.append(f'RHd {a[0]}')
            else:
                return None, f'operation {op} carries RoutingSwapTag but is neither SWAP nor a piece of the directed SWAP block'
        else:
            rt.append(f'ROp ({oop(op, pi)})')
    edges = [(pi[a], pi[b]) for a, b in G.edges if a in pi and b in pi]
    l2p0 = [pi[init[q]] for q in logical]
    final = [pi[swap[p]] for p in physical]
    lst = lambda xs: '[' + '; '.join(xs) + ']'
    term = (f'route_ok {len(physical)} {lst(orig)} {lst(rt)} {gates.nlist(l2p0)} {gates.nlist(final)} '
            f'{lst([f"({a}, {b})%nat" for a, b in edges])} {"true" if G.is_directed() else "false"}')
    return term, None


def relation_terms(mods, r):
    """Both sides of DESIGN A.6 as Gallina unitaries: U_routed and P(swap_map) . U_ref over phys = sorted(device nodes)."""
    cirq = mods['cirq']
    phys = sorted(r['G'].nodes)
    ref = r['circuit'].transform_qubits(lambda q: r['init'][q])
    perm = [phys.index(r['swap'].get(p, p)) for p in phys]
    n = len(phys)
    sh = gates.nlist([2] * n)
    ref_ops = gop_list(cirq, ref, phys)
    rhs = f'(circ_unitary FOps {sh} ({ref_ops} ++ [(GPerm {gates.nlist(perm)}, {gates.nlist(range(n))})]))'
    lhs = f'(circ_unitary FOps {sh} {gop_list(cirq, r["routed"], phys)})'
    return lhs, rhs


def without_measurements(cirq, circuit):
    return cirq.Circuit(op for op in unrolled(cirq, circuit).all_operations() if not cirq.is_measurement(op))


def show_map(m):
    return '{' + ', '.join(f'{k}: {v}' for k, v in sorted(m.items())) + '}'


def show_qs(qs):
    return '[' + ', '.join(str(q) for q in sorted(qs)) + ']'


def route_oracle(mods, r):
    """Spec-level oracle on the real output (numpy), judged against the maps the router REPORTS: clause that fails, or ''.
    Clauses: two-qubit operations on edges / on the device; the reported initial mapping places every qubit of the circuit
    injectively on the device; the reported swap map is a permutation of the placed physical qubits (all of them: a placement of
    a logical qubit the circuit never uses can be displaced by an inserted swap, which is an operation of the routed circuit);
    U_routed = P(swap_map) . U(circuit moved by the initial mapping) up to phase (measurements left out on both sides)."""
    cirq = mods['cirq']
    G, init, swap = r['G'], r['init'], r['swap']
    for op in r['routed'].all_operations():
        if any(q not in G.nodes for q in op.qubits):
            return 'off-device', f'{op} uses a qubit that is not on the device'
        if len(op.qubits) == 2 and not cirq.is_measurement(op):
            a, b = op.qubits
            if not (G.has_edge(a, b) or (not G.is_directed() and G.has_edge(b, a))):
                return 'off-edge', f'{op} is not on a graph edge'
    placed = set(init.values())
    unplaced = sorted(q for q in r['circuit'].all_qubits() if q not in init)
    if unplaced or len(placed) != len(init) or any(p not in G.nodes for p in placed):
        return 'initial-mapping', (f'reported initial mapping {show_map(init)} does not place every circuit qubit on its own device qubit'
                                   + (f' (unplaced: {show_qs(unplaced)})' if unplaced else ''))
    phys = sorted(G.nodes)
    stray = sorted(q for q in set(swap) | set(swap.values()) if q not in G.nodes)
    if stray:
        return 'swap-map-not-permutation', f'reported swap map {show_map(swap)} mentions {show_qs(stray)}, which are not device qubits'
    sigma = {p: swap.get(p, p) for p in phys}
    missing = sorted(placed - set(swap))
    if sorted(sigma.values()) != phys:
        twice = sorted({v for v in sigma.values() if list(sigma.values()).count(v) > 1})
        return 'swap-map-not-permutation', (
            f'reported swap map {show_map(swap)} is not a permutation of the placed physical qubits {show_qs(placed)} (reported initial mapping '
            f'{show_map(init)}): ' + (f'it has no entry for {show_qs(missing)}, and completed by the identity ' if missing else '') + f'it sends two qubits to {show_qs(twice)}, '
            'so the routed circuit cannot equal the original up to the reported permutation')
    if cirq.has_unitary(r['circuit']):
        ref = without_measurements(cirq, r['circuit']).transform_qubits(lambda q: init[q])
        perm = [phys.index(sigma[p]) for p in phys]
        P = cirq.unitary(cirq.QubitPermutationGate(perm)) if len(perm) > 1 and perm != list(range(len(perm))) else np.eye(2 ** len(phys))
        d = phase_dist(py_unitary(cirq, without_measurements(cirq, r['routed']), phys), P @ py_unitary(cirq, ref, phys))
        if d > 2e-6:
            return 'not-equivalent', (f'U_routed differs from P(swap_map) . U_ref by {d:.3g} (up to phase) for the reported initial mapping {show_map(init)} '
                                      f'and swap map {show_map(swap)}')
        detail = f'deviation {d:.3g}'
    else:
        detail = 'non-unitary circuit: only the discrete clauses are decided here'
    if set(swap) != placed or set(swap.values()) != placed:
        return 'swap-map-domain', (f'reported swap map {show_map(swap)} is not a map of the placed physical qubits {show_qs(placed)} onto themselves '
                                   f'(no entry for {show_qs(missing)}; entries outside: {show_qs((set(swap) | set(swap.values())) - placed)})')
    return '', detail


def describe_route(cirq, rec, r=None):
    """The concrete input of one router run, for a violation line."""
    g = rec['graph']
    qs = [qubit_of(cirq, sp) for sp in g['nodes']]
    edges = ', '.join(f'{qs[a]}{"->" if g["directed"] else "-"}{qs[b]}' for a, b in g['edges'])
    if rec['mapper'] in ('hard', 'custom'):
        mp = ('HardCodedInitialMapper' if rec['mapper'] == 'hard' else 'custom AbstractInitialMapper') + ' {' + ', '.join(
            f'{cirq.LineQubit(a)}: {qs[b]}' for a, b in rec['mapping']) + '}'
    else:
        mp = 'LineInitialMapper' if rec['mapper'] == 'line' else 'default mapper'
    circuit = cirq.read_json(json_text=rec['circuit_json'])
    ops = ', '.join(' '.join(str(op).split())[:90] for op in list(circuit.all_operations())[:8])
    more = sum(1 for _ in circuit.all_operations()) - 8
    return (f'RouteCQC({g["kind"]} graph {edges}).route_circuit([{ops}{f", ... {more} more" if more > 0 else ""}], lookahead_radius={rec["lookahead"]}, '
            f'initial_mapper={mp})')


def confirm_route(mods, rec):
    try:
        r = route_case(mods, rec)
    except Timeout:
        return False, 'route_circuit did not return within the time limit', f'route:hang:{"directed" if rec["graph"]["directed"] else "undirected"}', rec
    except Exception as e:
        return False, f'route_circuit raised {type(e).__name__}: {str(e)[:200]}', f'route:raises:{type(e).__name__}', rec
    clause, detail = route_oracle(mods, r)
    if clause:
        return False, f'{describe_route(mods["cirq"], rec)}: {detail}', f'route:{clause}:{"directed" if rec["graph"]["directed"] else "undirected"}', rec
    return True, detail, None, rec


def connected_subset(rng, g, size):
    """Indices of `size` device nodes forming a connected region (edges read as undirected), grown from a random node."""
    n = len(g['nodes'])
    nb = {i: set() for i in range(n)}
    for a, b in g['edges']:
        nb[a].add(b)
        nb[b].add(a)
    chosen = [rng.randrange(n)]
    while len(chosen) < size:
        frontier = sorted({w for v in chosen for w in nb[v]} - set(chosen))
        chosen.append(rng.choice(frontier))
    return chosen


def superset_mapping(rng, g, k, partial):
    """A placement of the circuit's k logical qubits (LineQubit 100..100+k-1) and of spare register qubits the circuit never uses
    (LineQubit numbers below, between and above the used ones, so that they sort anywhere among them) on a connected region: all device nodes, or
    (partial) a connected part of the device with at least k nodes. Pairs (logical number, node index)."""
    n = len(g['nodes'])
    region = connected_subset(rng, g, rng.randint(k, n)) if partial else list(range(n))
    rng.shuffle(region)
    spare_numbers = rng.sample([90 + j for j in range(10)] + [100 + k + j for j in range(10)], len(region) - k)
    logical = [100 + j for j in range(k)] + spare_numbers
    return [(logical[j], region[j]) for j in range(len(region))]


def fixed_graphs():
    line = lambda n: dict(kind='line', nodes=[('L', i) for i in range(n)], edges=[(i, i + 1) for i in range(n - 1)], directed=False)
    ring = lambda n: dict(kind='ring', nodes=[('L', i) for i in range(n)], edges=[(i, (i + 1) % n) for i in range(n)], directed=False)
    star = dict(kind='tree', nodes=[('N', i) for i in range(4)], edges=[(0, 1), (0, 2), (0, 3)], directed=False)
    grid = dict(kind='grid', nodes=[('G', i, j) for i in range(2) for j in range(3)], edges=[(0, 1), (1, 2), (3, 4), (4, 5), (0, 3), (1, 4), (2, 5)], directed=False)
    both = dict(kind='line', nodes=[('L', i) for i in range(4)], edges=[(0, 1), (1, 0), (1, 2), (2, 1), (2, 3), (3, 2)], directed=True)
    return [line(3), line(4), line(5), ring(5), star, grid, both]


def idle_placement_grid(mods, rng):
    """Fixed on every run (the rng only draws lookahead, gate and mapper flavour): on small lines, a ring, a star, a 2x3 grid and a two-way directed
    line, two used logical qubits placed on every pair of device nodes that are NOT adjacent, every other node of a connected region holding a spare
    logical qubit the circuit never uses -- so that every inserted swap necessarily displaces an idle placement -- and a third used qubit in some cases.
    Yields (rec-fields, circuit)."""
    import networkx as nx
    cirq = mods['cirq']
    for g in fixed_graphs():
        n = len(g['nodes'])
        U = nx.Graph(g['edges'])
        dist = dict(nx.all_pairs_shortest_path_length(U))
        far = [(a, b) for a in range(n) for b in range(n) if a != b and dist[a][b] >= 2]
        for idx, (a, b) in enumerate(far):
            if a > b and idx % 3:      # both orientations for a third of the pairs
                continue
            region = list(range(n))
            if idx % 2 and n > dist[a][b] + 1:
                region = nx.shortest_path(U, a, b)      # only the path between them is placed: the rest of the device stays empty
            others = [v for v in region if v not in (a, b)]
            third = others[idx % len(others)] if idx % 4 == 3 and len(others) >= 2 else None
            spare_nodes = [v for v in others if v != third]
            numbers = [90 + t if (t + idx) % 2 else 110 + t for t in range(len(spare_nodes))]
            mapping = [(100, a), (101, b)] + ([(102, third)] if third is not None else []) + list(zip(numbers, spare_nodes))
            mapping.sort(key=lambda e: (e[1] * 7 + idx) % 11)      # dict order of the placement is not the sorted order
            qa, qb = cirq.LineQubit(100), cirq.LineQubit(101)
            two = rng.choice([cirq.CNOT, cirq.CZ, cirq.ISWAP ** 0.5, cirq.CZ ** 0.3, cirq.FSimGate(0.3, 0.7)])
            ops = [cirq.H(qa), two(qa, qb), cirq.T(qb)]
            if third is not None:
                qc = cirq.LineQubit(102)
                ops += [cirq.X(qc) ** 0.5, cirq.CNOT(qc, qa), cirq.CZ(qb, qc) ** 0.5]
            if idx % 5 == 4:
                ops.append(cirq.measure(qa, qb, key='out'))
            yield dict(graph=g, mapper='custom' if idx % 4 == 1 else 'hard', mapping=mapping, lookahead=rng.choice([1, 2, 8])), cirq.Circuit(ops)


def route_one(ctx, mods, checks, g, circuit, mp, mapping, lookahead, sample_extra):
    cirq = mods['cirq']
    n = len(g['nodes'])
    rec = dict(kind='route', graph=g, circuit_json=cirq.to_json(circuit), mapper=mp, mapping=mapping, lookahead=lookahead, circuit=str(circuit)[:1200])
    dirn = 'directed' if g['directed'] else 'undirected'
    stream = 'route:' + dirn
    before = rec['circuit_json']
    try:
        r = route_case(mods, rec)
    except Timeout:
        ctx.count(stream, [g, before, mp], True)
        ctx.violation(f'route:hang:{dirn}', f'route_circuit did not return within {rec.get("timeout", 8)} s on a connected {g["kind"]} graph: {describe_route(cirq, rec)}', rec)
        return
    except Exception as e:
        ctx.count(stream, [g, before, mp], True)
        ctx.violation(f'route:raises:{type(e).__name__}', f'route_circuit raised {type(e).__name__}: {str(e)[:200]} on a connected {g["kind"]} graph: {describe_route(cirq, rec)}', rec)
        return
    tag = cirq.RoutingSwapTag()
    swaps = [op for op in r['routed'].all_operations() if tag in op.tags and op.gate == cirq.SWAP]
    n_blocks = sum(1 for op in r['routed'].all_operations() if tag in op.tags and op.gate == cirq.CNOT) // 3
    used = {r['init'][q] for q in circuit.all_qubits() if q in r['init']}
    idle_placed = len(set(r['init'].values()) - used)
    # an inserted swap whose partner is a placed-but-unused logical qubit (tracked through the swaps of undirected runs)
    idle_displaced, holds_used = 0, set(used)
    for op in swaps:
        a, b = op.qubits
        if (a in holds_used) != (b in holds_used):
            idle_displaced += 1
            holds_used ^= {a, b}
    ctx.count(stream, [g, before, mp, lookahead, mapping], len(swaps) + n_blocks > 0,
              sample=dict(graph=g['kind'], nodes=n, directed=g['directed'], mapper=mp, ops=sum(1 for _ in circuit.all_operations()),
                          inserted_swaps=len(swaps), directed_swap_blocks=n_blocks, idle_placements=idle_placed, **sample_extra))
    if idle_placed:
        ctx.count(stream + ':idle-placement', [g, before, mp, lookahead, mapping], idle_displaced > 0)
    if cirq.to_json(circuit) != before:
        ctx.violation('route:input-modified', 'route_circuit modified its input circuit', rec)
    term, why = certificate(mods, r)
    if term is None:
        clause, detail = route_oracle(mods, r)
        ctx.violation(f'route:{clause}:{dirn}' if clause else 'route:certificate-unwritable',
                      f'{describe_route(cirq, rec)}: {detail if clause else why + " (" + detail + ")"}', rec)
        return
    checks.append((stream + ':certificate', term, 'the routing certificate (two-qubit operations on edges, un-mapped stream trace-equivalent to the input, tracked mapping = reported swap map) is rejected',
                   dict(signature=f'route:certificate:{dirn}', **rec)))
    if cirq.has_unitary(circuit) and not any(cirq.is_measurement(op) for op in circuit.all_operations()) and n <= 5:
        lhs, rhs = relation_terms(mods, r)
        checks.append((stream + ':relation', f'fcll_close_phase {TOL} {lhs} {rhs}', 'U_routed differs from P(swap_map) . U_ref (DESIGN A.6)',
                       dict(signature=f'route:relation:{dirn}', **rec)))
        ctx.count(stream + ':relation', [g, before, mp, lookahead, mapping], len(swaps) + n_blocks > 0)


def routing_stream(ctx, mods, checks, n_cases):
    cirq = mods['cirq']
    rng = ctx.rng
    for fields, circuit in idle_placement_grid(mods, rng):
        route_one(ctx, mods, checks, fields['graph'], circuit, fields['mapper'], fields['mapping'], fields['lookahead'], dict(fixed_grid=True))
    for i in range(n_cases):
        big = i % 3 == 2
        g = gen_graph(mods, rng, big=big)
        n = len(g['nodes'])
        k = rng.randint(2, n) if n >= 2 else 1
        measure = rng.random() < 0.25
        circuit, lq = gen_route_circuit(mods, rng, k, measure)
        mp = rng.choice(['hard', 'hard', 'hard_partial', 'custom', 'line', 'default'])
        if g['directed'] and mp in ('line', 'default'):
            mp = 'hard'           # the line mapper needs a strongly connected graph (nx.center); directed devices use a given placement
        mapping = None
        if mp in ('hard', 'hard_partial', 'custom'):
            # the circuit's logical qubits plus spare ones the circuit never uses, on all device nodes or on a connected part of the device
            mapping = superset_mapping(rng, g, k, partial=mp == 'hard_partial' or (mp == 'custom' and rng.random() < 0.5))
            mp = 'custom' if mp == 'custom' else 'hard'
        route_one(ctx, mods, checks, g, circuit, mp, mapping, rng.choice([1, 2, 8, 8]), dict(logical_qubits=k, measured=measure))


# ---------------------------------------------------------------- devices and the mapping manager
class QubitTable:
    def __init__(self):
        self.qs = []

    def __call__(self, q):
        if q not in self.qs:
            self.qs.append(q)
        return self.qs.index(q)


def device_gate_candidates(mods, rng):
    cirq, cg = mods['cirq'], mods['cirq_google']
    e = lambda: gates.draw_exp(rng)
    return [cirq.X, cirq.X ** 0.5, cirq.Z ** e(), cirq.H, cirq.CZ, cirq.CZ, cirq.CZ ** 0.5, cirq.CZ ** 2, cirq.CNOT, cirq.SWAP, cirq.ISWAP, cirq.SQRT_ISWAP,
            cirq.XX ** e(), cirq.ZZ ** e(), cirq.PhasedXPowGate(phase_exponent=e(), exponent=e()), cirq.PhasedXZGate(x_exponent=e(), z_exponent=e(), axis_phase_exponent=e()),
            cirq.CCZ, cirq.CCX, cirq.MeasurementGate(1, 'a'), cirq.MeasurementGate(2, 'b'), cirq.MeasurementGate(3, 'c'), cirq.I, cirq.MatrixGate(gates.random_unitary(rng, 2)),
            cirq.MatrixGate(gates.random_unitary(rng, 4)), cirq.ParallelGate(cirq.H, 2), cirq.WaitGate(cirq.Duration(nanos=5), num_qubits=2), cirq.WaitGate(cirq.Duration(nanos=5)),
            cirq.Y ** e(), cirq.CZ ** 3, cirq.CNOT ** 2, cirq.FSimGate(theta=round(rng.uniform(-3, 3), 3), phi=round(rng.uniform(-3, 3), 3)), cg.SYC, cirq.SQRT_ISWAP_INV,
            cirq.ResetChannel(), cirq.Z ** 0.5, cirq.S]


def device_op_pool(mods, rng, qubits):
    """Operations on random qubits of `qubits` (a list that also contains qubits outside the device)."""
    cirq, cg = mods['cirq'], mods['cirq_google']
    gs = device_gate_candidates(mods, rng)
    g = rng.choice(gs)
    n = cirq.num_qubits(g)
    op = g.on(*rng.sample(qubits, n))
    r = rng.random()
    if r < 0.12:
        op = op.with_tags(rng.choice(['t', cg.PhysicalZTag(), NC_TAG, cg.FSimViaModelTag()]))
    elif r < 0.17 and n <= 2:
        op = cirq.CircuitOperation(cirq.FrozenCircuit(op))
    elif r < 0.2 and not cirq.is_measurement(op):
        op = op.with_classical_controls('a')
    return op


def fixed_grid_gatesets(mods):
    """Gatesets present on every run: tag-dependent families with and without the complementary family, so that the same gate is
    acceptable with some tags and not with others."""
    cirq, cg = mods['cirq'], mods['cirq_google']
    GF = cirq.GateFamily
    pz, via, two = cg.PhysicalZTag(), cg.FSimViaModelTag(), cg.TwoPulseFSimTag()
    return [
        cirq.Gateset(cirq.CZ, cirq.PhasedXZGate, cirq.XPowGate, GF(cirq.ZPowGate, tags_to_accept=[pz]), cirq.MeasurementGate),
        cirq.Gateset(cirq.CZPowGate, cirq.PhasedXZGate, GF(cirq.ZPowGate, tags_to_ignore=[pz]), cirq.MeasurementGate, cirq.WaitGate),
        cirq.Gateset(GF(cirq.CZPowGate, tags_to_accept=['t']), GF(cirq.XPowGate, tags_to_ignore=['t']), GF(cirq.ZPowGate, tags_to_accept=[pz]),
                     GF(cirq.ZPowGate, tags_to_ignore=[pz]), GF(cirq.FSimGate, tags_to_accept=[via, two]), cirq.MeasurementGate),
        cirq.Gateset(GF(cirq.SQRT_ISWAP, tags_to_accept=['t']), GF(cirq.CZ, tags_to_ignore=['t', NC_TAG]), GF(cirq.FSimGate, tags_to_accept=[via]),
                     GF(cirq.HPowGate, tags_to_accept=[NC_TAG]), cirq.PhasedXPowGate, unroll_circuit_op=False),
    ]


PROTO_GATES = ['syc', 'sqrt_iswap', 'sqrt_iswap_inv', 'cz', 'cz_pow_gate', 'phased_xz', 'virtual_zpow', 'physical_zpow', 'meas', 'wait', 'fsim_via_model',
               'two_pulse_fsim', 'reset']


def proto_gate_lists(rng):
    """valid_gates lists of DeviceSpecification protos: fixed ones with a tag-dependent family but not its complement, and drawn ones."""
    return [['cz_pow_gate', 'phased_xz', 'physical_zpow', 'fsim_via_model', 'meas'],
            ['cz_pow_gate', 'phased_xz', 'virtual_zpow', 'two_pulse_fsim', 'meas', 'wait', 'reset'],
            ['syc', 'sqrt_iswap', 'cz', 'phased_xz', 'physical_zpow', 'fsim_via_model', 'two_pulse_fsim', 'meas'],
            sorted(rng.sample(PROTO_GATES, rng.randint(3, 8))), sorted(rng.sample(PROTO_GATES, rng.randint(3, 8)))]


SYM, SUBSET = 'SYMMETRIC', 'SUBSET_PERMUTATION'
CONVENTIONAL = '2_qubit_targets'
SPEC_LAYOUTS = ['conventional', 'renamed', 'unnamed', 'split_keep_name', 'split_other_names', 'same_name_twice', 'empty_conventional', 'reversed_ids',
                'duplicated', 'decoys', 'measurement_first']
OTHER_NAMES = ['grid_couplings', 'couplings', 'two_qubit_targets', 'cz_targets', 'sym_pairs', '2_qubit_targets_b']


def spec_target_sets(rng, layout, qubits, pairs):
    """valid_targets of a DeviceSpecification as a list of (name, ordering, [tuples of qubits]).  device.proto defines the couplings by
    the ORDERING of a target set ("Two-qubit gates can be applied to all two-element targets in a TargetSet of this type", SYMMETRIC),
    not by its name, so the same couplings are written under the conventional name, under another or no name, distributed over
    several symmetric sets, with the ids of a pair in either order, listed twice, and next to target sets that are no couplings:
    measurement groups (SUBSET_PERMUTATION, some with two qubits) and symmetric targets of one or three qubits."""
    pairs = [tuple(p) for p in pairs]
    rows = sorted({q.row for q in qubits})
    meas = ('meas_targets', SUBSET, [tuple(q for q in qubits if q.row == r) for r in rows])
    a, b = [p for p in pairs if p[0].row == p[1].row], [p for p in pairs if p[0].row != p[1].row]
    if not a or not b:
        k = (len(pairs) + 1) // 2
        a, b = pairs[:k], pairs[k:]
    other = lambda: rng.choice(OTHER_NAMES)
    if layout == 'conventional':
        return [(CONVENTIONAL, SYM, pairs), meas]
    if layout == 'renamed':
        return [(other(), SYM, pairs), meas]
    if layout == 'unnamed':
        return [('', SYM, pairs)]
    if layout == 'split_keep_name':
        return [(CONVENTIONAL, SYM, a), meas, ('vertical_couplings', SYM, b)]
    if layout == 'split_other_names':
        return [('row_couplings', SYM, a), ('column_couplings', SYM, b), meas]
    if layout == 'same_name_twice':
        return [(CONVENTIONAL, SYM, a), (CONVENTIONAL, SYM, b)]
    if layout == 'empty_conventional':
        return [(CONVENTIONAL, SYM, []), ('active_couplings', SYM, pairs), meas]
    if layout == 'reversed_ids':
        return [(rng.choice([CONVENTIONAL, other()]), SYM, [p[::-1] if i % 3 != 2 else p for i, p in enumerate(pairs)]), meas]
    if layout == 'duplicated':
        return [(CONVENTIONAL, SYM, pairs + [p[::-1] for p in pairs[:2]]), (other(), SYM, [p[::-1] for p in b] + a[:1])]
    if layout == 'decoys':
        # groups of two qubits that share a measurement line but no coupler, single-qubit targets, three-qubit targets
        listed = {frozenset(p) for p in pairs}
        non = [(x, y) for x in qubits for y in qubits if x < y and frozenset((x, y)) not in listed]
        groups = rng.sample(non, min(2, len(non))) + [tuple(qubits[:1])]
        sets = [('meas_targets', SUBSET, groups), ('1_qubit_targets', SYM, [(q,) for q in qubits])]
        if len(qubits) >= 3:
            sets.append(('3_qubit_targets', SYM, [tuple(rng.sample(qubits, 3))]))
        sets.insert(rng.randrange(len(sets) + 1), (rng.choice([CONVENTIONAL, other()]), SYM, pairs))
        return sets
    if layout == 'measurement_first':
        return [meas, ('1_qubit_targets', SYM, [(q,) for q in qubits]), (other(), SYM, a), (CONVENTIONAL, SYM, b)]
    raise KeyError(layout)


def spec_couplings(target_sets):
    """The couplings a specification lists, by device.proto: the two-element targets of its SYMMETRIC target sets."""
    return {frozenset(t) for _, ordering, targets in target_sets if ordering == SYM for t in targets if len(t) == 2}


def show_spec(qubits, target_sets, gate_names):
    sq = lambda q: f'({q.row},{q.col})'
    sets = '; '.join(f'{name!r}/{ordering}: [{", ".join("-".join(sq(q) for q in t) for t in targets)}]' for name, ordering, targets in target_sets)
    return f'DeviceSpecification(valid_qubits=[{", ".join(sq(q) for q in qubits)}], valid_targets=[{sets}], valid_gates={list(gate_names)})'


def build_spec(mods, qubits, target_sets, gate_names, raw_qubits=None):
    from cirq_google.api import v2
    spec = v2.device_pb2.DeviceSpecification()
    spec.valid_qubits.extend(raw_qubits if raw_qubits is not None else [v2.qubit_to_proto_id(q) for q in qubits])
    for name, ordering, tlist in target_sets:
        targets = spec.valid_targets.add()
        targets.name = name
        targets.target_ordering = getattr(v2.device_pb2.TargetSet, ordering)
        for target in tlist:
            t = targets.targets.add()
            t.ids.extend(v2.qubit_to_proto_id(q) for q in target)
    for name in gate_names:
        gate = spec.valid_gates.add()
        getattr(gate, name).SetInParent()
        gate.gate_duration_picos = 1000
    return spec


def proto_device(mods, qubits, pairs, gate_names, target_sets=None):
    """GridDevice.from_proto of a DeviceSpecification with the given qubits, target sets (default: the couplings `pairs` as one
    symmetric set under the conventional name) and valid gates."""
    if target_sets is None:
        target_sets = [(CONVENTIONAL, SYM, [tuple(p) for p in pairs])]
    return mods['cirq_google'].GridDevice.from_proto(build_spec(mods, qubits, target_sets, gate_names))


def metadata_problem(device, qubit_set, pairset, target_sets=None):
    """The qubits / couplings the device reports against the ones it was built from (None when they agree)."""
    md = device.metadata
    sq = lambda q: f'({q.row},{q.col})'
    sp = lambda ps: '[' + ', '.join('-'.join(sq(q) for q in sorted(p)) for p in sorted(ps, key=sorted)) + ']'
    if set(md.qubit_set) != set(qubit_set):
        return 'metadata-qubits', f'metadata.qubit_set = [{", ".join(sq(q) for q in sorted(md.qubit_set))}] although the valid qubits are [{", ".join(sq(q) for q in sorted(qubit_set))}]'
    got = {frozenset(p) for p in md.qubit_pairs}
    if got != pairset:
        where = sorted({repr(n) for n, o, ts in target_sets or () if o == SYM and any(frozenset(t) in pairset - got for t in ts)})
        return 'metadata-pairs', ((f'couplings {sp(pairset - got)} are missing from metadata.qubit_pairs' + (f' although the SYMMETRIC target set(s) {", ".join(where)} list them' if where else '')
                                   if pairset - got else f'metadata.qubit_pairs has the couplings {sp(got - pairset)} that were never listed')
                                  + f'; reported {sp(got)}, expected {sp(pairset)}')
    edges = {frozenset(e) for e in md.nx_graph.edges}
    if edges != pairset:
        return 'metadata-graph', f'metadata.nx_graph has the edges {sp(edges)} although the couplings are {sp(pairset)}'
    return None


def device_circuits(mods, rng, kind, gateset, qubit_set, pairset, cand, seen_ops, big, cops=()):
    """Operation lists for validate_circuit.  For every family of the gateset: a gate the family takes, placed on the device, in
    every tag variant the gateset talks about (plus none and an unrelated tag) and on other qubits; all ordered pairs of the
    variants (the same gate acceptable in one form and not in another, in both orders), some with a third operation in front.
    Then sequences of the operations already judged one by one (accepted and rejected mixed)."""
    cirq = mods['cirq']
    out = []
    fams = sorted(gateset.gates, key=repr)
    universe = []
    for f in fams:
        for t in sorted(f.tags_to_accept, key=repr) + sorted(f.tags_to_ignore, key=repr):
            if not any(type(t) is type(u) and t == u for u in universe):
                universe.append(t)
    universe = universe[:4] + ['c07_unrelated']
    on_dev = sorted(qubit_set)
    cands = device_gate_candidates(mods, rng)
    bases = []
    for f in fams if big else rng.sample(fams, min(3, len(fams))):
        for g in rng.sample(cands, len(cands)):
            n = cirq.num_qubits(g)
            if n > len(on_dev):
                continue
            qs = list(rng.choice(sorted(map(sorted, pairset)))) if n == 2 and pairset and rng.random() < 0.8 else rng.sample(on_dev, n)
            probe = g.on(*qs)
            try:
                ok = probe.with_tags(*f.tags_to_accept) in f if f.tags_to_accept else probe in f
            except Exception:
                ok = False
            if ok and not any(b.gate == g for b in bases):
                bases.append(probe)
                break
    for base in bases:
        g = base.gate
        n = cirq.num_qubits(g)
        variants = [base] + [base.with_tags(t) for t in universe]
        if len(universe) >= 3:
            variants.append(base.with_tags(*rng.sample(universe, 2)))
        if len(cand) >= n:
            variants.append(g.on(*rng.sample(cand, n)))
        for v1, v2 in itertools.permutations(variants, 2):
            if rng.random() < 0.15 and seen_ops:
                out.append([rng.choice(seen_ops), v1, v2])
            else:
                out.append([v1, v2])
    # CircuitOperations (parameter resolver, repetitions, qubit map, nesting): alone, behind an operation judged on its own, two of them
    plain = [o for o in seen_ops if o.gate is not None]
    for i, cop in enumerate(cops if big else rng.sample(list(cops), min(12, len(cops)))):
        r = i % 3
        out.append([cop] if r == 0 or not plain else ([rng.choice(plain), cop] if r == 1 else [cop, rng.choice(list(cops)), rng.choice(plain)]))
    for _ in range(24 if big else 12):
        if seen_ops:
            seq = [rng.choice(seen_ops) for _ in range(rng.randint(2, 5))]
            if rng.random() < 0.5:
                # an operation already in the sequence once more with other tags / on other qubits
                o = rng.choice(seq)
                if o.gate is not None:
                    n = cirq.num_qubits(o.gate)
                    o2 = o.untagged.with_tags(rng.choice(universe)) if rng.random() < 0.6 or len(cand) < n else o.gate.on(*rng.sample(cand, n))
                    seq.insert(rng.randrange(len(seq) + 1), o2)
            out.append(seq)
    return out


def device_circuit_ops(mods, rng, qubit_set, pairset, cand, count=None):
    """CircuitOperations for a device: the grid of parameter-resolved bodies (circuit_op_grid) placed on a device pair and a
    further device qubit; the qubit-map form writes the body on qubits outside the device and maps it onto the device.  Variants:
    mapped off the device, onto a pair that is not allowed, reversed pair.  count: a sample of that size that always contains the
    plain resolver form at the canonical value of every body."""
    cirq = mods['cirq']
    on = sorted(qubit_set)
    pairs = sorted(sorted(p) for p in pairset)
    pair = list(rng.choice(pairs)) if pairs else on[:2]
    if rng.random() < 0.5:
        pair = pair[::-1]
    rest = [x for x in on if x not in pair]
    qubits = pair + rest[:1]
    off = [c for c in cand if c not in qubit_set]
    spare = (off + rest[1:] + on)[:3]
    grid = circuit_op_grid(mods, rng, qubits, spare)
    if count is not None:
        must = [g for g in grid if g[0] == 'resolver' and g[1] == 0]
        grid = must + rng.sample([g for g in grid if g not in must], max(0, count - len(must)))
    out = []
    non_pairs = [(a, b) for a in on for b in on if a < b and frozenset((a, b)) not in pairset]
    for i, (form, vi, cop) in enumerate(grid):
        out.append(cop)
        r = (i + rng.randrange(3)) % 9
        u = cop.untagged
        if r == 0 and off:
            out.append(u.with_qubit_mapping({pair[0]: off[0]}))                      # mapped off the device
        elif r == 1 and non_pairs and len(u.qubits) == 2:
            out.append(u.with_qubit_mapping(dict(zip(pair, rng.choice(non_pairs)))))      # mapped onto a pair that is not allowed
        elif r == 2 and len(u.qubits) == 2:
            out.append(u.with_qubit_mapping({pair[0]: pair[1], pair[1]: pair[0]}))
    return out


def qubit_coords(q):
    """Position of a LineQubit / GridQubit / TwoDQubit / ThreeDQubit."""
    if hasattr(q, 'row'):
        return (float(q.row), float(q.col))
    return tuple(float(getattr(q, a)) for a in ('x', 'y', 'z') if hasattr(q, a))


def far_qubit(q):
    """A qubit of the type of q at position 9 on every axis."""
    for k in (1, 2, 3):
        try:
            return type(q)(*([9] * k))
        except TypeError:
            pass
    raise TypeError(type(q))


def fixed_pasqal_layouts(mods):
    """(qubits, control radius) of virtual Pasqal devices built on every run: a line, a 2d array, a 3d array and a grid, each wider than the radius."""
    cirq, cp = mods['cirq'], mods['cirq_pasqal']
    return [(cirq.LineQubit.range(5), 1.5), ([cp.TwoDQubit(x, y) for x in range(3) for y in range(2)], 1.0),
            ([cp.ThreeDQubit(x, y, z) for x in range(2) for y in range(2) for z in range(2)], 1.5), ([cirq.GridQubit(r, c) for r in range(2) for c in range(3)], 2.0),
            ([cp.TwoDQubit(0, 0), cp.TwoDQubit(0, 1.5), cp.TwoDQubit(2.5, 0), cp.TwoDQubit(4, 4)], 3.0)]


def multi_qubit_grid(mods, rng, on, pairset, off, big):
    """Operations on two and more qubits for a device with qubits `on` and allowed pairs `pairset`: single-qubit gates applied in parallel (ParallelGate over
    X / Y / Z / PhasedX powers, H, a non-Clifford H power), identities on several qubits, a global layer on all device qubits, CZ powers (integer and not),
    CNOT, CCZ, CCX, XX, joint measurements; each on a tuple whose qubits are pairwise allowed (when the device has one), on a tuple with a pair that is not
    (the first and a drawn one), in reversed order, and with one qubit outside the device."""
    cirq = mods['cirq']
    e = lambda: gates.draw_exp(rng)
    singles = [cirq.X, cirq.H, cirq.Z ** 0.25, cirq.Y ** e(), cirq.PhasedXPowGate(phase_exponent=e(), exponent=e()), cirq.H ** 0.5]
    if not big:
        singles = [cirq.X, rng.choice(singles[1:])]
    glist = [cirq.ParallelGate(g, n) for g in singles for n in (2, 3)] + [cirq.IdentityGate(2), cirq.IdentityGate(3)]
    glist += [cirq.CZ, cirq.CZ ** -1, cirq.CZ ** 2, cirq.CZ ** 3, cirq.CZ ** 0.5, cirq.CNOT, cirq.XX ** 0.5, cirq.CCZ, cirq.CCX, cirq.MeasurementGate(2, 'g2'), cirq.MeasurementGate(3, 'g3')]
    if len(on) >= 4:
        m = min(len(on), 8)   # a layer on all qubits of the device (at most 8: the matrices are written out)
        glist += [cirq.ParallelGate(cirq.H, m), cirq.ParallelGate(cirq.X ** 0.5, m - 1), cirq.IdentityGate(m)]
    out = []
    for g in glist:
        n = cirq.num_qubits(g)
        if n > len(on):
            continue
        tuples = list(itertools.islice(itertools.combinations(on, n), 400))
        near = [t for t in tuples if all(frozenset(p) in pairset for p in itertools.combinations(t, 2))]
        far = [t for t in tuples if t not in near]
        chosen = ([near[0]] if near else []) + ([far[-1], rng.choice(far)[::-1]] if far else [])
        if not chosen:
            chosen = [tuples[0]]
        if off:
            t = list(rng.choice(tuples))
            t[rng.randrange(n)] = off[0]
            chosen.append(tuple(t))
        out += [g.on(*t) for t in dict.fromkeys(chosen)]
    return out


def spec_accepts(cirq, kind, op, gateset, qubit_set, pairs, variadic, cgs=None):
    """The property's statement, evaluated on the real objects: in the gateset, on the device's qubits, on allowed pairs."""
    if kind in ('aqt', 'pasqal', 'pasqal_virtual') and not isinstance(op, cirq.GateOperation):
        return False, 'not a gate operation'
    if kind == 'ionq' and op.gate is None:
        return False, 'no gate'
    if op.gate is None:
        # a (tagged) CircuitOperation is read as the operations it stands for: its mapped circuit (qubit map, parameter resolver,
        # repetitions / inversion applied) must consist of operations of the gateset, and the gateset must unroll circuit operations
        in_gs, _ = reference_accepts(cirq, gateset, op, False)
    else:
        in_gs = (op.gate in gateset) if kind == 'aqt' else (op in gateset)
    if not in_gs:
        return False, 'not in gateset'
    if any(q not in qubit_set for q in op.qubits):
        return False, 'qubit not on device'
    if kind == 'grid' and len(op.qubits) == 2 and not isinstance(op.gate, variadic) and frozenset(op.qubits) not in pairs:
        return False, 'pair not allowed'
    if kind == 'pasqal_virtual' and op in cgs and any(a != b and frozenset((a, b)) not in pairs for a in op.qubits for b in op.qubits):
        return False, 'pair not allowed'
    return True, 'accepted'


def device_stream(ctx, mods, n_specs, ops_per_spec):
    cirq, cg, ci, ca, cp = mods['cirq'], mods['cirq_google'], mods['cirq_ionq'], mods['cirq_aqt'], mods['cirq_pasqal']
    rng = ctx.rng
    GF = cirq.GateFamily
    pool = [cirq.CZ, cirq.CZPowGate, cirq.XPowGate, cirq.ZPowGate, cirq.PhasedXZGate, cirq.MeasurementGate, cirq.SQRT_ISWAP, GF(cirq.ZPowGate, tags_to_accept=[cg.PhysicalZTag()]),
            cirq.ISWAP, cirq.WaitGate, cirq.IdentityGate, cirq.AnyIntegerPowerGateFamily(cirq.CZPowGate), cirq.SWAP, cirq.CCZPowGate, cirq.PhasedXPowGate, cirq.CNOT, cirq.MatrixGate]
    shards = []
    fixed = fixed_grid_gatesets(mods)
    protos = proto_gate_lists(rng)
    specs = [(['grid', 'grid', 'grid', 'aqt', 'pasqal', 'pasqal_virtual', 'ionq'][si % 7], None) for si in range(n_specs)]
    # the DeviceSpecification protos are written in different shapes of valid_targets (three fixed, the others drawn)
    layouts = ['split_keep_name', 'decoys', 'conventional'] + [rng.choice(SPEC_LAYOUTS) for _ in protos[3:]]
    specs += [('grid', ('gateset', g)) for g in fixed] + [('grid', ('proto', names, lay)) for names, lay in zip(protos, layouts)] + [('grid', ('named', 'Sycamore'))]
    # virtual Pasqal devices present on every run: every supported qubit type, layouts larger than the control radius
    specs += [('pasqal_virtual', ('fixed', qs, r)) for qs, r in fixed_pasqal_layouts(mods)]
    for kind, variant in specs:
        qt = QubitTable()
        cgs = None
        model = True
        target_sets = None
        if kind == 'grid':
            allq = [cirq.GridQubit(r, c) for r in range(2) for c in range(3)]
            dq = sorted(rng.sample(allq, rng.randint(3, 6)))
            adj = [(a, b) for a in dq for b in dq if a < b and a.is_adjacent(b)]
            pairs = [p for p in adj if rng.random() < 0.7]
            if variant is not None and not pairs and adj:
                pairs = [rng.choice(adj)]
            try:
                if variant is not None and variant[0] == 'named':
                    # a real device object of the vendor package; operations are drawn on a corner of it and on qubits outside it
                    device = getattr(cg, variant[1])
                    corner = sorted(device.metadata.qubit_set)[:7]
                    allq = corner + [cirq.GridQubit(20, 20), cirq.GridQubit(21, 20)]
                elif variant is None:
                    gateset = cirq.Gateset(*rng.sample(pool, rng.randint(3, 9)), unroll_circuit_op=rng.random() < 0.7)
                    device = cg.GridDevice(cirq.GridDeviceMetadata(qubit_pairs=pairs, gateset=gateset, all_qubits=dq))
                elif variant[0] == 'gateset':
                    device = cg.GridDevice(cirq.GridDeviceMetadata(qubit_pairs=pairs, gateset=variant[1], all_qubits=dq))
                else:
                    target_sets = spec_target_sets(rng, variant[2], dq, pairs)
                    device = proto_device(mods, dq, pairs, variant[1], target_sets)
            except Exception as e:
                ctx.mark_broken('harness:grid-device', f'{type(e).__name__}: {e}')
                continue
            cand = allq + [cirq.GridQubit(5, 5), cirq.LineQubit(0)]
            rule = 'PairsTwoQubit'
            if variant is not None and variant[0] == 'named':
                pairset = {frozenset(p) for p in device.metadata.qubit_pairs}
                qubit_set = set(device.metadata.qubit_set)
            else:
                # judged against what the device was built from (the specification's symmetric target sets / the constructor's
                # arguments), not against what the device reports about itself
                pairset = spec_couplings(target_sets) if target_sets is not None else {frozenset(p) for p in pairs}
                qubit_set = set(dq)
                prob = metadata_problem(device, qubit_set, pairset, target_sets)
                ctx.count('device:grid:metadata', [repr(dq), repr(target_sets if target_sets is not None else pairs)], bool(pairset))
                if prob is not None:
                    built = (f'GridDevice.from_proto({show_spec(dq, target_sets, variant[1])})' if target_sets is not None else
                             f'GridDevice(GridDeviceMetadata(qubit_pairs={pairs}, all_qubits={dq}, gateset=...))')
                    ctx.violation(f'device:grid:{"spec:" if target_sets is not None else ""}{prob[0]}', f'{prob[1]}; device = {built}'[:1100],
                                  dict(kind='device_spec', qubits=repr(dq), target_sets=repr(target_sets), gate_names=list(variant[1])) if target_sets is not None else
                                  dict(kind='device_metadata', qubits=repr(dq), pairs=repr(pairs)))
            gs_obj = device.metadata.gateset
            gate_only = False
        elif kind == 'aqt':
            dq = cirq.LineQubit.range(rng.randint(2, 4))
            device = ca.aqt_device.AQTDevice(cirq.Duration(micros=1), cirq.Duration(micros=1), cirq.Duration(micros=1), dq)
            cand = cirq.LineQubit.range(6) + [cirq.NamedQubit('x')]
            rule, pairset, qubit_set, gs_obj, gate_only = 'PairsNone', set(), set(dq), device.metadata.gateset, True
        elif kind == 'pasqal':
            dq = [cirq.NamedQubit(f'a{i}') for i in range(rng.randint(2, 4))]
            device = cp.PasqalDevice(dq)
            cand = dq + [cirq.NamedQubit('zz'), cirq.NamedQubit('yy'), cirq.LineQubit(0)]
            rule, pairset, qubit_set, gs_obj, gate_only = 'PairsNone', set(), set(dq), device.gateset, True
        elif kind == 'pasqal_virtual':
            if variant is not None:
                dq, radius = list(variant[1]), variant[2]
                allq = dq
                cand = dq + [far_qubit(dq[0])]
            else:
                allq = [cirq.GridQubit(r, c) for r in range(2) for c in range(3)]
                dq = sorted(rng.sample(allq, rng.randint(3, 6)))
                radius = rng.choice([1.0, 1.5, 2.0, 2.3])
                cand = allq + [cirq.GridQubit(4, 4)]
            device = cp.PasqalVirtualDevice(radius, dq)
            pairset = {frozenset((a, b)) for a in dq for b in dq if a != b and math.dist(qubit_coords(a), qubit_coords(b)) <= radius}
            # "control_radius: the maximum distance between qubits for a controlled gate"; the controlled gates of the virtual device are the
            # integer powers of CZ (stated here, not read from the device under test)
            cgs = cirq.Gateset(cirq.AnyIntegerPowerGateFamily(cirq.CZPowGate))
            rule, qubit_set, gs_obj, gate_only = 'PairsIn', set(dq), device.gateset, True
        else:
            nq = rng.randint(2, 4)
            device = ci.IonQAPIDevice(nq)
            dq = cirq.LineQubit.range(nq)
            cand = cirq.LineQubit.range(6)
            rule, pairset, qubit_set, gs_obj, gate_only = 'PairsNone', set(), set(dq), device.gateset, False
        d = Describer(cirq)
        try:
            gterm = d.gateset(gs_obj)
            rterm = f'(PairsIn {d.gateset(cgs)})' if rule == 'PairsIn' else rule
        except Unmodelled as e:
            if variant is not None and variant[0] in ('proto', 'named'):
                # a device specification naming gates whose families (FSimGateFamily) the membership model does not describe: the
                # statement is still decided on the real objects below, only the recomputation inside Coq is left out
                model, gterm, rterm = False, 'None', rule
                ctx.cov['device_specs_judged_without_model'] = ctx.cov.get('device_specs_judged_without_model', 0) + 1
            else:
                ctx.mark_broken('model:gateset-family', f'device {kind}: {e}')
                continue
        dterm = (f'(mkDev {gterm} {gates.nlist([qt(q) for q in qubit_set and sorted(qubit_set)])} '
                 f'[{"; ".join(f"({qt(a)}, {qt(b)})%nat" for a, b in (tuple(sorted(p)) for p in sorted(pairset, key=lambda p: sorted(p))))}] {rterm} {"true" if gate_only else "false"})')
        rows, meta = [], []
        acc_ops, seen_ops = [], []
        dev_rec = dict(kind='device', device=kind, qubits=repr(sorted(qubit_set)), pairs=repr(sorted(map(sorted, pairset))), gateset=repr(gs_obj),
                       unroll=bool(gs_obj._unroll_circuit_op), proto_gates=list(variant[1]) if variant is not None and variant[0] == 'proto' else None,
                       target_sets=repr(target_sets) if target_sets is not None else None,
                       named=variant[1] if variant is not None and variant[0] == 'named' else None)
        dop_of = lambda op: (f'(mkDop {(f"(OGate {d.gate(op.gate)} [])" if kind == "aqt" and op.gate is not None else d.op(op))} '
                             f'{gates.nlist([qt(q) for q in op.qubits])} {"true" if isinstance(op, cirq.GateOperation) else "false"})')
        if kind == 'grid':
            # CircuitOperations with parameter resolvers / repetitions / qubit maps / nesting on the device (whole grid for the fixed specs)
            cops = device_circuit_ops(mods, rng, qubit_set, pairset, cand, count=None if variant is not None else 30)
        else:
            cops = device_circuit_ops(mods, rng, qubit_set, pairset, cand, count=0)[:6]
        cop_ids = {id(c) for c in cops}
        # operations on several qubits, with and without interaction, on qubits that are / are not allowed pairs (all kinds of device)
        grid_ops = multi_qubit_grid(mods, rng, sorted(qubit_set), pairset, [c for c in cand if c not in qubit_set], big=variant is not None or kind != 'grid')
        grid_ids = {id(o) for o in grid_ops}
        for op in [None] * ops_per_spec + cops + grid_ops:
            if op is None:
                op = device_op_pool(mods, rng, cand)
            is_cop = id(op) in cop_ids
            if kind in ('pasqal', 'pasqal_virtual') and isinstance(op.gate, cirq.MeasurementGate) and op.gate.invert_mask != ():
                continue
            try:
                device.validate_operation(op)
                got = True
            except ValueError:
                got = False
            except Exception as e:
                got = type(e).__name__
            want, why = spec_accepts(cirq, kind, op, gs_obj, qubit_set, pairset, (cirq.MeasurementGate, cirq.WaitGate), cgs)
            ctx.count(f'device:{kind}' + (':circuit-op' if is_cop else ':multi-qubit' if id(op) in grid_ids else ''), [kind, repr(sorted(qubit_set)), repr(sorted(map(sorted, pairset))), repr(gs_obj)[:400],
                                                                          show_op(cirq, op) if is_cop else repr(op)[:300]], True,
                      sample=dict(device=kind, op=show_op(cirq, op)[:160] if is_cop else repr(op)[:100], accepted=got, spec=why) if rng.random() < 0.03 else None)
            if is_cop:
                ctx.cov['device_circuit_ops_accepted'] = ctx.cov.get('device_circuit_ops_accepted', 0) + (1 if want else 0)
            if got is not want:
                clause = why.replace(' ', '-')
                gate_less = op.gate is None and isinstance(op.untagged, cirq.CircuitOperation)
                leaves = stands_for(cirq, op) if gate_less else [op]
                if isinstance(got, str) and not want and any(cirq.is_parameterized(o) for o in leaves):
                    sig = SYMBOLIC_RAISES
                else:
                    sig = f'device:{kind}:{"circuit-op:" if gate_less else ""}{"accepts" if got is True else "rejects"}:{clause}'
                shown = (f'{show_op(cirq, op)}, which stands for [{", ".join(show_op(cirq, o) for o in leaves[:4])}{", ..." if len(leaves) > 4 else ""}] on qubits {show_qs(op.qubits)}'
                         if gate_less else repr(op)[:160])
                ctx.violation(sig, (f'{variant[1] if variant is not None and variant[0] == "named" else kind} device validate_operation({shown}) '
                                    f'{"accepts" if got is True else "rejects (" + str(got) + ")"} although the operation is: {why}'
                                    + (f' (device qubits {sorted(qubit_set)}, control radius {radius}; the radius constrains controlled gates = integer powers of CZ only; '
                                       f'qubit distances {[round(math.dist(qubit_coords(a), qubit_coords(b)), 3) for a, b in itertools.combinations(op.qubits, 2) if a in qubit_set and b in qubit_set]})'
                                       if kind == 'pasqal_virtual' else '')
                                    + (' (every operation of its mapped circuit is in the gateset; the device qubits and pairs are respected)' if gate_less and want else ''))[:700]
                                   + (f'; device = GridDevice.from_proto({show_spec(dq, target_sets, variant[1])})' if target_sets is not None else '')[:600],
                              dict(dev_rec, radius=radius if kind == 'pasqal_virtual' else None, op=repr(op)))
            seen_ops.append(op)
            if not model:
                continue
            dop = dop_of(op)
            # the model follows the property's statement; for the IonQ device the recorded finding is the only allowed difference
            rows.append(f'Bool.eqb (device_accepts DEV {dop}) {"true" if want else "false"}')
            meta.append((kind, op, f'device answers {got}, statement says {why}'))
            if got is True:
                acc_ops.append((op, dop))
        if kind in ('grid', 'ionq'):
            # whole circuits: accepted exactly when every operation on its own is (whatever came before it in the circuit)
            for ops_c in device_circuits(mods, rng, kind, gs_obj, qubit_set, pairset, cand, seen_ops, big=variant is not None, cops=cops):
                wants = [spec_accepts(cirq, kind, o, gs_obj, qubit_set, pairset, (cirq.MeasurementGate, cirq.WaitGate), cgs) for o in ops_c]
                want = all(w for w, _ in wants)
                circ = cirq.Circuit()
                for o in ops_c:
                    circ.append(o, strategy=cirq.InsertStrategy.NEW if rng.random() < 0.5 else cirq.InsertStrategy.EARLIEST)
                ordered = list(circ.all_operations())
                try:
                    device.validate_circuit(circ)
                    got = True
                except ValueError:
                    got = False
                except Exception as e:
                    got = type(e).__name__
                ctx.count(f'device:{kind}:circuit', [kind, repr(sorted(qubit_set)), repr(sorted(map(sorted, pairset))), repr(gs_obj)[:400], repr(ordered)[:600]], len(ordered) >= 2,
                          sample=dict(device=kind, ops=[repr(o)[:80] for o in ordered], accepted=got, spec=want) if rng.random() < 0.005 else None)
                if got is not want:
                    culprit = next((f'{show_op(cirq, o) if o.gate is None else repr(o)} is: {why}' for o, (w, why) in zip(ops_c, wants) if not w), 'every operation is acceptable on its own')
                    clause = next((why for w, why in wants if not w), 'all-acceptable').replace(' ', '-')
                    has_cop = any(o.gate is None and isinstance(o.untagged, cirq.CircuitOperation) for o in ordered)
                    sym = any(cirq.is_parameterized(x) for o in ordered for x in (stands_for(cirq, o) if o.gate is None and isinstance(o.untagged, cirq.CircuitOperation) else [o]))
                    ctx.violation(SYMBOLIC_RAISES if isinstance(got, str) and not want and sym else
                                  f'device:{kind}:circuit:{"circuit-op:" if has_cop else ""}{"accepts" if got is True else "rejects"}:{clause}',
                                  (f'{kind} device validate_circuit {"accepts" if got is True else "rejects (" + str(got) + ")"} the circuit '
                                   f'{[show_op(cirq, o) if has_cop else repr(o)[:120] for o in ordered]} although {culprit}'
                                   + (' (a CircuitOperation stands for its mapped circuit: parameter resolver, repetitions / inversion, qubit map applied)' if has_cop and want else ''))[:700]
                                  + (f'; device = GridDevice.from_proto({show_spec(dq, target_sets, variant[1])})' if target_sets is not None else '')[:600],
                                  dict(dev_rec, ops=[repr(o) for o in ordered], moments=repr(circ)))
                if model and len(rows) < 240:
                    rows.append(f'Bool.eqb (device_accepts_circuit DEV [{"; ".join(dop_of(o) for o in ordered)}]) {"true" if want else "false"}')
                    meta.append((kind, ordered, f'validate_circuit -> {got}, statement says {want}'))
        if kind in ('pasqal', 'pasqal_virtual'):
            # whole circuits that meet the device's own extra requirements (one operation per moment, measurements only at the end):
            # accepted exactly when every operation on its own is
            plain = [o for o in seen_ops if not cirq.is_measurement(o)]
            meas = [o for o in seen_ops if cirq.is_measurement(o)]
            good = [o for o in plain if spec_accepts(cirq, kind, o, gs_obj, qubit_set, pairset, (), cgs)[0]]
            seqs = [[o] for o in grid_ops if not cirq.is_measurement(o)]
            for _ in range(16 if plain else 0):
                seq = [rng.choice(good) for _ in range(rng.randint(2, 5))] if good and rng.random() < 0.6 else [rng.choice(plain) for _ in range(rng.randint(2, 4))]
                seqs.append(seq + ([rng.choice(meas)] if meas and rng.random() < 0.4 else []))
            multi = [o for o in good if len(o.qubits) >= 2]
            if multi:
                seqs.append(multi)
            for ops_c in seqs:
                wants = [spec_accepts(cirq, kind, o, gs_obj, qubit_set, pairset, (), cgs) for o in ops_c]
                want = all(w for w, _ in wants)
                circ = cirq.Circuit(ops_c, strategy=cirq.InsertStrategy.NEW)
                got = device_answer(lambda: device.validate_circuit(circ))
                ctx.count(f'device:{kind}:circuit', [kind, repr(sorted(qubit_set)), repr(radius if kind == 'pasqal_virtual' else None), repr(ops_c)[:600]], len(ops_c) >= 2)
                if got is not want:
                    culprit = next((f'{o!r} is: {why}' for o, (w, why) in zip(ops_c, wants) if not w), 'every operation is acceptable on its own (in the gateset, on device qubits, controlled gates within the control radius)')
                    clause = next((why for w, why in wants if not w), 'all-acceptable').replace(' ', '-')
                    ctx.violation(f'device:{kind}:circuit:{"accepts" if got is True else "rejects"}:{clause}',
                                  (f'{kind} device (qubits {sorted(qubit_set)}' + (f', control radius {radius}' if kind == 'pasqal_virtual' else '') + f') validate_circuit '
                                   f'{"accepts" if got is True else "rejects (" + str(got) + ")"} the circuit {[repr(o)[:120] for o in ops_c]} (one operation per moment) although {culprit}')[:900],
                                  dict(dev_rec, radius=radius if kind == 'pasqal_virtual' else None, ops=[repr(o) for o in ops_c], moments=repr(circ)))
                if model and len(rows) < 240:
                    rows.append(f'Bool.eqb (device_accepts_circuit DEV [{"; ".join(dop_of(o) for o in ops_c)}]) {"true" if want else "false"}')
                    meta.append((kind, ops_c, f'validate_circuit -> {got}, statement says {want}'))
        if not model:
            continue
        if kind == 'grid' and acc_ops:
            # validate_circuit: all accepted operations together / with one rejected operation added
            ops_ok = [o for o, _ in acc_ops[:4]]
            try:
                device.validate_circuit(cirq.Circuit(ops_ok, strategy=cirq.InsertStrategy.NEW))
                got = True
            except ValueError:
                got = False
            rows.append(f'Bool.eqb (device_accepts_circuit DEV [{"; ".join(t for _, t in acc_ops[:4])}]) {"true" if got else "false"}')
            meta.append((kind, ops_ok, f'validate_circuit -> {got}'))
            ctx.count('device:grid:circuit', [repr(ops_ok)[:600], repr(sorted(qubit_set))], True)
        shards.append((f'Definition DEV := {dterm}.\nDefinition checks : list bool := [\n' + ';\n'.join(rows) + '].\nEval vm_compute in failing (fun b => b) checks.\n', meta))
    outs = coq.coq_eval_many([(f'c07d_{ctx.seed}_{i}', GS_PRE + text) for i, (text, _) in enumerate(shards)], workers=12)
    for (text, meta), out in zip(shards, outs):
        for idx in coq.parse_nat_list(coq.parse_evals(out)[0]):
            kind, op, ans = meta[idx]
            ctx.mark_broken('correspondence:device-model', f'{kind}: the device model disagrees with the statement evaluated on the real objects for {repr(op)[:300]} ({ans})')


# what each valid_gates entry of a DeviceSpecification stands for (device.proto: Sycamore, SqrtISwap, SqrtISwapInv, CZ, CZPowGate, PhasedXZ,
# VirtualZPow, PhysicalZPow, Measurement, Wait, FSimViaModel, TwoPulseFSim, Reset): a representative operation per entry and the entries
# that make it acceptable
def spec_gate_representatives(mods):
    cirq, cg = mods['cirq'], mods['cirq_google']
    fs = cirq.FSimGate(theta=0.3, phi=0.2)
    return [('syc', cg.SYC, ['syc']), ('sqrt_iswap', cirq.SQRT_ISWAP, ['sqrt_iswap']), ('sqrt_iswap_inv', cirq.SQRT_ISWAP_INV, ['sqrt_iswap_inv']),
            ('cz', cirq.CZ, ['cz', 'cz_pow_gate']), ('cz_pow_gate', cirq.CZ ** 0.3, ['cz_pow_gate']),
            ('phased_xz', cirq.PhasedXZGate(x_exponent=0.3, z_exponent=0.1, axis_phase_exponent=0.2), ['phased_xz']),
            ('phased_xz', cirq.X ** 0.5, ['phased_xz']), ('phased_xz', cirq.PhasedXPowGate(phase_exponent=0.2, exponent=0.4), ['phased_xz']),
            ('virtual_zpow', cirq.Z ** 0.3, ['virtual_zpow']), ('physical_zpow', (cirq.Z ** 0.3, cg.PhysicalZTag()), ['physical_zpow']),
            ('meas', cirq.MeasurementGate(1, 'm'), ['meas']), ('meas', cirq.MeasurementGate(2, 'mm'), ['meas']),
            ('wait', cirq.WaitGate(cirq.Duration(nanos=5)), ['wait']), ('wait', cirq.WaitGate(cirq.Duration(nanos=5), num_qubits=2), ['wait']),
            ('fsim_via_model', (fs, cg.FSimViaModelTag()), ['fsim_via_model']), ('two_pulse_fsim', (fs, cg.TwoPulseFSimTag()), ['two_pulse_fsim']),
            ('fsim untagged', fs, []), ('reset', cirq.ResetChannel(), ['reset']), ('cnot', cirq.CNOT, [])]


SPEC_GATE_LISTS = [['cz_pow_gate', 'phased_xz', 'virtual_zpow', 'meas', 'wait'], ['cz', 'phased_xz', 'meas'],
                   ['cz_pow_gate', 'phased_xz', 'physical_zpow', 'fsim_via_model', 'meas', 'reset'], ['sqrt_iswap', 'syc', 'phased_xz', 'two_pulse_fsim', 'wait']]


def place_rep(cirq, rep, qs):
    g, tags = (rep[0], rep[1:]) if isinstance(rep, tuple) else (rep, ())
    op = g.on(*qs[:cirq.num_qubits(g)])
    return op.with_tags(*tags) if tags else op


def spec_statement(cirq, reps, gate_names, op, rep_index, qubit_set, pairset):
    """The statement for a device built from a specification, from the specification alone: the gate is one of the valid gates, the
    qubits are valid qubits and a two-qubit gate (measurement and wait excepted) acts on a listed coupling."""
    if not any(n in gate_names for n in reps[rep_index][2]):
        return False, 'gate not specified'
    if any(q not in qubit_set for q in op.qubits):
        return False, 'qubit not on device'
    if len(op.qubits) == 2 and not isinstance(op.gate, (cirq.MeasurementGate, cirq.WaitGate)) and frozenset(op.qubits) not in pairset:
        return False, 'pair not allowed'
    return True, 'accepted'


def device_answer(f):
    try:
        f()
        return True
    except ValueError:
        return False
    except Exception as e:
        return type(e).__name__


def spec_sweep_cases(mods, rng, full):
    """(layout, qubits, pairs, gate names) of the specification sweep.  Every layout of valid_targets on a fixed patch (2x3 grid, one
    adjacent pair without coupler) on every run and for every VERIF_SEED, and on a drawn patch; the valid_gates lists rotate."""
    cirq = mods['cirq']
    allq = [cirq.GridQubit(r, c) for r in range(2) for c in range(3)]
    adj = [(a, b) for a in allq for b in allq if a < b and a.is_adjacent(b)]
    fixed_pairs = [p for p in adj if p != (cirq.GridQubit(0, 1), cirq.GridQubit(1, 1))]
    cases = []
    for i, lay in enumerate(SPEC_LAYOUTS):
        cases.append((lay, allq, fixed_pairs, SPEC_GATE_LISTS[i % 2]))
        for j in range(3 if full else 1):
            dq = sorted(rng.sample(allq, rng.randint(4, 6)))
            padj = [(a, b) for a in dq for b in dq if a < b and a.is_adjacent(b)]
            pairs = [p for p in padj if rng.random() < 0.75] or padj[:1]
            names = SPEC_GATE_LISTS[(i + j) % 4] if rng.random() < 0.6 else sorted(rng.sample(PROTO_GATES, rng.randint(3, 8)))
            cases.append((lay, dq, pairs, names))
    return cases


def spec_sweep_stream(ctx, mods, full):
    """Devices built from DeviceSpecification protos, judged from the specification alone: reported qubits / couplings, one
    representative operation per known valid_gates entry, a two-qubit gate of the specification on EVERY ordered pair of qubits
    (and a qubit outside), whole circuits over all couplings; invalid specifications must be refused.  The Coq model
    (Xform/DeviceSpec.v: device_of_spec) recomputes couplings and answers."""
    cirq, cg = mods['cirq'], mods['cirq_google']
    rng = ctx.rng
    reps = spec_gate_representatives(mods)
    stranger = cirq.GridQubit(7, 7)
    shards = []
    names_tab = []
    name_id = lambda n: names_tab.index(n) if n in names_tab else (names_tab.append(n) or len(names_tab) - 1)
    ords = {SYM: 'OrdSymmetric', SUBSET: 'OrdSubsetPermutation', 'UNSPECIFIED': 'OrdUnspecified', 'ASYMMETRIC': 'OrdAsymmetric'}
    for lay, dq, pairs, gate_names in spec_sweep_cases(mods, rng, full):
        target_sets = spec_target_sets(rng, lay, dq, pairs)
        pairset, qubit_set = spec_couplings(target_sets), set(dq)
        shown = show_spec(dq, target_sets, gate_names)
        rec = dict(kind='device_spec', qubits=repr(dq), target_sets=repr(target_sets), gate_names=list(gate_names))
        try:
            device = proto_device(mods, dq, pairs, gate_names, target_sets)
        except Exception as e:
            ctx.count('device:spec:metadata', [lay, shown], True)
            ctx.violation('device:grid:spec:refused', f'GridDevice.from_proto({shown}) raises {type(e).__name__}: {e} although the specification is valid'[:900], rec)
            continue
        prob = metadata_problem(device, qubit_set, pairset, target_sets)
        ctx.count('device:spec:metadata', [lay, shown], len({n for n, o, t in target_sets if o == SYM and any(len(x) == 2 for x in t)} - {CONVENTIONAL}) > 0,
                  sample=dict(layout=lay, spec=shown[:300], couplings_reported=len(device.metadata.qubit_pairs), couplings_listed=len(pairset)) if rng.random() < 0.2 else None)
        if prob is not None:
            ctx.violation(f'device:grid:spec:{prob[0]}', f'{prob[1]} (couplings = the two-element targets of every SYMMETRIC target set); device = GridDevice.from_proto({shown})'[:1200], rec)
        # operations: (op, index of its representative)
        ops = []
        some_pair = sorted(rng.choice(sorted(map(sorted, pairset)))) if pairset else dq[:2]
        for ri, (_, rep, _) in enumerate(reps):
            ops.append((place_rep(cirq, rep, some_pair if rng.random() < 0.5 else some_pair[::-1]), ri))
        two = [ri for ri, (_, rep, need) in enumerate(reps) if any(n in gate_names for n in need) and cirq.num_qubits(rep[0] if isinstance(rep, tuple) else rep) == 2
               and not isinstance(rep, tuple) and not isinstance(rep, (cirq.MeasurementGate, cirq.WaitGate))]
        var = [ri for ri, (_, rep, need) in enumerate(reps) if any(n in gate_names for n in need) and isinstance(rep, (cirq.MeasurementGate, cirq.WaitGate)) and cirq.num_qubits(rep) == 2]
        one = [ri for ri, (_, rep, need) in enumerate(reps) if any(n in gate_names for n in need) and cirq.num_qubits(rep[0] if isinstance(rep, tuple) else rep) == 1]
        for a, b in itertools.permutations(dq + [stranger], 2):
            for ri in two[:2] + var[:1]:
                ops.append((place_rep(cirq, reps[ri][1], [a, b]), ri))
        for a in dq + [stranger]:
            for ri in one[:2]:
                ops.append((place_rep(cirq, reps[ri][1], [a]), ri))
        cnot = len(reps) - 1
        for p in sorted(map(sorted, pairset))[:3]:
            ops.append((cirq.CNOT(*p), cnot))
        d = Describer(cirq)
        qt = QubitTable()
        try:
            gterm = d.gateset(device.metadata.gateset)
            model = True
        except Unmodelled:
            gterm, model = '(mkGS [] true [])', False
            ctx.cov['device_specs_judged_without_model'] = ctx.cov.get('device_specs_judged_without_model', 0) + 1
        sterm = (f'(mkSpec {gates.nlist([qt(q) for q in dq])} [' +
                 '; '.join(f'mkTS {name_id(n)} {ords[o]} [{"; ".join(gates.nlist([qt(q) for q in t]) for t in ts)}]' for n, o, ts in target_sets) + f'] {gterm})')
        rows = [f'spec_matches SPEC {gates.nlist([qt(q) for q in sorted(device.metadata.qubit_set)])} '
                f'[{"; ".join(f"({qt(a)}, {qt(b)})%nat" for a, b in (tuple(sorted(p)) for p in sorted(device.metadata.qubit_pairs, key=sorted)))}]']
        meta = [f'{shown}: the device reports qubits / couplings other than device_of_spec of the model']
        accepted = []
        for op, ri in ops:
            got = device_answer(lambda: device.validate_operation(op))
            want, why = spec_statement(cirq, reps, gate_names, op, ri, qubit_set, pairset)
            ctx.count('device:spec:operation', [shown, repr(op)], len(op.qubits) == 2)
            if got is not want:
                sets_with = [repr(n) for n, o, ts in target_sets if o == SYM and any(frozenset(t) == frozenset(op.qubits) for t in ts)]
                sig = (f'device:grid:spec:gate:{reps[ri][0].replace(" ", "-")}:accepts' if why == 'gate not specified'
                       else f'device:grid:spec:{"accepts" if got is True else "rejects"}:{why.replace(" ", "-")}')
                ctx.violation(sig, (f'validate_operation({op!r}) {"accepts" if got is True else "rejects (" + str(got) + ")"} although by the specification the operation is: {why}'
                                    + (f' (gate {reps[ri][2]} is a valid gate, the qubits are valid qubits' + (f', the pair is listed in the SYMMETRIC target set {", ".join(sets_with)})' if sets_with else ')') if want else '')
                                    + f'; device = GridDevice.from_proto({shown})')[:1200],
                              dict(rec, op=repr(op), rep=ri))
            if got is True:
                accepted.append(op)
            if model:
                rows.append(f'Bool.eqb (device_accepts DEV (mkDop {d.op(op)} {gates.nlist([qt(q) for q in op.qubits])} true)) {"true" if want else "false"}')
                meta.append(f'{shown}: the model of the specified device disagrees with the statement for {op!r} ({why})')
        # whole circuits: a specified two-qubit gate on every coupling (both orders) is accepted; with one more operation on a pair that is no coupling it is not
        if two and pairset:
            non = [(a, b) for a in dq for b in dq if a != b and frozenset((a, b)) not in pairset]
            g2 = reps[two[0]][1]
            every = [g2.on(*(sorted(p) if i % 2 else sorted(p)[::-1])) for i, p in enumerate(sorted(pairset, key=sorted))]
            for label, cops_, want in [('every coupling', every, True)] + ([('every coupling and one pair that is no coupling', every + [g2.on(*rng.choice(non))], False)] if non else []):
                circ = cirq.Circuit(cops_, strategy=cirq.InsertStrategy.NEW if rng.random() < 0.5 else cirq.InsertStrategy.EARLIEST)
                got = device_answer(lambda: device.validate_circuit(circ))
                ctx.count('device:spec:circuit', [shown, repr(circ)], True)
                if got is not want:
                    ctx.violation(f'device:grid:spec:circuit:{"accepts" if got is True else "rejects"}',
                                  f'validate_circuit {"accepts" if got is True else "rejects (" + str(got) + ")"} the circuit {[repr(o) for o in cops_]} ({label}; gate {reps[two[0]][0]} is a valid gate); device = GridDevice.from_proto({shown})'[:1200],
                                  dict(rec, ops=[repr(o) for o in cops_]))
        shards.append((f'Definition SPEC := {sterm}.\nDefinition DEV := match device_of_spec SPEC with Some d => d | None => mkDev (mkGS [] true []) [] [] PairsNone false end.\n'
                       'Definition checks : list bool := [\n' + ';\n'.join(rows) + '].\nEval vm_compute in failing (fun b => b) checks.\n', meta))
    # specifications the documentation of from_proto calls invalid must be refused with ValueError; the model refuses the ones it can express
    q = [cirq.GridQubit(0, c) for c in range(3)]
    invalid = [('a valid qubit id that is not of the form <int>_<int>', dict(qubits=q, sets=[(CONVENTIONAL, SYM, [(q[0], q[1])])], raw=['0_0', '0_1', 'q2']), None),
               ('a target naming a qubit that is no valid qubit', dict(qubits=q[:2], sets=[(rng.choice(OTHER_NAMES), SYM, [(q[0], q[1]), (q[1], q[2])])], raw=None), f'mkSpec {gates.nlist([0, 1])} [mkTS 0 OrdSymmetric [{gates.nlist([0, 1])}; {gates.nlist([1, 2])}]] (mkGS [] true [])'),
               ('a symmetric target with a repeated qubit', dict(qubits=q, sets=[(CONVENTIONAL, SYM, [(q[0], q[1])]), ('more', SYM, [(q[2], q[2])])], raw=None), f'mkSpec {gates.nlist([0, 1, 2])} [mkTS 0 OrdSymmetric [{gates.nlist([0, 1])}]; mkTS 1 OrdSymmetric [{gates.nlist([2, 2])}]] (mkGS [] true [])')]
    inv_rows, inv_meta = [], []
    for label, sp, term in invalid:
        got = device_answer(lambda: cg.GridDevice.from_proto(build_spec(mods, sp['qubits'], sp['sets'], ['cz', 'phased_xz', 'meas'], sp['raw'])))
        ctx.count('device:spec:invalid', [label, repr(sp['sets'])], True)
        if got is not False:
            ctx.violation('device:grid:spec:invalid-not-refused', f'GridDevice.from_proto of a specification with {label} ({show_spec(sp["qubits"], sp["sets"], ["cz", "phased_xz", "meas"])}, raw ids {sp["raw"]}) '
                          f'{"returns a device" if got is True else "raises " + str(got)} instead of raising ValueError', dict(kind='device_spec_invalid', label=label))
        if term is not None:
            inv_rows.append(f'match device_of_spec ({term}) with None => true | Some _ => false end')
            inv_meta.append(f'the model accepts a specification with {label}')
    shards.append(('Definition checks : list bool := [\n' + ';\n'.join(inv_rows) + '].\nEval vm_compute in failing (fun b => b) checks.\n', inv_meta))
    pre = GS_PRE + 'From VF Require Import Xform.DeviceSpec.\n'
    outs = coq.coq_eval_many([(f'c07s_{ctx.seed}_{i}', pre + text) for i, (text, _) in enumerate(shards)], workers=12)
    for (text, meta), out in zip(shards, outs):
        for idx in coq.parse_nat_list(coq.parse_evals(out)[0]):
            ctx.mark_broken('correspondence:device-spec-model', meta[idx][:700])


# ---------------------------------------------------------------- FSimGateFamily judged by matrices
FS_TOL = 1e-7
FS_SIG = 'membership:fsim-family'
FS_IDENTITY_SIG = 'membership:fsim-family:accepts:identity-of-other-arity'


def fsim_types(cirq):
    return [cirq.FSimGate, cirq.PhasedFSimGate, cirq.ISwapPowGate, cirq.PhasedISwapPowGate, cirq.CZPowGate, cirq.IdentityGate]


def fs_close(a, b):
    return bool(np.allclose(a, b, atol=FS_TOL))


FS_UNITARIES = {}


def fs_unitary(cirq, g):
    k = id(g)
    if k not in FS_UNITARIES or FS_UNITARIES[k][0] is not g:
        FS_UNITARIES[k] = (g, cirq.unitary(g))
    return FS_UNITARIES[k][1]


def fsim_type_fits(cirq, T, v):
    """Is the 4x4 unitary v (v[0,0] = 1) the matrix of SOME instance of the gate type T (zero global shift)?  The documented matrices:
    PhasedFSimGate = 1 (+) any 2x2 unitary (+) phase; FSimGate(t, p) = 1 (+) [[c, -is], [-is, c]] (+) e^{-ip}; ISwapPowGate = FSimGate with p = 0;
    PhasedISwapPowGate = 1 (+) [[c, i s f], [i s f*, c]] (+) 1; CZPowGate = diag(1, 1, 1, e^{i pi t}); IdentityGate(2) = 1.  The parameters are read off the
    matrix and the instance is rebuilt with cirq's own constructor and compared."""
    pi = math.pi
    off = np.ones((4, 4), bool)
    off[0, 0] = off[3, 3] = False
    off[1:3, 1:3] = False
    if not fs_close(v[off], 0):
        return False
    if T is cirq.PhasedFSimGate:
        return True
    if T is cirq.IdentityGate:
        return fs_close(v, np.eye(4))
    if T is cirq.CZPowGate:
        return fs_close(v, cirq.unitary(cirq.CZ ** (np.angle(v[3, 3]) / pi)))
    if T in (cirq.FSimGate, cirq.ISwapPowGate):
        theta, phi = math.atan2(-v[1, 2].imag, v[1, 1].real), -np.angle(v[3, 3])
        return fs_close(v, cirq.unitary(cirq.FSimGate(theta, phi) if T is cirq.FSimGate else cirq.ISWAP ** (-2 * theta / pi)))
    if T is cirq.PhasedISwapPowGate:
        w = v[1, 2] / 1j
        s = abs(w)
        f = w / s if s > FS_TOL else 1.0
        return fs_close(v, cirq.unitary(cirq.PhasedISwapPowGate(phase_exponent=np.angle(f) / (2 * pi), exponent=2 * math.atan2(s, v[1, 1].real) / pi)))
    raise KeyError(T)


def fsim_degenerate(cirq, g):
    """A parameter of g that is not zero has no effect on g's matrix, or only re-writes another gate of the same type (the family may decline these)."""
    if isinstance(g, cirq.PhasedFSimGate):
        return (abs(math.sin(g.theta)) < 1e-6 and abs(g.chi) > 1e-9) or (abs(math.cos(g.theta)) < 1e-6 and abs(g.zeta) > 1e-9)
    if isinstance(g, cirq.PhasedISwapPowGate):
        p = g.phase_exponent % 1.0
        return abs(g.phase_exponent) > 1e-9 and (abs(math.sin(math.pi * g.exponent / 2)) < 1e-6 or min(p, 1 - p) < 1e-9 or abs(p - 0.5) < 1e-9)
    return False


def fsim_reference(cirq, targets, check_types, g):
    """(may, must, why): the family may accept g only if g is an instance of a type to check and its matrix is, up to global phase, the matrix of an
    instance of some accepted type / of some accepted instance (may); it must accept g when the matrices coincide exactly (no global phase left over)
    and no parameter of g is degenerate (must)."""
    if not isinstance(g, tuple(check_types)):
        return False, False, f'{type(g).__name__} is not among the types to check'
    u = fs_unitary(cirq, g)
    if u.shape != (4, 4):
        return False, False, f'it acts on {cirq.num_qubits(g)} qubit(s), the accepted gates on two'
    may = must = False
    for t in targets:
        if isinstance(t, type):
            if abs(abs(u[0, 0]) - 1) > FS_TOL:
                continue
            lam = u[0, 0]
            if fsim_type_fits(cirq, t, u / lam):
                may = True
                must = must or abs(lam - 1) < FS_TOL
        else:
            u0 = fs_unitary(cirq, t)
            if u0.shape != u.shape:
                continue
            k = np.unravel_index(np.argmax(abs(u0)), u0.shape)
            if abs(u[k]) > FS_TOL and fs_close(u * (u0[k] / u[k]), u0):
                may = True
                must = must or fs_close(u, u0)
    if must and fsim_degenerate(cirq, g):
        must = False
    names = ', '.join(t.__name__ if isinstance(t, type) else repr(t) for t in targets)
    return may, must, (f'its matrix equals that of an accepted gate [{names}]' if must else f'its matrix is, up to global phase, that of an accepted gate [{names}]' if may else
                       f'no instance of an accepted gate [{names}] has its matrix, not even up to global phase')


def fsim_candidates(mods, rng, targets_seen, full):
    """Numeric gates of the six convertible types.  Fixed for every VERIF_SEED: FSimGate over the special angles; PhasedFSimGate at theta 0, +-pi/2, -pi/4, pi and
    a generic theta with each of zeta / chi / gamma non-zero alone and together (fixed and drawn values); ISwapPow / CZPow with and without a global shift
    (also shifts whose phase is 1); PhasedISwapPow over phase exponents x exponents; identities on 1-3 qubits; gates of other types.  For every accepted
    PhasedFSimGate instance its neighbours: each phase angle zeroed / negated, the plain FSimGate with its theta and phi."""
    cirq, cg = mods['cirq'], mods['cirq_google']
    pi = math.pi
    A = [0, pi / 2, -pi / 2, pi / 4, -pi / 4, pi / 6, pi, 0.4, -1.3]
    out = [cirq.FSimGate(t, p) for t in A for p in [0, pi / 6, pi, -pi / 2, 0.2]]
    nz = lambda: rng.choice([-1, 1]) * round(rng.uniform(0.1, 3), 3)
    for t in [0, pi / 2, -pi / 4, 0.4, pi, -pi / 2, pi / 4] + ([round(rng.uniform(-3, 3), 3) for _ in range(4)] if full else []):
        for z, x, g in [(0, 0, 0), (0.5, 0, 0), (0, 0.3, 0), (0, 0, 0.5), (0, nz(), 0), (nz(), nz(), 0), (0, nz(), nz()), (nz(), 0, nz()), (nz(), nz(), nz()), (0, 2 * pi, 0), (0, -0.7, 0)]:
            for p in [0, pi / 6, 0.2]:
                out.append(cirq.PhasedFSimGate(t, z, x, g, p))
    out += [cirq.ISwapPowGate(exponent=t, global_shift=s) for t in [0, 1, -1, 0.5, -0.5, 0.25, 2, 0.3, 4] for s in [0, 0.5, 1, 4]]
    out += [cirq.PhasedISwapPowGate(phase_exponent=p, exponent=t) for p in [0, 0.25, 0.2, 0.5, 1.0, -0.3] for t in [0, 1, 0.5, -0.5, 2, 0.3]]
    out += [cirq.CZPowGate(exponent=t, global_shift=s) for t in [0, 1, -1, 0.5, 2, 0.3, -1 / 6] for s in [0, -0.5, 1]]
    out += [cirq.IdentityGate(2), cirq.IdentityGate(1), cirq.IdentityGate(3), cg.SYC, cirq.SWAP, cirq.CNOT, cirq.ZZ ** 0.5, cirq.ISWAP, cirq.SQRT_ISWAP, cirq.SQRT_ISWAP_INV, cirq.CZ]
    for t in targets_seen:
        if isinstance(t, cirq.PhasedFSimGate):
            th, z, x, g, p = t.theta, t.zeta, t.chi, t.gamma, t.phi
            out += [t, cirq.PhasedFSimGate(th, 0, x, g, p), cirq.PhasedFSimGate(th, z, 0, g, p), cirq.PhasedFSimGate(th, z, x, 0, p), cirq.PhasedFSimGate(th, 0, 0, 0, p),
                    cirq.PhasedFSimGate(th, z, -x, g, p), cirq.FSimGate(th, p), cirq.FSimGate(th, 0.0), cirq.PhasedISwapPowGate(exponent=-2 * th / pi, phase_exponent=x / (2 * pi))]
            if abs(th - pi / 2) < 1e-9 and abs(p - pi / 6) < 1e-9:
                out.append(cg.SYC)
    return out


def fsim_family_configs(mods, rng, full):
    """(targets, types to check, allow_symbols).  Type targets: each convertible type alone and two mixtures; instance targets: the stock Google gates, plain
    and phased fsim gates with a swap phase chi (fixed and drawn), phased iswap, a CZ power, identity; checked types: all / FSimGate+PhasedFSimGate only."""
    cirq, cg = mods['cirq'], mods['cirq_google']
    pi = math.pi
    types = fsim_types(cirq)
    chi = lambda: rng.choice([-1, 1]) * round(rng.uniform(0.1, 3), 3)
    th, ph = rng.choice([(pi / 2, pi / 6), (-pi / 4, 0.0), (0.4, 0.2), (pi / 4, 0.0), (-1.3, pi)])
    targets = [[T] for T in types] + [[cirq.ISwapPowGate, cirq.CZPowGate], [cirq.FSimGate, cirq.SQRT_ISWAP]]
    targets += [[cg.SYC], [cirq.SQRT_ISWAP], [cirq.SQRT_ISWAP_INV], [cirq.CZ], [cg.SYC, cirq.SQRT_ISWAP, cirq.SQRT_ISWAP_INV, cirq.CZ],
                [cirq.PhasedFSimGate(pi / 2, 0, 0.3, 0, pi / 6)], [cirq.PhasedFSimGate(-pi / 4, 0, 0.7, 0, 0)], [cirq.PhasedFSimGate(0.4, 0.5, 0.6, 0.7, 0.2)],
                [cirq.PhasedFSimGate(th, 0, chi(), 0, ph)], [cirq.PhasedFSimGate(th, 0, 0, chi(), ph)],
                [cirq.PhasedISwapPowGate(phase_exponent=0.25, exponent=0.5)], [cirq.FSimGate(0.4, 0.2)], [cirq.CZ ** 0.5], [cirq.IdentityGate(2)], [cirq.ISWAP ** -1]]
    out = []
    for i, tg in enumerate(targets):
        out += [(tg, [], False), (tg, [], True)]
        if full or i % 3 == 0:
            out += [(tg, [cirq.FSimGate, cirq.PhasedFSimGate], False), (tg, [cirq.FSimGate, cirq.PhasedFSimGate], True)]
    return out


def fsim_family_stream(ctx, mods, full):
    """cirq_google.FSimGateFamily ('accept compatible instances of the related gate types, converted to an EQUIVALENT instance of an accepted type / equal to an
    accepted instance modulo type conversion') judged by the meaning of the gates: their matrices.  Every candidate x family goes through `gate in family`,
    `operation in Gateset(family, ...)` and validate_operation of a GridDevice whose gateset holds the family (coupled pair; an uncoupled pair must always be refused)."""
    cirq, cg = mods['cirq'], mods['cirq_google']
    rng = ctx.rng
    configs = fsim_family_configs(mods, rng, full)
    seen = []
    for tg, _, _ in configs:
        for t in tg:
            if not isinstance(t, type) and not any(t is s for s in seen):
                seen.append(t)
    cands = fsim_candidates(mods, rng, seen, full)
    mats = {}
    q = cirq.GridQubit.rect(2, 2)
    pairs = [(a, b) for a in q for b in q if a < b and a.is_adjacent(b)]
    types = fsim_types(cirq)
    for tg, ct, sym in configs:
        try:
            fam = cg.FSimGateFamily(gates_to_accept=tg, gate_types_to_check=ct, allow_symbols=sym)
            gs = cirq.Gateset(fam, cirq.PhasedXZGate, cirq.MeasurementGate)
            dev = cg.GridDevice(cirq.GridDeviceMetadata(pairs, gs, all_qubits=q))
        except Exception as e:
            ctx.mark_broken('harness:fsim-family', f'{type(e).__name__}: {e}')
            continue
        fam_text = (f'cirq_google.FSimGateFamily(gates_to_accept=[{", ".join(t.__name__ if isinstance(t, type) else repr(t) for t in tg)}]'
                    + (f', gate_types_to_check=[{", ".join(t.__name__ for t in ct)}]' if ct else '') + (', allow_symbols=True' if sym else '') + ')')
        for gi, g in enumerate(cands):
            may, must, why = fsim_reference(cirq, tg, ct or types, g)
            n = cirq.num_qubits(g)
            op = g.on(*(q[:2] if n == 2 else q[:n]))
            answers = [('gate in family', answer(lambda: g in fam)), ('operation in Gateset(family, PhasedXZGate, MeasurementGate)', answer(lambda: op in gs)),
                       ('GridDevice(2x2 grid, that gateset).validate_operation on a coupled pair', device_answer(lambda: dev.validate_operation(op)))]
            if n == 2 and gi % 4 == 0:
                far = g.on(q[0], q[3])
                answers.append(('uncoupled', device_answer(lambda: dev.validate_operation(far))))
            ctx.count('membership:fsim-family', [fam_text, repr(g)], isinstance(g, tuple(types)) and (may or type(g) not in (cirq.FSimGate, cirq.IdentityGate)),
                      sample=dict(family=fam_text[:200], gate=repr(g)[:120], accepted=answers[0][1], reference=why[:120]) if rng.random() < 0.002 else None)
            for how, got in answers:
                rep = dict(kind='fsim_family', targets=[t.__name__ if isinstance(t, type) else repr(t) for t in tg], check_types=[t.__name__ for t in ct], allow_symbols=sym, gate=repr(g))
                if how == 'uncoupled':
                    if got is not False:
                        ctx.violation('device:grid:fsim-family:accepts:pair-not-allowed', f'GridDevice on the 2x2 grid with {fam_text} in its gateset: validate_operation({far!r}) -> {got} on the uncoupled pair', rep)
                    continue
                if got is True and not may:
                    wrong = 'accepts'
                elif got is False and must:
                    wrong = 'rejects'
                elif got in (True, False):
                    continue
                else:
                    wrong = 'raises'
                if isinstance(g, cirq.IdentityGate) and n != 2 and wrong in ('accepts', 'raises'):
                    sig = FS_IDENTITY_SIG
                else:
                    sig = f'{"device:grid:fsim-family" if how.startswith("GridDevice") else FS_SIG}:{wrong}:{"type" if all(isinstance(t, type) for t in tg) else "instance"}-target'
                ctx.violation(sig, f'{how} -> {got} for gate {g!r} and family {fam_text}, although {why}'[:900], rep)


def mapping_manager_stream(ctx, mods, n_cases):
    """The real MappingManager against the model: arrays after __init__ and after every prefix of a random swap sequence."""
    cirq = mods['cirq']
    from cirq.transformers.routing import mapping_manager
    rng = ctx.rng
    rows, meta = [], []
    for _ in range(n_cases):
        g = gen_graph(mods, rng, big=rng.random() < 0.5)
        G, phys = nx_graph(cirq, g)
        n = len(phys)
        k = rng.randint(2, n)
        # a connected set of k physical qubits (grown along undirected edges), logical qubits in random order
        und = G.to_undirected()
        chosen = [rng.choice(phys)]
        while len(chosen) < k:
            frontier = sorted({w for v in chosen for w in und.neighbors(v) if w not in chosen})
            chosen.append(rng.choice(frontier))
        logical = [cirq.LineQubit(100 + i) for i in range(k)]
        rng.shuffle(logical)
        init = dict(zip(logical, chosen))
        mm = mapping_manager.MappingManager(G, init)
        l2p0 = [mm.physical_qid_to_int[init[q]] for q in mm.int_to_logical_qid]
        ok0 = list(mm.logical_to_physical) == l2p0
        swaps, snaps = [], []
        for _s in range(rng.randint(1, 8)):
            a = rng.randrange(k)
            nb = [b for b in range(k) if b != a and mm.dist_on_device(a, b, undirected=True) == 1]
            if not nb:
                continue
            b = rng.choice(nb)
            mm.apply_swap(a, b)
            swaps.append((a, b))
            snaps.append((list(map(int, mm.logical_to_physical)), list(map(int, mm.physical_to_logical))))
        ctx.count('mapping_manager', [g, repr(init), swaps], len(swaps) >= 2, sample=dict(graph=g['kind'], qubits=k, swaps=swaps))
        real_inverse = all(int(mm.physical_to_logical[int(mm.logical_to_physical[i])]) == i for i in range(k))
        if not real_inverse or not ok0:
            ctx.violation('mapping_manager:inverse', f'MappingManager arrays are no longer inverse to each other after swaps {swaps} (initial mapping {init})',
                          dict(kind='mapping_manager', graph=g, init=repr(init), swaps=swaps))
        sw = '[' + '; '.join(f'({a}, {b})%nat' for a, b in swaps) + ']'
        l2p_f, p2l_f = snaps[-1] if snaps else (l2p0, [int(x) for x in mm.physical_to_logical])
        rows.append(f'(let m := apply_swaps (mm_init {gates.nlist(l2p0)}) {sw} in Routing.nl_eqb (l2p m) {gates.nlist(l2p_f)} && Routing.nl_eqb (p2l m) {gates.nlist(p2l_f)} && mm_ok_b {k} m)')
        meta.append((g, init, swaps))
    out = coq.coq_eval(f'c07mm_{ctx.seed}', PRE + 'Definition checks : list bool := [\n' + ';\n'.join(rows) + '].\nEval vm_compute in failing (fun b => b) checks.\n')
    for idx in coq.parse_nat_list(coq.parse_evals(out)[0]):
        g, init, swaps = meta[idx]
        ctx.mark_broken('correspondence:mapping_manager', f'MappingManager arrays differ from the model after swaps {swaps} (initial mapping {init})')


# ---------------------------------------------------------------- evaluation
def evaluate(ctx, mods, checks, confirm):
    """checks: (stream, expr, desc, rep). Shards by size; a failing expression is confirmed on the real code by `confirm`."""
    shards, cur, size = [], [], 0
    for c in checks:
        if cur and (size + len(c[1]) > 600_000 or len(cur) >= 200):
            shards.append(cur)
            cur, size = [], 0
        cur.append(c)
        size += len(c[1])
    if cur:
        shards.append(cur)
    items = [(f'c07_{ctx.seed}_{i}', PRE + 'Definition checks : list bool := [\n' + ';\n'.join(c[1] for c in sh) + '].\nEval vm_compute in failing (fun b => b) checks.\n')
             for i, sh in enumerate(shards)]
    outs = coq.coq_eval_many(items, workers=12)
    for sh, out in zip(shards, outs):
        for idx in coq.parse_nat_list(coq.parse_evals(out)[0]):
            stream, _, desc, rep = sh[idx]
            rep = dict(rep)
            sig = rep.pop('signature')
            if stream.endswith(':membership'):
                ctx.mark_broken(f'correspondence:{stream}', desc + ': ' + rep.get('circuit', '')[:300])
                continue
            try:
                holds, detail, sig2, rep2 = confirm(mods, rep)
            except Exception as e:
                holds, detail, sig2, rep2 = False, f'oracle raised {type(e).__name__}: {e}', None, rep
            if holds:
                ctx.mark_broken(f'correspondence:{stream}', f'{desc}: the Coq evaluation rejects but the numpy oracle accepts ({detail})')
            else:
                ctx.disagree(f'correspondence:{stream}', desc, sig2 or sig, f'{desc} ({detail}); minimised: {rep2.get("minimised_ops", "")}'[:600], rep2)


def confirm(mods, rep):
    k = rep.get('kind')
    if k == 'compile':
        return confirm_compile(mods, rep)
    if k == 'route':
        return confirm_route(mods, rep)
    raise KeyError(k)


def run(ctx):
    mods = env.import_cirq(('cirq_google', 'cirq_ionq', 'cirq_aqt', 'cirq_pasqal'))
    ctx.rule = ('compile: 18 target configurations x input kind (random 1-3 qubit MatrixGates, library gates of the shared vocabulary, already-native '
                'operations, no-compile tagged native operations with tags_to_ignore, CircuitOperations incl. repetitions / qubit maps / deep), 1-3 qubits, '
                '2-7 operations, max_num_passes 1 or None; non-trivial = at least 2 input operations; distinct by (target, circuit JSON). '
                'compile lone: one library gate alone on its qubits (nothing to merge with, so the bare gate reaches the target\'s own dispatch): every 1/2/3-qubit power-gate '
                'family at exponents +-1, +-0.5 (zero shift), PhasedISwap, FSim at the iSWAP/sqrt-iSWAP/CZ/Sycamore angles, givens, ms, SYC, CSWAP for every target on every run; '
                'the remaining special exponents, shifted forms, PhasedFSim, Pauli interactions, controlled gates, permutations for drawn targets; placed forward, reversed, '
                'beside a spectator qubit or next to a no-compile tagged native operation. '
                'compile sub-circuit: for every target a single CircuitOperation whose body is one operation (H, sqrt(X) and one more one-qubit gate in rotation; two two-qubit gates in rotation) '
                'with repetitions 2/3/5/0, -1, -2, a qubit map (body written on another qubit of the circuit), nesting (repetitions outside, inside, with a map), a parameter resolver, a tag, '
                'a two-moment body; standing alone in the circuit, alone on its qubit beside other gates, with a unitary neighbour, next to a no-compile operation; fixed for every VERIF_SEED. '
                'membership circuit-op: symbolic bodies X/Y/Z/H/PhasedX/PhasedXZ/CZ/CNOT/ISWAP/SWAP/XX/ZZ/FSim/PhasedFSim/CCZ/CCX under resolvers to 1, 0.5, -0.5, 2, 3, 0.25, 0 '
                '(FSim: Sycamore, sqrt-iSWAP(+inv), CZ, generic angles) in 15 forms (plain, repetitions, inversion, zero repetitions, qubit map, outer resolver, two-level renaming, tags, '
                'beside a native operation, with_params, unused resolver, nested inversion, unresolved, partly resolved) x every gateset; the same grid on every GridDevice spec '
                '(on a device pair, written off the device and mapped onto it, mapped off it, onto a forbidden pair) and on cirq_google.Sycamore, through validate_operation and validate_circuit. '
                'membership: ~400 gates/operations (subclass instances, exponents modulo the period, tags, CircuitOperations, gate-less operations) x '
                '25 gatesets and one random family each; both answers occur. route: line/ring/grid/tree/tree+chords graphs with 2-9 nodes, 35% directed, '
                'HardCodedInitialMapper and a user-written AbstractInitialMapper whose placements are supersets of the circuit\'s qubits (spare logical qubits the circuit never uses, '
                'sorting below / between / above the used ones, on all device nodes or on a connected part of the device), LineInitialMapper and the default mapper, lookahead 1/2/8, '
                '2-12 one- and two-qubit operations, tags, CircuitOperations, terminal measurements in 25%; on every run a fixed grid (lines 3-5, ring 5, star, 2x3 grid, two-way directed line): '
                'two used qubits on every non-adjacent pair of nodes with idle placements on the nodes between them, so that every inserted swap displaces an idle placement '
                '(stream route:*:idle-placement, non-trivial = an inserted swap exchanges a used and an idle placement); non-trivial = at least one inserted swap; '
                'everything is judged against the initial mapping and swap map the router REPORTS (swap map = permutation of all placed physical qubits); '
                'the A.6 relation for measurement-free cases on <= 5 nodes. '
                'mapping_manager: random connected placements and swap sequences. device: generated GridDevice specs (qubits, pairs, gatesets with tagged and '
                'integer-power families), AQT, Pasqal (plain and virtual with a control radius), IonQ API devices x 40 operations each on and off the device; on every run also '
                'four fixed gatesets with tag-dependent families (with and without the complementary family) and five DeviceSpecification protos through GridDevice.from_proto '
                '(FSimGateFamily specs are judged on the real objects only). validate_circuit (GridDevice, IonQ): for every family of the gateset a gate it takes, in every tag '
                'variant the gateset mentions / untagged / unrelated tag / other qubits, all ordered pairs of variants, plus sequences of the singly judged operations; '
                'accepted iff every operation is acceptable on its own. GridDevices are judged against what they were built from (the specification / the constructor arguments), '
                'not against their own metadata, and metadata.qubit_set / qubit_pairs / nx_graph must report the same. device spec: DeviceSpecification protos in 11 shapes of valid_targets '
                '(conventional name, other name, no name, couplings split over two symmetric sets with / without the conventional name / under the same name twice, an empty conventional set, '
                'ids of a pair in either order, pairs listed twice, measurement groups and one- / three-qubit symmetric targets beside the couplings, measurement groups first) on a fixed 2x3 patch '
                'and a drawn patch each, valid_gates lists in rotation; couplings = the two-element targets of every SYMMETRIC target set (device.proto); one representative operation per '
                'valid_gates entry, a specified two-qubit gate on EVERY ordered pair of qubits and a qubit outside, whole circuits over all couplings; the three documented kinds of invalid '
                'specification must raise ValueError; non-trivial = a coupling set that is not the conventionally named one / a two-qubit operation. '
                'device multi-qubit: for every device (GridDevice, AQT, Pasqal, virtual Pasqal incl. five fixed layouts over LineQubit / TwoDQubit / ThreeDQubit / GridQubit wider than the '
                'control radius, IonQ) ParallelGate of one-qubit gates on 2, 3 and all qubits, identities on several qubits, CZ powers, CNOT, CCZ, CCX, XX, joint measurements on tuples '
                'that are pairwise allowed / contain a pair that is not / reversed / partly off the device; Pasqal validate_circuit on one-operation-per-moment circuits with a terminal '
                'measurement; the control radius binds the controlled gates (integer CZ powers) only. fsim family: ~310 numeric gates of the six convertible types (FSim / PhasedFSim with '
                'each of zeta, chi, gamma non-zero alone and together at theta 0, +-pi/2, +-pi/4, pi, generic; ISwapPow / CZPow with global shifts; PhasedISwapPow; identities on 1-3 qubits) '
                'x ~80 FSimGateFamily configurations (each type as target, stock and chi-carrying instances, restricted gate_types_to_check, allow_symbols) through `in`, Gateset and a '
                'GridDevice; judged by matrices: accepting needs an instance of an accepted type / an accepted instance with the same matrix up to global phase, refusing is wrong when '
                'the matrices coincide exactly and no parameter of the gate is degenerate; non-trivial = a candidate that is not a plain FSimGate / identity or that matches.')
    ctx.assumptions += ['float tolerance 2^-20 (~1e-6) for unitaries up to global phase', 'operations enter the model through their own cirq.unitary (C03/C04 tie those to the documented matrices)']
    ctx.set_obligations(coq.compile_props('C07'))
    n = 1 if ctx.tier == 'quick' else 10
    checks = []
    membership_stream(ctx, mods, n)
    compile_stream(ctx, mods, checks, 8 * n)
    lone_gate_stream(ctx, mods, checks, full=ctx.tier != 'quick')
    sub_circuit_stream(ctx, mods, checks, full=ctx.tier != 'quick')
    routing_stream(ctx, mods, checks, 90 * n)
    mapping_manager_stream(ctx, mods, 60 * n)
    device_stream(ctx, mods, 28 * n, 40)
    spec_sweep_stream(ctx, mods, full=ctx.tier != 'quick')
    fsim_family_stream(ctx, mods, full=ctx.tier != 'quick')
    evaluate(ctx, mods, checks, confirm)
    # translation validation: programs = compiler and router runs whose real output was validated
    ctx.cov['programs'] = sum(v for k, v in ctx.streams.items() if (k.startswith('compile:') or k.startswith('route:')) and not k.endswith(':relation'))
    ctx.cov['model_evaluations'] = dict(membership=sum(v for k, v in ctx.streams.items() if k.startswith('membership:')),
                                        device=sum(v for k, v in ctx.streams.items() if k.startswith('device:')),
                                        mapping_manager=ctx.streams.get('mapping_manager', 0),
                                        unitary_or_certificate_checks=len(checks))


def py_eval(mods, text):
    import sympy
    return eval(text, dict(cirq=mods['cirq'], cirq_google=mods['cirq_google'], cirq_ionq=mods['cirq_ionq'], cirq_aqt=mods['cirq_aqt'],
                           cirq_pasqal=mods['cirq_pasqal'], pasqal=mods['cirq_pasqal'], np=np, sympy=sympy, frozenset=frozenset))


def replay_device(mods, data):
    cirq, cg, ci, ca, cp = mods['cirq'], mods['cirq_google'], mods['cirq_ionq'], mods['cirq_aqt'], mods['cirq_pasqal']
    kind = data['device']
    qubits = py_eval(mods, data['qubits'])
    pairs = {frozenset(p) for p in py_eval(mods, data['pairs'])}
    ops = [py_eval(mods, t) for t in data['ops']] if 'ops' in data else None
    op = py_eval(mods, data['op']) if ops is None else None
    cgs = None
    if kind == 'grid':
        if data.get('named'):
            device = getattr(cg, data['named'])
        elif data.get('proto_gates'):
            device = proto_device(mods, qubits, [tuple(sorted(p)) for p in pairs], data['proto_gates'],
                                  py_eval(mods, data['target_sets']) if data.get('target_sets') else None)
        else:
            gateset = py_eval(mods, data['gateset'])
            device = cg.GridDevice(cirq.GridDeviceMetadata(qubit_pairs=[tuple(sorted(p)) for p in pairs], gateset=gateset, all_qubits=qubits))
        gs_obj = device.metadata.gateset
    elif kind == 'aqt':
        device = ca.aqt_device.AQTDevice(cirq.Duration(micros=1), cirq.Duration(micros=1), cirq.Duration(micros=1), qubits)
        gs_obj = device.metadata.gateset
    elif kind == 'pasqal':
        device = cp.PasqalDevice(qubits)
        gs_obj = device.gateset
    elif kind == 'pasqal_virtual':
        device = cp.PasqalVirtualDevice(data['radius'], qubits)
        gs_obj, cgs = device.gateset, cirq.Gateset(cirq.AnyIntegerPowerGateFamily(cirq.CZPowGate))
    else:
        device = ci.IonQAPIDevice(len(qubits))
        gs_obj = device.gateset
    if ops is not None:
        circ = py_eval(mods, data['moments'])
        try:
            device.validate_circuit(circ)
            got = True
        except ValueError:
            got = False
        wants = [spec_accepts(cirq, kind, o, gs_obj, set(qubits), pairs, (cirq.MeasurementGate, cirq.WaitGate), cgs) for o in circ.all_operations()]
        print(f'replay: device answers {got} for the circuit; the statement says {[why for _, why in wants]}')
        return got is all(w for w, _ in wants)
    try:
        device.validate_operation(op)
        got = True
    except ValueError:
        got = False
    want, why = spec_accepts(cirq, kind, op, gs_obj, set(qubits), pairs, (cirq.MeasurementGate, cirq.WaitGate), cgs)
    print(f'replay: device answers {got}; the statement says {why}')
    return got is want


def replay_device_spec(mods, data):
    cirq, cg = mods['cirq'], mods['cirq_google']
    qubits = py_eval(mods, data['qubits'])
    if data['kind'] == 'device_metadata':
        pairs = py_eval(mods, data['pairs'])
        device = cg.GridDevice(cirq.GridDeviceMetadata(qubit_pairs=pairs, gateset=cirq.Gateset(cirq.CZ), all_qubits=qubits))
        pairset = {frozenset(p) for p in pairs}
    else:
        target_sets = py_eval(mods, data['target_sets'])
        device = proto_device(mods, qubits, None, data['gate_names'], target_sets)
        pairset = spec_couplings(target_sets)
    prob = metadata_problem(device, set(qubits), pairset)
    print(f'replay: reported qubits / couplings: {prob[1] if prob else "as specified"}')
    ok = prob is None
    reps = spec_gate_representatives(mods)
    if 'op' in data:
        op = py_eval(mods, data['op'])
        got = device_answer(lambda: device.validate_operation(op))
        want, why = spec_statement(cirq, reps, data['gate_names'], op, data['rep'], set(qubits), pairset)
        print(f'replay: validate_operation({op!r}) -> {got}; the specification says {why}')
        ok = ok and got is want
    if 'ops' in data:
        ops = [py_eval(mods, t) for t in data['ops']]
        got = device_answer(lambda: device.validate_circuit(cirq.Circuit(ops, strategy=cirq.InsertStrategy.NEW)))
        want = all(len(o.qubits) != 2 or frozenset(o.qubits) in pairset for o in ops)
        print(f'replay: validate_circuit -> {got}; every operation on a listed coupling: {want}')
        ok = ok and got is want
    return ok


def replay(ctx, data):
    mods = env.import_cirq(('cirq_google', 'cirq_ionq', 'cirq_aqt', 'cirq_pasqal'))
    if data.get('kind') == 'broken':
        print('replay: this file names obligations/correspondences that no longer check; re-run ./check C07')
        return False
    if data.get('kind') == 'device':
        return replay_device(mods, data)
    if data.get('kind') in ('device_spec', 'device_metadata'):
        return replay_device_spec(mods, data)
    if data.get('kind') == 'device_spec_invalid':
        print('replay: re-run `VERIF_SEED=%s ./check C07` (fixed invalid specification: %s)' % (data.get('seed'), data.get('label')))
        return False
    if data.get('kind') == 'fsim_family':
        cirq, cg = mods['cirq'], mods['cirq_google']
        targets = [getattr(cirq, t) if hasattr(cirq, t) and isinstance(getattr(cirq, t), type) else py_eval(mods, t) for t in data['targets']]
        check_types = [getattr(cirq, t) for t in data['check_types']]
        fam = cg.FSimGateFamily(gates_to_accept=targets, gate_types_to_check=check_types, allow_symbols=data['allow_symbols'])
        g = py_eval(mods, data['gate'])
        got = answer(lambda: g in fam)
        may, must, why = fsim_reference(cirq, targets, check_types or fsim_types(cirq), g)
        print(f'replay: {g!r} in {fam!r} -> {got}; by the matrices: {why} (may accept: {may}, must accept: {must})')
        return (got is True and may) or (got is False and not must)
    if data.get('kind') == 'cop_membership':
        cirq = mods['cirq']
        gsets = {t: make_target(mods, t) for t in TARGETS}
        gsets.update(extra_gatesets(mods))
        gsets.update(fsim_gatesets(mods))
        gs = gsets[data['gateset']]
        op = cirq.read_json(json_text=data['op_json'])
        ans_in, ans_val = answer(lambda: op in gs), answer(lambda: gs.validate(op))
        want, why = reference_accepts(cirq, gs, op, False)
        print(f'replay: gateset {data["gateset"]}: `op in gateset` -> {ans_in}, validate -> {ans_val} for {show_op(cirq, op)}; it stands for '
              f'[{", ".join(show_op(cirq, o) for o in stands_for(cirq, op)[:6])}]; the rule says {want}' + (f' ({show_op(cirq, why)} is not accepted)' if why is not None else ''))
        return (ans_in is True) == want and (ans_val is True) == want
    if data.get('kind') in ('membership', 'mapping_manager'):
        print('replay: re-run `VERIF_SEED=%s ./check C07` (the case is one row of a model evaluation): %s' % (data.get('seed'), data.get('item') or data.get('swaps')))
        return False
    holds, detail, sig, _ = confirm(mods, data)
    print('replay:', detail, sig or '')
    return holds
