"""C05 — circuits stay well-formed and order-preserving under any edit history (DESIGN 5/C05)."""
import collections, json
from .. import env, coq, runner

LEVEL = 'proof'
META = dict(
    text='Coq theorems over a hand-written Gallina model of Circuit/Moment (operations as records of uid, qubits, measurement keys, control keys; moments as lists; the placement cache and the lazy summaries as explicit state): for every finite history of modelled public calls the moments keep pairwise-disjoint qubits, the multiset of operations is the old one plus the inserted minus the removed ones, the placement cache whenever present equals the summary recomputed from the moments, and valid lazy summaries equal their recomputation; the model is evaluated by vm_compute on the same random edit histories the implementation ran (moments as uid lists, return values, exception classes, queries compared after every call), and spec-level oracles (disjointness, multiset, the order clauses of the property text, queries of a freshly rebuilt circuit) run on the real code.',
    note='Trusted: Coq kernel; the Python adapters in vf/checks/c05.py (op vocabulary, calling Cirq, printing Gallina literals, the spec-level oracles). The quantifier over histories is proved for the model and only sampled for the model-implementation correspondence. Diagrams, JSON, deprecated helpers are not covered.',
    technique='Rocq/Coq proof (induction over call lists) over an executable Gallina model + vm_compute correspondence on random edit histories + spec-level oracles on the implementation',
)

NQ = 5          # qubits 0..NQ-1
NK = 3          # measurement keys 0..NK-1
STRATS = ['EARLIEST', 'NEW', 'INLINE', 'NEW_THEN_INLINE', 'LATEST']
ERRS = {'ValueError': 'ValueError', 'IndexError': 'IndexError', 'TypeError': 'TypeError'}


# --------------------------------------------------------------------------------------------------
# operation vocabulary: every operation carries a uid that survives every edit the property names
# --------------------------------------------------------------------------------------------------
class Vocab:
    def __init__(self, cirq):
        import numpy as np
        import sympy
        self.cirq = cirq
        vocab = self

        class UidTag:
            def __init__(self, uid):
                self.uid = uid

            def __eq__(self, other):
                return isinstance(other, UidTag) and other.uid == self.uid

            def __hash__(self):
                return hash(('UidTag', self.uid))

            def __repr__(self):
                return f'UidTag({self.uid})'

        @cirq.value_equality
        class U(cirq.Gate):
            """n-qubit gate identified by uid; sign -1 is its inverse; params make it parameterized."""

            def __init__(self, uid, n, sign=1, params=()):
                self.uid, self.n, self.sign, self.params = uid, n, sign, tuple(params)

            def _num_qubits_(self):
                return self.n

            def _value_equality_values_(self):
                return (self.uid, self.n, self.sign, self.params)

            def __pow__(self, e):
                if e == -1:
                    return U(self.uid, self.n, -self.sign, self.params)
                if e == 1:
                    return self
                return NotImplemented

            def _is_parameterized_(self):
                return bool(self.params)

            def _parameter_names_(self):
                return {f'p{p}' for p in self.params}

            def _resolve_parameters_(self, resolver, recursive):
                return U(self.uid, self.n, self.sign, ())

            def _has_unitary_(self):
                return not self.params

            def _unitary_(self):
                if self.params:
                    return NotImplemented
                t = 0.07 * self.uid * self.sign
                if self.n == 0:
                    return np.array([[np.exp(1j * t)]])
                one = cirq.unitary([cirq.X, cirq.Y, cirq.H][self.uid % 3] ** t)
                m = one
                for _ in range(self.n - 1):
                    m = np.kron(m, one)
                if self.n >= 2:      # an entangling diagonal factor so that multi-qubit gates do not factorise
                    m = m @ np.diag(np.exp(1j * t * np.arange(2 ** self.n) ** 2))
                return m

            def __repr__(self):
                return f'U({self.uid},{self.n},{self.sign},{self.params})'

        @cirq.value_equality
        class KOp(cirq.Operation):
            """An operation with arbitrary measurement keys and control keys (what circuit.py reads of an op)."""

            def __init__(self, uid, qubits, mkeys, ckeys):
                self.uid, self._qubits, self.mkeys, self.ckeys = uid, tuple(qubits), tuple(mkeys), tuple(ckeys)

            @property
            def qubits(self):
                return self._qubits

            def with_qubits(self, *new_qubits):
                return KOp(self.uid, new_qubits, self.mkeys, self.ckeys)

            def _value_equality_values_(self):
                return (self.uid, self._qubits, self.mkeys, self.ckeys)

            def _measurement_key_objs_(self):
                return frozenset(cirq.MeasurementKey(f'k{k}') for k in self.mkeys)

            def _control_keys_(self):
                return frozenset(cirq.MeasurementKey(f'k{k}') for k in self.ckeys)

            def __repr__(self):
                return f'KOp({self.uid},{self._qubits},{self.mkeys},{self.ckeys})'

        self.UidTag, self.U, self.KOp = UidTag, U, KOp
        self.qubits = [cirq.LineQubit(i) for i in range(NQ + 3)]

    def q(self, i):
        return self.cirq.LineQubit(i)

    def build(self, uid, spec):
        cirq = self.cirq
        qs = [self.q(i) for i in spec['q']]
        kind = spec['kind']
        if kind == 'u':
            return self.U(uid, len(qs), 1, spec['pn']).on(*qs)
        if kind == 'meas':
            return cirq.measure(*qs, key=f'k{spec["mk"][0]}').with_tags(self.UidTag(uid))
        if kind == 'cc':
            return self.U(uid, len(qs)).on(*qs).with_classical_controls(*[f'k{k}' for k in spec['ck']])
        if kind == 'kop':
            return self.KOp(uid, qs, spec['mk'], spec['ck'])
        raise AssertionError(kind)

    def uid_of(self, op):
        cirq = self.cirq
        for t in getattr(op, 'tags', ()):
            if isinstance(t, self.UidTag):
                return t.uid
        inner = op.untagged
        if isinstance(inner, cirq.ClassicallyControlledOperation):
            inner = inner.without_classical_controls()
        if isinstance(inner, self.KOp):
            return inner.uid
        g = inner.gate
        if isinstance(g, self.U):
            return g.uid * g.sign
        raise AssertionError(f'operation without uid: {op!r}')


def spec_invertible(spec):
    return spec['kind'] == 'u'


# --------------------------------------------------------------------------------------------------
# a world: the op table of one history and the circuit under test
# --------------------------------------------------------------------------------------------------
class World:
    def __init__(self, cirq, vocab, ops=None):
        self.cirq, self.v = cirq, vocab
        self.ops = {}        # uid -> spec
        self.objs = {}       # uid -> cirq operation
        self.c = cirq.Circuit()
        for uid, spec in (ops or {}).items():
            self.add_op(int(uid), spec)

    def add_op(self, uid, spec):
        self.ops[uid] = spec
        self.objs[uid] = self.v.build(uid, spec)

    def op(self, uid):
        if uid < 0:      # the inverse of a U operation
            return self.objs[-uid] ** -1
        return self.objs[uid]

    def item(self, it):
        if isinstance(it, dict):
            return self.cirq.Moment([self.op(u) for u in it['m']])
        return self.op(it)

    def items(self, its, rng=None):
        out = [self.item(it) for it in its]
        return out

    def moments_uids(self, c=None):
        c = self.c if c is None else c
        return [[self.v.uid_of(op) for op in m.operations] for m in c.moments]

    def spec(self, uid):
        return self.ops[abs(uid)]


def item_uids(its):
    out = []
    for it in its:
        out.extend(it['m'] if isinstance(it, dict) else [it])
    return out


def strat(cirq, name):
    return getattr(cirq.InsertStrategy, name)


def canon_err(e):
    return ('err', ERRS.get(type(e).__name__, 'OtherError'))


# ---- running one call on the implementation -> canonical result -----------------------------------
def exec_call(w, call):
    """Runs the call on the real code; returns a canonical result tuple.  Construction calls replace w.c."""
    cirq, k = w.cirq, call['c']
    try:
        if k == 'empty':
            w.c = cirq.Circuit()
            return ('none',)
        if k == 'new':
            w.c = cirq.Circuit(w.items(call['items']), strategy=strat(cirq, call['s']))
            return ('none',)
        if k == 'copy':
            w.c = w.c.copy()
            return ('none',)
        if k == 'with_tags':
            w.c = w.c.with_tags('t')
            return ('none',)
        if k == 'insert':
            r = w.c.insert(call['i'], w.items(call['items']), strat(cirq, call['s']))
            return ('int', int(r))
        if k == 'append':
            r = w.c.append(w.items(call['items']), strat(cirq, call['s']))
            assert r is None
            return ('none',)
        if k == 'q_all_qubits':
            return ('set', sorted(q.x for q in w.c.all_qubits()))
        if k == 'q_freeze':
            return ('moms', w.moments_uids(w.c.freeze()))
        if k == 'q_len':
            return ('int', len(w.c))
    except (ValueError, IndexError, TypeError) as e:
        return canon_err(e)
    raise AssertionError(f'unknown call {k}')


# ---- Gallina literals ---------------------------------------------------------------------------------
Z, ZL = coq.zlit, coq.zlist


def coq_op(w, uid):
    s = w.spec(uid)
    inv = 'true' if spec_invertible(s) else 'false'
    return f'(O {Z(uid)} {ZL(s["q"])} {ZL(s["mk"])} {ZL(s["ck"])} {ZL(s["pn"])} {inv})'


def coq_moment(w, uids):
    return '[' + '; '.join(coq_op(w, u) for u in uids) + ']'


def coq_items(w, its):
    return '[' + '; '.join(f'IMom {coq_moment(w, it["m"])}' if isinstance(it, dict) else f'IOp {coq_op(w, it)}' for it in its) + ']'


def coq_call(w, call):
    k = call['c']
    if k == 'empty':
        return 'CEmpty'
    if k == 'new':
        return f'CNew {coq_items(w, call["items"])} {call["s"]}'
    if k == 'copy':
        return 'CCopy'
    if k == 'with_tags':
        return 'CWithTags'
    if k == 'insert':
        return f'CInsert {Z(call["i"])} {coq_items(w, call["items"])} {call["s"]}'
    if k == 'append':
        return f'CAppend {coq_items(w, call["items"])} {call["s"]}'
    if k == 'q_all_qubits':
        return 'QAllQubits'
    if k == 'q_freeze':
        return 'QFreeze'
    if k == 'q_len':
        return 'QLen'
    raise AssertionError(k)


def coq_res(r):
    t = r[0]
    if t == 'none':
        return 'RNone'
    if t == 'int':
        return f'RInt {Z(r[1])}'
    if t == 'err':
        return f'RErr {r[1]}'
    if t == 'set':
        return f'RSet {ZL(r[1])}'
    if t == 'moms':
        return 'RMoms ' + coq_zll(r[1])
    raise AssertionError(t)


def coq_zll(ms):
    return '[' + '; '.join(ZL(m) for m in ms) + ']'


# ---- generation -----------------------------------------------------------------------------------------
class Gen:
    """Draws calls adaptively (it looks at the current circuit to aim indices and operands)."""

    def __init__(self, rng, w):
        self.rng, self.w = rng, w
        self.next_uid = 1

    def new_op(self):
        rng = self.rng
        uid = self.next_uid
        self.next_uid += 1
        r = rng.random()
        if r < 0.55:
            n = rng.choice([1, 1, 1, 2, 2, 3, 0])
            spec = dict(q=rng.sample(range(NQ), n), mk=[], ck=[], pn=[], kind='u')
            if rng.random() < 0.12:
                spec['pn'] = [rng.randrange(3)]
        elif r < 0.72:
            n = rng.choice([1, 1, 2])
            spec = dict(q=rng.sample(range(NQ), n), mk=[rng.randrange(NK)], ck=[], pn=[], kind='meas')
        elif r < 0.88:
            n = rng.choice([1, 1, 2, 0])
            spec = dict(q=rng.sample(range(NQ), n), mk=[], ck=rng.sample(range(NK), rng.choice([1, 1, 2])), pn=[], kind='cc')
        else:
            n = rng.choice([0, 1, 1, 2])
            mk = rng.sample(range(NK), rng.choice([0, 1, 2]))
            ck = [k for k in rng.sample(range(NK), rng.choice([0, 1, 2])) if k not in mk]
            spec = dict(q=rng.sample(range(NQ), n), mk=mk, ck=ck, pn=[], kind='kop')
        self.w.add_op(uid, spec)
        return uid

    def new_moment(self):
        rng = self.rng
        used, uids = set(), []
        for _ in range(rng.choice([0, 1, 1, 2, 3])):
            u = self.new_op()
            qs = self.w.ops[u]['q']
            if used & set(qs):
                continue
            used |= set(qs)
            uids.append(u)
        return {'m': uids}

    def items(self, lo=0, hi=4):
        rng = self.rng
        n = rng.randint(lo, hi)
        out = []
        for _ in range(n):
            out.append(self.new_moment() if rng.random() < 0.2 else self.new_op())
        return out

    def index(self):
        rng, n = self.rng, len(self.w.c)
        r = rng.random()
        if r < 0.6:
            return rng.randint(0, n)
        if r < 0.8:
            return rng.randint(-n - 2, -1)
        return rng.randint(n, n + 3)

    def strategy(self):
        return self.rng.choice(['EARLIEST', 'EARLIEST', 'EARLIEST', 'NEW', 'INLINE', 'NEW_THEN_INLINE', 'LATEST'])

    def call(self):
        rng = self.rng
        r = rng.random()
        if r < 0.30:
            return dict(c='insert', i=self.index(), items=self.items(), s=self.strategy())
        if r < 0.62:
            return dict(c='append', items=self.items(), s=self.strategy() if rng.random() < 0.4 else 'EARLIEST')
        if r < 0.68:
            return dict(c='new', items=self.items(0, 6), s=self.strategy())
        if r < 0.70:
            return dict(c='empty')
        if r < 0.74:
            return dict(c='copy')
        if r < 0.77:
            return dict(c='with_tags')
        return dict(c=rng.choice(['q_all_qubits', 'q_freeze', 'q_len']))


# ---- spec-level oracles on the real code ---------------------------------------------------------------
def oracle_wf(w):
    """Every moment holds operations on pairwise disjoint qubits (read off the operations themselves)."""
    for i, m in enumerate(w.c.moments):
        seen = set()
        for op in m.operations:
            for q in op.qubits:
                if q in seen:
                    return f'moment {i} has two operations on {q}'
                seen.add(q)
    return None


def expected_multiset(before, call, result):
    """Multiset of uids the property prescribes after the call (None = not prescribed / any)."""
    k = call['c']
    ok = result[0] != 'err'
    b = collections.Counter(before)
    if k in ('empty',):
        return collections.Counter(), None
    if k == 'new':
        return (collections.Counter(item_uids(call['items'])), None) if ok else (b, None)
    if k in ('insert', 'append'):
        full = b + collections.Counter(item_uids(call['items']))
        return (full, None) if ok else (full, b)       # on failure: between old and old + inserted
    return b, None


def oracle_multiset(before, after, call, result):
    exp, lower = expected_multiset(before, call, result)
    a = collections.Counter(after)
    if lower is None:
        if a != exp:
            lost = sorted((exp - a).elements())
            dup = sorted((a - exp).elements())
            return f'operations lost {lost} / duplicated or invented {dup}'
        return None
    if (lower - a) or (a - exp):
        return f'after a failing call: lost {sorted((lower - a).elements())}, extra {sorted((a - exp).elements())}'
    return None


def rebuilt(w):
    """A freshly built circuit with equal moments (new Moment objects, no cached state)."""
    cirq = w.cirq
    return cirq.Circuit([cirq.Moment(list(m.operations)) for m in w.c.moments], tags=w.c.tags)


def oracle_queries(w, rng, heavy=False):
    """Every query answers as a freshly rebuilt equal circuit would."""
    cirq, c = w.cirq, w.c
    f = rebuilt(w)
    probs = []

    def cmp(name, a, b):
        if a != b:
            probs.append(f'{name}: circuit says {a!r}, a rebuilt equal circuit says {b!r}')
    cmp('all_qubits', c.all_qubits(), f.all_qubits())
    cmp('all_measurement_key_objs', c.all_measurement_key_objs(), f.all_measurement_key_objs())
    cmp('is_parameterized', cirq.is_parameterized(c), cirq.is_parameterized(f))
    cmp('parameter_names', cirq.parameter_names(c), cirq.parameter_names(f))
    cmp('is_measurement', cirq.is_measurement(c), cirq.is_measurement(f))
    cmp('control_keys', cirq.control_keys(c), cirq.control_keys(f))
    cmp('are_all_measurements_terminal', c.are_all_measurements_terminal(), f.are_all_measurements_terminal())
    cmp('len', len(c), len(f))
    cmp('==', c == f, True)
    cmp('freeze', c.freeze() == f.freeze(), True)
    cmp('freeze.moments', tuple(c.freeze().moments), tuple(f.moments))
    cmp('frozen all_qubits', c.freeze().all_qubits(), f.freeze().all_qubits())
    cmp('frozen keys', c.freeze().all_measurement_key_objs(), f.freeze().all_measurement_key_objs())
    n = len(c)
    for _ in range(3):
        qs = [w.v.q(i) for i in rng.sample(range(NQ), rng.choice([1, 1, 2]))]
        s = rng.randint(0, n + 1)
        md = rng.choice([None, None, 0, 1, 3])
        cmp('next_moment_operating_on', c.next_moment_operating_on(qs, s, md), f.next_moment_operating_on(qs, s, md))
        e = rng.choice([None, rng.randint(0, n + 2)])
        cmp('prev_moment_operating_on', c.prev_moment_operating_on(qs, e, md), f.prev_moment_operating_on(qs, e, md))
        cmp('operation_at', c.operation_at(qs[0], s), f.operation_at(qs[0], s))
    start = {w.v.q(i): rng.randint(0, max(n, 1)) for i in rng.sample(range(NQ), rng.randint(1, NQ))}
    cmp('reachable_frontier_from', c.reachable_frontier_from(start), f.reachable_frontier_from(start))
    end = {q: s + rng.randint(0, 3) for q, s in start.items() if rng.random() < 0.7}
    cmp('findall_operations_between', c.findall_operations_between(start, end), f.findall_operations_between(start, end))
    if heavy and len(c.all_qubits()) <= 4 and cirq.has_unitary(f):
        import numpy as np
        order = sorted(f.all_qubits())
        a, b = c.unitary(qubit_order=order), f.unitary(qubit_order=order)
        if a.shape != b.shape or not np.allclose(a, b, atol=1e-9):
            probs.append('unitary differs from that of a rebuilt equal circuit')
    return probs


# ---- one history ---------------------------------------------------------------------------------------
def run_history(w, calls, rng, ctx=None, gen=None, n_calls=0):
    """Executes given calls (or draws n_calls with gen).  Returns (calls, trace, problems)."""
    out_calls, trace, problems = [], [], []
    it = iter(calls) if gen is None else None
    for step in range(n_calls if gen is not None else len(calls)):
        call = gen.call() if gen is not None else next(it)
        before = [u for m in w.moments_uids() for u in m]
        res = exec_call(w, call)
        moms = w.moments_uids()
        after = [u for m in moms for u in m]
        out_calls.append(call)
        trace.append((res, moms))
        p = oracle_wf(w)
        if p:
            problems.append((step, 'wf', p))
        p = oracle_multiset(before, after, call, res)
        if p:
            problems.append((step, 'multiset', p))
        if call['c'].startswith('q_'):
            for p in oracle_queries(w, rng):
                problems.append((step, 'query', p))
    for p in oracle_queries(w, rng, heavy=True):
        problems.append((len(out_calls) - 1, 'query', p))
    return out_calls, trace, problems


def history_doc(w, calls):
    return dict(kind='history', ops={str(u): s for u, s in w.ops.items()}, calls=calls)


def nontrivial(w, calls, trace):
    """>= 3 mutating calls, >= 2 operations sharing a qubit or key, a moment with >= 2 operations."""
    muts = sum(1 for c in calls if not c['c'].startswith('q_'))
    moms = trace[-1][1] if trace else []
    return muts >= 3 and sum(len(m) for m in moms) >= 3 and any(len(m) >= 2 for m in moms)


# ---- the check -----------------------------------------------------------------------------------------
def run(ctx):
    cirq = env.import_cirq()
    ctx.rule = ('random edit histories of 1-40 public calls starting from Circuit(); operations on 5 qubits and 3 keys '
                '(plain, parameterized, measurement, classically controlled, multi-key, zero-qubit), whole Moments, empty moments, '
                'all five strategies, indices negative/past the end, queries interleaved; after every call the moments (uid lists), '
                'return value / exception class are compared with the Gallina model; non-trivial = >= 3 mutating calls, >= 3 operations '
                'left and a moment with >= 2 operations; distinct by canonical history')
    ctx.assumptions += ['vf/checks/c05.py adapters: op vocabulary (uid-carrying gates/operations), canonicalisation of results, Gallina literal printing',
                        'spec-level oracles in vf/checks/c05.py are the reading of the property text used to classify disagreements']
    ctx.set_obligations(coq.compile_props('C05'))
    n = 300 if ctx.tier == 'quick' else 6000
    history_stream(ctx, cirq, n)


def history_stream(ctx, cirq, n, shard=150):
    vocab = Vocab(cirq)
    hists = []
    for i in range(n):
        w = World(cirq, vocab)
        gen = Gen(ctx.rng, w)
        ncalls = ctx.rng.choice([1, 2, 3, 5, 8, 12, 20, 30, 40])
        calls, trace, problems = run_history(w, None, ctx.rng, ctx, gen, ncalls)
        hists.append((w, calls, trace))
        ctx.count('history', history_doc(w, calls), nontrivial(w, calls, trace),
                  sample=dict(calls=calls[:4], final_moments=trace[-1][1]))
        for c in calls:
            ctx.streams['call:' + c['c']] += 1
        for (step, kind, what) in problems:
            report_problem(ctx, cirq, vocab, w, calls, step, kind, what)
    for s in range(0, len(hists), shard):
        part = hists[s:s + shard]
        text = ('From Coq Require Import ZArith List Bool.\nFrom VF Require Import Circ.Moments Circ.Placement Circ.Insert '
                'Circ.History Circ.Compare.\nImport ListNotations.\nOpen Scope Z_scope.\n')
        text += 'Definition hists : list (list call * list (res * list (list Z))) := [\n'
        rows = []
        for (w, calls, trace) in part:
            cs = '[' + ';\n   '.join(coq_call(w, c) for c in calls) + ']'
            ts = '[' + ';\n   '.join(f'({coq_res(r)}, {coq_zll(m)})' for r, m in trace) + ']'
            rows.append(f'(({cs}),\n  ({ts}))')
        text += ';\n'.join(rows) + '].\n'
        text += 'Eval vm_compute in bad_histories hists.\n'
        vals = coq.parse_evals(coq.coq_eval(f'c05_hist_{ctx.seed}_{s}', text))
        assert len(vals) == 1, vals
        nums = coq.parse_nat_list(vals[0])
        for hi, si in zip(nums[0::2], nums[1::2]):
            w, calls, trace = part[hi]
            ctx.mark_broken('correspondence:history',
                            f'model and implementation differ at step {si} ({calls[si]}) of history {s + hi}: implementation gave {trace[si]}')
            spec_search(ctx, cirq, vocab, w, calls, si)


def report_problem(ctx, cirq, vocab, w, calls, step, kind, what):
    """A spec-level oracle failed on the real code: minimise and report."""
    doc = history_doc(w, calls[:step + 1])
    doc = shrink(cirq, vocab, doc, kind)
    sig = signature(doc, kind)
    ctx.violation(sig, f'{kind}: {what}; minimised history: {json.dumps(doc["calls"])}', dict(doc, oracle=kind))


def spec_search(ctx, cirq, vocab, w, calls, step):
    """Model and implementation disagree: decide on the real code whether the property's own statement fails."""
    doc = history_doc(w, calls[:step + 1])
    probs = replay_doc(cirq, vocab, doc)
    for (st, kind, what) in probs:
        report_problem(ctx, cirq, vocab, w, calls, st, kind, what)


def replay_doc(cirq, vocab, doc, seed=0):
    import random
    w = World(cirq, vocab, doc['ops'])
    try:
        _, _, problems = run_history(w, doc['calls'], random.Random(seed))
    except Exception as e:      # a shrunk history may be ill-formed for the harness itself
        return [(-1, 'harness', repr(e))]
    return problems


def shrink(cirq, vocab, doc, kind):
    """Remove calls, then operands, while an oracle of the same kind still fails."""
    def fails(d):
        return any(k == kind for (_, k, _) in replay_doc(cirq, vocab, d))
    if not fails(doc):
        return doc
    calls = list(doc['calls'])
    changed = True
    while changed:
        changed = False
        for i in range(len(calls) - 1, -1, -1):
            cand = dict(doc, calls=calls[:i] + calls[i + 1:])
            if fails(cand):
                calls = cand['calls']
                changed = True
        for i, c in enumerate(calls):
            its = c.get('items')
            if not its:
                continue
            for j in range(len(its) - 1, -1, -1):
                c2 = dict(c, items=its[:j] + its[j + 1:])
                cand = dict(doc, calls=calls[:i] + [c2] + calls[i + 1:])
                if fails(cand):
                    calls = cand['calls']
                    its = c2['items']
                    changed = True
    used = set()
    for c in calls:
        used |= {abs(u) for u in item_uids(c.get('items', []))}
    return dict(doc, calls=calls, ops={u: s for u, s in doc['ops'].items() if int(u) in used})


def signature(doc, kind):
    return f'{kind}:' + '>'.join(c['c'] + (':' + c['s'] if 's' in c else '') for c in doc['calls'])


def replay(ctx, data):
    cirq = env.import_cirq()
    vocab = Vocab(cirq)
    if data.get('kind') != 'history':
        print('nothing to replay for kind', data.get('kind'))
        return False
    probs = replay_doc(cirq, vocab, data)
    for p in probs:
        print('  ', p)
    return not probs
