"""C05 — circuits stay well-formed and order-preserving under any edit history (DESIGN 5/C05)."""
import collections, json, random
from .. import env, coq, runner

LEVEL = 'proof'
META = dict(
    text='Coq theorems over a hand-written Gallina model of Circuit/Moment in the shape of circuit.py (operations as records of uid, qubits, measurement keys, control keys, parameter names; moments as lists; the placement cache and the five lazy summaries as explicit state; 37 public call forms): for every finite history the moments keep pairwise-disjoint qubits, the placement cache, whenever present, equals the summary recomputed from the moments, every lazily cached summary that is marked valid equals its recomputation, and no insert/append raises; insert with any strategy/index/operation tree loses or duplicates nothing and keeps the existing operations in order; for one operation (every strategy) and for append/constructor with any tree each operation lands behind every conflicting one and never across one; the cached append builds exactly the moments of the uncached insert at the end, and after any history insert/append (every strategy, index, tree) build the moments the same call builds on a freshly rebuilt equal circuit; the index insert returns (every strategy, index, tree, cached or not) is not in front of the insertion point and the moments from it on are an untouched tail of the moments that stood at or behind the insertion point, so every inserted operation lies in front of it; insert_into_range (one forward-moving cursor) leaves the operations it writes into the range in the order given, as a subsequence of all_operations(), for every occupancy of the range; batch_* edits are atomic; closed forms for NEW/INLINE placement and specifications of the two scans. The model is evaluated by vm_compute on the same edit histories the implementation ran (random histories, plus a fixed grid: a circuit whose append-placement cache is alive, one edit of every kind aimed at / behind the last operation on each qubit and key, then appends onto every qubit and key; and a second fixed grid: trees of every conflict shape inserted at every index of small circuits with each strategy, followed by an insert at the returned index; and a third fixed grid: all 64 three-moment circuits whose moments hold nothing / an operation on a / on b / on both, every range [s, e) and frontier start, and trees whose consecutive operations are tied through one qubit and differ on another, written by insert_into_range / insert_at_frontier; moments as uid lists, return values, exception classes, queries compared after every call), and spec-level oracles (disjointness, multiset, documented exceptions, atomicity, the order clauses of the property text, placement per strategy for one operation and for whole trees at the end, the documented meaning of the index insert / insert_into_range return (every inserted operation in front of it; follow-up inserts at it with all five strategies land after every conflicting operation of the first call; chained inserts keep call order), every edit and every query compared with a freshly rebuilt equal circuit) run on the real code. Several circuit objects (Circ/Store.v): the circuit under edit plus every object put aside (the source a construction expression was evaluated on, or a circuit derived on the side while the source stays under edit); proved: the circuit under edit is what its own calls build, an object put aside is never changed by later calls and is determined by the calls made up to the point it was put aside. Every history is evaluated in that model (trace of the circuit under edit and final contents of everything put aside); on the real code every object put aside (and every frozen view handed out) is re-read after every call and queried against a rebuilt equal circuit at the end; a fourth fixed grid derives a circuit by every expression (copy spellings, with_tags, untagged, slices, +, *, **-1, transform_qubits, zip, concat_ragged, on tagged and untagged circuits, through the frozen view, with filled summaries) and then runs every mutator on the derived circuit or on the source.',
    note='Trusted: Coq kernel; the Python adapters in vf/checks/c05.py (op vocabulary carrying uids, calling Cirq, printing Gallina literals, the spec-level oracles = the reading of the property text). The quantifier over histories is proved for the model and only sampled for the model-implementation correspondence. Proved for the model but only compared on samples for multi-operation mid-circuit inserts: the order clauses; for zip/concat_ragged/insert_at_frontier/batch_replace: conservation of operations. _load_contents_with_earliest_strategy is modelled as sequential cached placement. Tags are not part of the model state: the adapter reads Circuit.tags to render `untagged` (a copy when there are tags, the object itself otherwise). Not covered: diagrams/__str__, JSON, extended slices (step != 1), deprecated helpers. known_findings/C05.json: two defects found by this check were repaired (with_tags kept a stale placement cache; batch_insert mis-shifted later indices) and are guarded by the positive theorems and the oracles; open: concat_ragged and insert_at_frontier ignore key conflicts (kept as refuted theorems whose witnesses are replayed on every run), and two residual batch_insert edge cases (negative indices; shift after a multi-operation group that spills past the next index).',
    technique='Rocq/Coq proof (induction over call lists, invariants of the insertion loops) over an executable Gallina model + vm_compute correspondence on random edit histories + spec-level oracles on the implementation',
)

NQ = 5          # qubits 0..NQ-1
NK = 3          # measurement keys 0..NK-1
STRATS = ['EARLIEST', 'NEW', 'INLINE', 'NEW_THEN_INLINE', 'LATEST']
ERRS = {'ValueError': 'ValueError', 'IndexError': 'IndexError', 'TypeError': 'TypeError'}


# --------------------------------------------------------------------------------------------------
# operation vocabulary: every operation carries a uid that survives every edit the property names
# --------------------------------------------------------------------------------------------------
class Vocab:
    def __init__(self, cirq):
        import numpy as np
        import sympy
        self.cirq = cirq
        vocab = self

        class UidTag:
            def __init__(self, uid):
                self.uid = uid

            def __eq__(self, other):
                return isinstance(other, UidTag) and other.uid == self.uid

            def __hash__(self):
                return hash(('UidTag', self.uid))

            def __repr__(self):
                return f'UidTag({self.uid})'

        @cirq.value_equality
        class U(cirq.Gate):
            """n-qubit gate identified by uid; sign -1 is its inverse; params make it parameterized."""

            def __init__(self, uid, n, sign=1, params=()):
                self.uid, self.n, self.sign, self.params = uid, n, sign, tuple(params)

            def _num_qubits_(self):
                return self.n

            def _value_equality_values_(self):
                return (self.uid, self.n, self.sign, self.params)

            def __pow__(self, e):
                if e == -1:
                    return U(self.uid, self.n, -self.sign, self.params)
                if e == 1:
                    return self
                return NotImplemented

            def _is_parameterized_(self):
                return bool(self.params)

            def _parameter_names_(self):
                return {f'p{p}' for p in self.params}

            def _resolve_parameters_(self, resolver, recursive):
                return U(self.uid, self.n, self.sign, ())

            def _has_unitary_(self):
                return not self.params

            def _unitary_(self):
                if self.params:
                    return NotImplemented
                t = 0.07 * self.uid * self.sign
                if self.n == 0:
                    return np.array([[np.exp(1j * t)]])
                one = cirq.unitary([cirq.X, cirq.Y, cirq.H][self.uid % 3] ** t)
                m = one
                for _ in range(self.n - 1):
                    m = np.kron(m, one)
                if self.n >= 2:      # an entangling diagonal factor so that multi-qubit gates do not factorise
                    m = m @ np.diag(np.exp(1j * t * np.arange(2 ** self.n) ** 2))
                return m

            def __repr__(self):
                return f'U({self.uid},{self.n},{self.sign},{self.params})'

        @cirq.value_equality
        class KOp(cirq.Operation):
            """An operation with arbitrary measurement keys and control keys (what circuit.py reads of an op)."""

            def __init__(self, uid, qubits, mkeys, ckeys):
                self.uid, self._qubits, self.mkeys, self.ckeys = uid, tuple(qubits), tuple(mkeys), tuple(ckeys)

            @property
            def qubits(self):
                return self._qubits

            def with_qubits(self, *new_qubits):
                return KOp(self.uid, new_qubits, self.mkeys, self.ckeys)

            def _value_equality_values_(self):
                return (self.uid, self._qubits, self.mkeys, self.ckeys)

            def _measurement_key_objs_(self):
                return frozenset(cirq.MeasurementKey(f'k{k}') for k in self.mkeys)

            def _control_keys_(self):
                return frozenset(cirq.MeasurementKey(f'k{k}') for k in self.ckeys)

            def __repr__(self):
                return f'KOp({self.uid},{self._qubits},{self.mkeys},{self.ckeys})'

        self.UidTag, self.U, self.KOp = UidTag, U, KOp
        self.qubits = [cirq.LineQubit(i) for i in range(NQ + 3)]

    def q(self, i):
        return self.cirq.LineQubit(i)

    def build(self, uid, spec):
        cirq = self.cirq
        qs = [self.q(i) for i in spec['q']]
        kind = spec['kind']
        if kind == 'u':
            return self.U(uid, len(qs), 1, spec['pn']).on(*qs)
        if kind == 'meas':
            return cirq.measure(*qs, key=f'k{spec["mk"][0]}').with_tags(self.UidTag(uid))
        if kind == 'cc':
            return self.U(uid, len(qs)).on(*qs).with_classical_controls(*[f'k{k}' for k in spec['ck']])
        if kind == 'kop':
            return self.KOp(uid, qs, spec['mk'], spec['ck'])
        raise AssertionError(kind)

    def uid_of(self, op):
        cirq = self.cirq
        for t in getattr(op, 'tags', ()):
            if isinstance(t, self.UidTag):
                return t.uid
        inner = op.untagged
        if isinstance(inner, cirq.ClassicallyControlledOperation):
            inner = inner.without_classical_controls()
        if isinstance(inner, self.KOp):
            return inner.uid
        g = inner.gate
        if isinstance(g, self.U):
            return g.uid * g.sign
        raise AssertionError(f'operation without uid: {op!r}')


def spec_invertible(spec):
    return spec['kind'] == 'u'


# --------------------------------------------------------------------------------------------------
# a world: the op table of one history and the circuit under test
# --------------------------------------------------------------------------------------------------
class World:
    def __init__(self, cirq, vocab, ops=None):
        self.cirq, self.v = cirq, vocab
        self.ops = {}        # uid -> spec (current: transform_qubits retargets the operations it touched)
        self.ops0 = {}       # uid -> spec at creation (what a replay starts from)
        self.objs = {}       # uid -> cirq operation
        self.c = cirq.Circuit()
        for uid, spec in (ops or {}).items():
            self.add_op(int(uid), spec)

    def add_op(self, uid, spec):
        self.ops[uid] = spec
        self.ops0[uid] = spec
        self.objs[uid] = self.v.build(uid, spec)

    def retarget(self, qmap):
        """transform_qubits succeeded: the operations now in the circuit live on other qubits; the uid keeps denoting them."""
        for m in self.c.moments:
            for op in m.operations:
                u = self.v.uid_of(op)
                a = abs(u)
                self.ops[a] = dict(self.ops[a], q=[q.x for q in op.qubits])
                self.objs[a] = op if u > 0 else op ** -1

    def op(self, uid):
        if uid < 0:      # the inverse of a U operation
            return self.objs[-uid] ** -1
        return self.objs[uid]

    def item(self, it):
        if isinstance(it, dict):
            return self.cirq.Moment([self.op(u) for u in it['m']])
        return self.op(it)

    def items(self, its, rng=None):
        out = [self.item(it) for it in its]
        return out

    def moments_uids(self, c=None):
        c = self.c if c is None else c
        return [[self.v.uid_of(op) for op in m.operations] for m in c.moments]

    def spec(self, uid):
        return self.ops[abs(uid)]


def item_uids(its):
    out = []
    for it in its:
        out.extend(it['m'] if isinstance(it, dict) else [it])
    return out


def strat(cirq, name):
    return getattr(cirq.InsertStrategy, name)


def canon_err(e):
    return ('err', ERRS.get(type(e).__name__, 'OtherError'))


QUERIES = ('q_all_qubits', 'q_freeze', 'q_len', 'q_is_meas', 'q_is_param', 'q_pnames', 'q_keys', 'q_next', 'q_prev', 'q_eam', 'q_op_at')
BASIC = ('empty', 'new', 'insert', 'append') + QUERIES
SUMMARY_QUERIES = ('q_all_qubits', 'q_is_param', 'q_pnames', 'q_is_meas', 'q_freeze')
ATOMIC = ('bremove', 'breplace', 'binto', 'binsert')      # documented all-or-nothing
REPLACING = ('new', 'copy', 'with_tags', 'untagged', 'slice', 'add', 'radd', 'mul', 'inv', 'transform', 'zip', 'concat')
CONSTRUCTS = REPLACING + ('empty',)     # expressions whose value is a new circuit object (Circ/Store.v: constructs)
SIDEABLE = ('copy', 'with_tags', 'untagged', 'slice', 'add', 'radd', 'mul', 'inv', 'zip', 'concat')


def returns_self(w, call):
    """The expressions documented to return the circuit object itself (no new object is made)."""
    k = call['c']
    return ((k == 'untagged' and not call.get('frozen') and not w.c.tags)       # 'untagged' of a Circuit without tags
            or (k == 'copy' and call.get('via') == 'nocopy')                    # unfreeze(copy=False)
            or (k == 'with_tags' and bool(call.get('none'))))                   # with_tags() without new tags


def circuit_of(w, moms, frozen=False):
    cirq = w.cirq
    c = cirq.Circuit([cirq.Moment([w.op(u) for u in m]) for m in moms])
    return c.freeze() if frozen else c


# ---- running one call on the implementation -> canonical result -----------------------------------
def exec_call(w, call):
    """Runs the call on the real code; returns a canonical result tuple.  Construction calls replace w.c."""
    cirq, k = w.cirq, call['c']
    if call.get('side'):
        # d = <expression on the circuit>: the new object is put aside (w.side), the variable keeps the source
        src = w.c
        r = exec_call(w, {f: v for f, v in call.items() if f != 'side'})
        derived, w.c = w.c, src
        w.side = None if (r[0] == 'err' or derived is src) else derived
        return r if (r[0] == 'err' or derived is src) else ('moms', w.moments_uids(derived))
    fz = call.get('frozen', False)
    me = (lambda: w.c.freeze()) if fz else (lambda: w.c)
    back = (lambda r: r.unfreeze()) if fz else (lambda r: r)
    try:
        if k == 'empty':
            w.c = cirq.Circuit()
            return ('none',)
        if k == 'new':
            w.c = cirq.Circuit(w.items(call['items']), strategy=strat(cirq, call['s']))
            return ('none',)
        if k == 'copy':
            via = call.get('via', 'copy')
            if via == 'copymod':
                import copy as _copy
                w.c = _copy.copy(w.c)
            elif via == 'nocopy':
                w.c = w.c.unfreeze(copy=False)
            elif via == 'frozen_nocopy':
                w.c = w.c.freeze().unfreeze(copy=False)
            else:
                w.c = w.c.copy() if via == 'copy' else (w.c.freeze().unfreeze() if via == 'freeze' else w.c.unfreeze())
            return ('none',)
        if k == 'with_tags':
            w.c = w.c.with_tags() if call.get('none') else w.c.with_tags('t')
            return ('none',)
        if k == 'untagged':
            w.c = back(me().untagged)
            return ('none',)
        if k == 'slice':
            w.c = back(me()[call['a']:call['b']])
            return ('none',)
        if k == 'add':
            other = circuit_of(w, [it['m'] for it in call['items']], call.get('ofrozen', False)) if call.get('circ') else w.items(call['items'])
            w.c = back(me() + other)
            return ('none',)
        if k == 'radd':
            w.c = back(w.items(call['items']) + me())
            return ('none',)
        if k == 'mul':
            w.c = back(call['n'] * me() if call.get('r') else me() * call['n'])
            return ('none',)
        if k == 'inv':
            w.c = back(me() ** -1)
            return ('none',)
        if k == 'transform':
            w.c = w.c.transform_qubits({w.v.q(a): w.v.q(b) for a, b in call['f']})
            w.retarget(call['f'])
            return ('none',)
        if k in ('zip', 'concat'):
            others = [circuit_of(w, o, i % 2 == 1 and call.get('ofrozen', False)) for i, o in enumerate(call['others'])]
            f = (lambda c: c.zip) if k == 'zip' else (lambda c: c.concat_ragged)
            align = call['align'] if call.get('astr') else getattr(cirq.Alignment, call['align'])
            w.c = back(f(me())(*others, align=align))
            return ('none',)
        if k == 'insert':
            r = w.c.insert(call['i'], w.items(call['items']), strat(cirq, call['s']))
            return ('int', int(r))
        if k == 'append':
            if call.get('iadd') and call['s'] == 'EARLIEST':
                w.c += w.items(call['items'])
                return ('none',)
            r = w.c.append(w.items(call['items']), strat(cirq, call['s']))
            assert r is None
            return ('none',)
        if k == 'range':
            return ('int', int(w.c.insert_into_range(w.items(call['items']), call['s'], call['e'])))
        if k == 'frontier':
            f = None if call['f'] is None else collections.defaultdict(int, {w.v.q(q): i for q, i in call['f']})
            r = w.c.insert_at_frontier(w.items(call['items']), call['start'], f)
            return ('front', sorted((q.x, int(i)) for q, i in r.items()))
        if k == 'bremove':
            w.c.batch_remove([(i, w.op(u)) for i, u in call['rs']])
            return ('none',)
        if k == 'breplace':
            w.c.batch_replace([(i, w.op(u), w.op(n)) for i, u, n in call['rs']])
            return ('none',)
        if k == 'binto':
            w.c.batch_insert_into([(i, [w.op(u) for u in us]) for i, us in call['rs']])
            return ('none',)
        if k == 'binsert':
            w.c.batch_insert([(i, w.items(its)) for i, its in call['ins']])
            return ('none',)
        if k == 'clear':
            w.c.clear_operations_touching([w.v.q(q) for q in call['q']], call['idx'])
            return ('none',)
        if k == 'setitem':
            w.c[call['i']] = cirq.Moment([w.op(u) for u in call['m']])
            return ('none',)
        if k == 'setslice':
            w.c[call['a']:call['b']] = [cirq.Moment([w.op(u) for u in m]) for m in call['ms']]
            return ('none',)
        if k == 'delitem':
            del w.c[call['i']]
            return ('none',)
        if k == 'delslice':
            del w.c[call['a']:call['b']]
            return ('none',)
        if k == 'imul':
            w.c *= call['n']
            return ('none',)
        if k == 'q_all_qubits':
            return ('set', sorted(q.x for q in w.c.all_qubits()))
        if k == 'q_freeze':
            return ('moms', w.moments_uids(w.c.freeze()))
        if k == 'q_len':
            return ('int', len(w.c))
        if k == 'q_is_meas':
            return ('bool', bool(cirq.is_measurement(w.c)))
        if k == 'q_is_param':
            return ('bool', bool(cirq.is_parameterized(w.c)))
        if k == 'q_pnames':
            return ('set', sorted(int(n[1:]) for n in cirq.parameter_names(w.c)))
        if k == 'q_keys':
            return ('set', sorted(int(str(key)[1:]) for key in w.c.all_measurement_key_objs()))
        if k == 'q_next':
            return ('opt', w.c.next_moment_operating_on([w.v.q(q) for q in call['q']], call['start'], call['maxd']))
        if k == 'q_prev':
            return ('opt', w.c.prev_moment_operating_on([w.v.q(q) for q in call['q']], call['e'], call['maxd']))
        if k == 'q_eam':
            return ('int', int(w.c.earliest_available_moment(w.op(call['op']), end_moment_index=call['e'])))
        if k == 'q_op_at':
            o = w.c.operation_at(w.v.q(call['q']), call['i'])
            return ('opt', None if o is None else w.v.uid_of(o))
    except (ValueError, IndexError, TypeError) as e:
        return canon_err(e)
    raise AssertionError(f'unknown call {k}')


# ---- Gallina literals ---------------------------------------------------------------------------------
Z, ZL = coq.zlit, coq.zlist


def coq_op(w, uid):
    s = w.spec(uid)
    inv = 'true' if spec_invertible(s) else 'false'
    return f'(O {Z(uid)} {ZL(s["q"])} {ZL(s["mk"])} {ZL(s["ck"])} {ZL(s["pn"])} {inv})'


def coq_moment(w, uids):
    return '[' + '; '.join(coq_op(w, u) for u in uids) + ']'


def coq_moments(w, ms):
    return '[' + '; '.join(coq_moment(w, m) for m in ms) + ']'


def coq_items(w, its):
    return '[' + '; '.join(f'IMom {coq_moment(w, it["m"])}' if isinstance(it, dict) else f'IOp {coq_op(w, it)}' for it in its) + ']'


def coq_optz(x):
    return 'None' if x is None else f'(Some {Z(x)})'


def coq_fmap(f):
    return '[' + '; '.join(f'({Z(a)}, {Z(b)})' for a, b in f) + ']'


def coq_call(w, call):
    k = call['c']
    I = lambda: coq_items(w, call['items'])
    if k == 'empty':
        return 'CEmpty'
    if k == 'new':
        return f'CNew {I()} {call["s"]}'
    if k == 'copy':
        return 'CCopy'
    if k == 'with_tags':
        return 'CWithTags'
    if k == 'untagged':         # of a circuit with tags (or through the frozen view): _from_moments, as copy()
        return 'CCopy'
    if k == 'slice':
        return f'CSlice {coq_optz(call["a"])} {coq_optz(call["b"])}'
    if k == 'add':
        return f'CAdd {I()}'
    if k == 'radd':
        return f'CRAdd {I()}'
    if k == 'mul':
        return f'CMul {Z(call["n"])}'
    if k == 'inv':
        return 'CInv'
    if k == 'transform':
        return f'CTransform {coq_fmap(call["f"])}'
    if k in ('zip', 'concat'):
        if call.get('frozen') and not w.moments_uids() and not any(len(o) for o in call['others']):
            # through the frozen view the (empty) result is a FrozenCircuit that is unfrozen again: a circuit built from its moments,
            # without the append-placement cache that a fresh Circuit() (the result of Circuit.zip / concat_ragged) carries.  The
            # cache of an EMPTY circuit is observable (insert of nothing at the end returns 1 with it, 0 without); for every other
            # result cached and uncached placement agree (proved), so only this corner needs the cache-less constructor.
            return 'CNew [] EARLIEST'
        others = '[' + '; '.join(coq_moments(w, o) for o in call['others']) + ']'
        return f'{"CZip" if k == "zip" else "CConcatRagged"} {others} {call["align"].upper()}'
    if k == 'insert':
        return f'CInsert {Z(call["i"])} {I()} {call["s"]}'
    if k == 'append':
        return f'CAppend {I()} {call["s"]}'
    if k == 'range':
        return f'CInsertIntoRange {I()} {Z(call["s"])} {Z(call["e"])}'
    if k == 'frontier':
        return f'CInsertAtFrontier {I()} {Z(call["start"])} {coq_fmap(call["f"] or [])}'
    if k == 'bremove':
        return 'CBatchRemove [' + '; '.join(f'({Z(i)}, {coq_op(w, u)})' for i, u in call['rs']) + ']'
    if k == 'breplace':
        return 'CBatchReplace [' + '; '.join(f'({Z(i)}, {coq_op(w, u)}, {coq_op(w, n)})' for i, u, n in call['rs']) + ']'
    if k == 'binto':
        return 'CBatchInsertInto [' + '; '.join(f'({Z(i)}, {coq_moment(w, us)})' for i, us in call['rs']) + ']'
    if k == 'binsert':
        return 'CBatchInsert [' + '; '.join(f'({Z(i)}, {coq_items(w, its)})' for i, its in call['ins']) + ']'
    if k == 'clear':
        return f'CClear {ZL(call["q"])} {ZL(call["idx"])}'
    if k == 'setitem':
        return f'CSetItem {Z(call["i"])} {coq_moment(w, call["m"])}'
    if k == 'setslice':
        return f'CSetSlice {coq_optz(call["a"])} {coq_optz(call["b"])} {coq_moments(w, call["ms"])}'
    if k == 'delitem':
        return f'CDelItem {Z(call["i"])}'
    if k == 'delslice':
        return f'CDelSlice {coq_optz(call["a"])} {coq_optz(call["b"])}'
    if k == 'imul':
        return f'CIMul {Z(call["n"])}'
    simple = dict(q_all_qubits='QAllQubits', q_freeze='QFreeze', q_len='QLen', q_is_meas='QIsMeasurement',
                  q_is_param='QIsParameterized', q_pnames='QParameterNames', q_keys='QKeys')
    if k in simple:
        return simple[k]
    if k == 'q_next':
        return f'QNext {ZL(call["q"])} {Z(call["start"])} {coq_optz(call["maxd"])}'
    if k == 'q_prev':
        return f'QPrev {ZL(call["q"])} {coq_optz(call["e"])} {coq_optz(call["maxd"])}'
    if k == 'q_eam':
        return f'QEarliestAvailable {coq_op(w, call["op"])} {coq_optz(call["e"])}'
    if k == 'q_op_at':
        return f'QOperationAt {Z(call["q"])} {Z(call["i"])}'
    raise AssertionError(k)


def coq_scall(w, call):
    """The call as a call of the several-objects model (Circ/Store.v); rendered before the call runs."""
    if call['c'] in CONSTRUCTS and returns_self(w, call):
        return 'SSelf'
    return f'{"SSide" if call.get("side") else "SMain"} ({coq_call(w, call)})'


def coq_res(r):
    t = r[0]
    if t == 'none':
        return 'RNone'
    if t == 'int':
        return f'RInt {Z(r[1])}'
    if t == 'err':
        return f'RErr {r[1]}'
    if t == 'set':
        return f'RSet {ZL(r[1])}'
    if t == 'moms':
        return 'RMoms ' + coq_zll(r[1])
    if t == 'bool':
        return 'RBool ' + ('true' if r[1] else 'false')
    if t == 'opt':
        return 'ROpt ' + coq_optz(r[1])
    if t == 'front':
        return 'RFront ' + coq_fmap(r[1])
    raise AssertionError(t)


def coq_zll(ms):
    return '[' + '; '.join(ZL(m) for m in ms) + ']'


# ---- generation -----------------------------------------------------------------------------------------
class Gen:
    """Draws calls adaptively (it looks at the current circuit to aim indices and operands)."""

    def __init__(self, rng, w):
        self.rng, self.w = rng, w
        self.next_uid = 1

    def new_op(self, qubits=None):
        rng = self.rng
        uid = self.next_uid
        self.next_uid += 1
        pick = (lambda n: rng.sample(range(NQ), n)) if qubits is None else (lambda n: rng.sample(qubits, min(n, len(qubits))))
        r = rng.random()
        if r < 0.55:
            spec = dict(q=pick(rng.choice([1, 1, 1, 2, 2, 3, 0])), mk=[], ck=[], pn=[], kind='u')
            if rng.random() < 0.12:
                spec['pn'] = [rng.randrange(3)]
        elif r < 0.72:
            spec = dict(q=pick(rng.choice([1, 1, 2])) or pick(1) or [0], mk=[rng.randrange(NK)], ck=[], pn=[], kind='meas')
        elif r < 0.88:
            spec = dict(q=pick(rng.choice([1, 1, 2, 0])), mk=[], ck=rng.sample(range(NK), rng.choice([1, 1, 2])), pn=[], kind='cc')
        else:
            mk = rng.sample(range(NK), rng.choice([0, 1, 2]))
            ck = [k for k in rng.sample(range(NK), rng.choice([0, 1, 2])) if k not in mk]
            spec = dict(q=pick(rng.choice([0, 1, 1, 2])), mk=mk, ck=ck, pn=[], kind='kop')
        self.w.add_op(uid, spec)
        return uid

    def new_moment_uids(self, avoid=()):
        rng = self.rng
        used, uids = set(avoid), []
        for _ in range(rng.choice([0, 1, 1, 2, 3])):
            free = [q for q in range(NQ) if q not in used]
            u = self.new_op(free if rng.random() < 0.7 else None)
            qs = self.w.ops[u]['q']
            if used & set(qs):
                continue
            used |= set(qs)
            uids.append(u)
        return uids

    def new_moment(self):
        return {'m': self.new_moment_uids()}

    def items(self, lo=0, hi=4, moments=True):
        rng = self.rng
        out = []
        for _ in range(rng.randint(lo, hi)):
            out.append(self.new_moment() if moments and rng.random() < 0.2 else self.new_op())
        return out

    def circuit(self, maxlen=3):
        return [self.new_moment_uids() for _ in range(self.rng.randint(0, maxlen))]

    def index(self, past=3):
        rng, n = self.rng, len(self.w.c)
        r = rng.random()
        if r < 0.6:
            return rng.randint(0, n)
        if r < 0.8:
            return rng.randint(-n - 2, -1)
        return rng.randint(n, n + past)

    def opt_index(self):
        return None if self.rng.random() < 0.3 else self.index()

    def strategy(self):
        return self.rng.choice(['EARLIEST', 'EARLIEST', 'EARLIEST', 'NEW', 'INLINE', 'NEW_THEN_INLINE', 'LATEST'])

    def existing(self):
        """(moment index, uid) of a random operation of the circuit, or None."""
        moms = self.w.moments_uids()
        cands = [(i, u) for i, m in enumerate(moms) for u in m]
        return self.rng.choice(cands) if cands else None

    def qubits(self, lo=1, hi=2):
        return self.rng.sample(range(NQ), self.rng.randint(lo, hi))

    def derive(self):
        rng = self.rng
        k = rng.choice(['copy', 'with_tags', 'with_tags', 'untagged', 'untagged', 'slice', 'add', 'add', 'radd', 'mul', 'inv', 'transform',
                        'zip', 'zip', 'concat', 'concat', 'empty'])
        fz = rng.random() < 0.3
        if k == 'copy':
            return dict(c='copy', via=rng.choice(['copy', 'freeze', 'unfreeze', 'copymod', 'nocopy', 'frozen_nocopy']))
        if k == 'with_tags':
            return dict(c=k, none=rng.random() < 0.2)
        if k == 'untagged':
            return dict(c=k, frozen=rng.random() < 0.2)
        if k == 'empty':
            return dict(c=k)
        if k == 'slice':
            return dict(c='slice', a=self.opt_index(), b=self.opt_index(), frozen=fz)
        if k == 'add':
            if rng.random() < 0.5:
                return dict(c='add', items=[{'m': m} for m in self.circuit()], circ=True, frozen=fz, ofrozen=rng.random() < 0.3)
            return dict(c='add', items=self.items(), frozen=fz)
        if k == 'radd':
            return dict(c='radd', items=self.items(), frozen=fz)
        if k == 'mul':
            return dict(c='mul', n=rng.choice([0, 1, 2, 2, 3, -1]), r=rng.random() < 0.4, frozen=fz)
        if k == 'inv':
            return dict(c='inv', frozen=fz)
        if k == 'transform':
            src = rng.sample(range(NQ), rng.randint(0, NQ))
            if rng.random() < 0.8:
                dst = list(src)
                rng.shuffle(dst)
            else:
                dst = [rng.randrange(NQ + 2) for _ in src]
            return dict(c='transform', f=[[a, b] for a, b in zip(src, dst)])
        others = [self.circuit(4) for _ in range(rng.choice([0, 1, 1, 2]))]
        return dict(c=k, others=others, align=rng.choice(['LEFT', 'LEFT', 'RIGHT', 'FIRST']), astr=rng.random() < 0.3,
                    frozen=fz, ofrozen=rng.random() < 0.5)

    def call(self):
        if getattr(self, 'script', None):       # calls laid down in advance (a grid's fixed opening), then free drawing
            return self.script.pop(0)
        rng, n = self.rng, len(self.w.c)
        r = rng.random()
        ret = getattr(self.w, 'last_ret', None)
        if ret is not None and rng.random() < 0.3:       # chained: insert at the index the insert just before returned
            return dict(c='insert', i=ret, items=self.items(1, 3), s=rng.choice(STRATS), chained=True)
        if r < 0.16:
            return dict(c='insert', i=self.index(), items=self.items(), s=self.strategy())
        if r < 0.38:
            return dict(c='append', items=self.items(), s=self.strategy() if rng.random() < 0.35 else 'EARLIEST', iadd=rng.random() < 0.2)
        if r < 0.42:
            return dict(c='new', items=self.items(0, 6), s=self.strategy())
        if r < 0.60:        # batch / range / frontier edits
            k = rng.choice(['range', 'frontier', 'bremove', 'breplace', 'binto', 'binsert', 'binsert'])
            if k == 'range':
                s = rng.randint(0, n)
                e = rng.randint(s, n) if rng.random() < 0.85 else rng.randint(-1, n + 2)
                return dict(c='range', items=self.items(0, 4, moments=rng.random() < 0.2), s=s, e=e)
            if k == 'frontier':
                start = rng.randint(0, n + 1)
                f = None if rng.random() < 0.4 else [[q, rng.randint(0, start if rng.random() < 0.85 else start + 2)]
                                                     for q in rng.sample(range(NQ), rng.randint(0, NQ))]
                return dict(c='frontier', items=self.items(0, 4, moments=False), start=start, f=f)
            if k == 'bremove':
                rs = []
                for _ in range(rng.randint(0, 3)):
                    e = self.existing()
                    if e and rng.random() < 0.85:
                        rs.append([e[0] if rng.random() < 0.8 else e[0] - n, e[1]])
                    else:
                        rs.append([self.index(1), self.new_op()])
                return dict(c='bremove', rs=rs)
            if k == 'breplace':
                rs = []
                for _ in range(rng.randint(0, 3)):
                    e = self.existing()
                    if e and rng.random() < 0.85:
                        q = self.w.spec(e[1])['q']
                        rs.append([e[0], e[1], self.new_op(q if (q and rng.random() < 0.8) else None)])
                    else:
                        rs.append([self.index(1), self.new_op(), self.new_op()])
                return dict(c='breplace', rs=rs)
            if k == 'binto':
                rs = []
                for _ in range(rng.randint(0, 3)):
                    i = rng.randint(0, max(n - 1, 0)) if rng.random() < 0.85 else self.index(1)
                    moms = self.w.moments_uids()
                    used = {q for u in (moms[i] if 0 <= i < n else []) for q in self.w.spec(u)['q']}
                    free = [q for q in range(NQ) if q not in used]
                    rs.append([i, [self.new_op(free if rng.random() < 0.85 else None) for _ in range(rng.randint(0, 2))]])
                return dict(c='binto', rs=rs)
            return dict(c='binsert', ins=[[self.index(1), self.items(0, 3)] for _ in range(rng.randint(0, 4))])
        if r < 0.73:        # delete / slice-assign / clear
            k = rng.choice(['clear', 'setitem', 'setslice', 'delitem', 'delslice', 'imul'])
            if k == 'clear':
                e = self.existing()
                if e and rng.random() < 0.6:      # aimed: really removes an operation that is there
                    qs = self.w.spec(e[1])['q']
                    return dict(c='clear', q=(rng.sample(qs, 1) if qs else []) + self.qubits(0, 1),
                                idx=[e[0]] + [self.index(1) for _ in range(rng.randint(0, 2))])
                return dict(c='clear', q=self.qubits(0, 3), idx=[self.index(1) for _ in range(rng.randint(0, 3))])
            if k == 'setitem':
                return dict(c='setitem', i=self.index(1), m=self.new_moment_uids())
            if k == 'setslice':
                return dict(c='setslice', a=self.opt_index(), b=self.opt_index(), ms=self.circuit())
            if k == 'delitem':
                return dict(c='delitem', i=self.index(1))
            if k == 'delslice':
                return dict(c='delslice', a=self.opt_index(), b=self.opt_index())
            return dict(c='imul', n=rng.choice([0, 1, 2, 2, 3, -1]))
        if r < 0.84:        # algebra: the value is a new circuit; bound to the variable, or put aside while the variable keeps the source
            d = self.derive()
            if d['c'] in SIDEABLE and rng.random() < 0.3:
                d['side'] = True
            return d
        k = rng.choice(QUERIES)
        if k == 'q_next':
            return dict(c=k, q=self.qubits(), start=rng.randint(-1, n + 2), maxd=rng.choice([None, None, 0, 1, 2, 5, -1]))
        if k == 'q_prev':
            return dict(c=k, q=self.qubits(), e=rng.choice([None, rng.randint(-1, n + 2)]), maxd=rng.choice([None, None, 0, 1, 2, 5, -1]))
        if k == 'q_eam':
            return dict(c=k, op=self.new_op(), e=rng.choice([None, rng.randint(0, n + 2)]))
        if k == 'q_op_at':
            return dict(c=k, q=rng.randrange(NQ), i=rng.randint(-1, n + 1))
        return dict(c=k)


# ---- spec-level oracles on the real code ---------------------------------------------------------------
def oracle_wf(w, c=None):
    """Every moment holds operations on pairwise disjoint qubits (read off the operations themselves)."""
    for i, m in enumerate((w.c if c is None else c).moments):
        seen = set()
        for op in m.operations:
            for q in op.qubits:
                if q in seen:
                    return f'moment {i} has two operations on {q}'
                seen.add(q)
    return None


def py_index(i, n):
    j = i + n if i < 0 else i
    return j if 0 <= j < n else None


def slice_rng(a, b, n):
    s, e, _ = slice(a, b).indices(n)
    return s, max(s, e)


def clamp(i, n):
    return max(min(i if i >= 0 else n + i, n), 0)


class Spec:
    """What the property text prescribes for one call, computed from the call and the moments before it:
    allowed exception, expected multiset, and the order prescription."""

    def __init__(self, w, call, before):
        self.w, self.call, self.before = w, call, before
        self.n = len(before)

    def conflicts_moment(self, m, u):
        return any(conflict(self.w, x, u) for x in m)

    def overlaps(self, uids):
        seen = set()
        for u in uids:
            q = set(self.w.spec(u)['q'])
            if seen & q:
                return True
            seen |= q
        return False

    # -- which exception (if any) the documentation allows / demands ------------------------------------
    def expected_error(self):
        c, k, n, before = self.call, self.call['c'], self.n, self.before
        if k == 'range':
            return None if 0 <= c['s'] <= c['e'] <= n else 'IndexError'
        if k == 'frontier':
            f = dict(map(tuple, c['f'] or []))
            qs = {q for u in item_uids(c['items']) for q in self.w.spec(u)['q']}
            return 'ValueError' if any(f.get(q, 0) > c['start'] for q in qs) else None
        if k in ('bremove', 'breplace', 'binto'):
            cur = [list(m) for m in before]
            for r in c['rs']:
                j = py_index(r[0], n)
                if j is None:
                    return 'IndexError'
                if k == 'binto':
                    if self.overlaps(cur[j] + r[1]):
                        return 'ValueError'
                    cur[j] = cur[j] + r[1]
                    continue
                if r[1] not in cur[j]:
                    return 'ValueError'
                if k == 'bremove':
                    cur[j] = [u for u in cur[j] if u != r[1]]
                else:
                    cur[j] = [r[2] if u == r[1] else u for u in cur[j]]
                    if self.overlaps(cur[j]):
                        return 'ValueError'
            return None
        if k in ('setitem', 'delitem'):
            return None if py_index(c['i'], n) is not None else 'IndexError'
        if k == 'inv':
            return None if all(spec_invertible(self.w.spec(u)) for m in before for u in m) else 'TypeError'
        if k == 'transform':
            f = dict(map(tuple, c['f']))
            for m in before:
                seen = set()
                for u in m:
                    q = [f.get(x, x) for x in self.w.spec(u)['q']]
                    if len(set(q)) != len(q) or seen & set(q):
                        return 'ValueError'
                    seen |= set(q)
            return None
        if k == 'zip':
            cs = [before] + c['others']
            N = max(len(x) for x in cs)
            for j in range(N):
                row = []
                for x in cs:
                    jj = j if c['align'] == 'LEFT' else len(x) - N + j
                    if 0 <= jj < len(x):
                        row += x[jj]
                if self.overlaps(row):
                    return 'ValueError'
            return None
        if k in ('q_next', 'q_prev'):
            return 'ValueError' if (c['maxd'] is not None and c['maxd'] < 0) else None
        return None

    # -- expected multiset of uids after a successful call ------------------------------------------------
    def expected_uids(self):
        c, k, n, before = self.call, self.call['c'], self.n, self.before
        flat = [u for m in before for u in m]
        C = collections.Counter
        if k == 'empty':
            return C()
        if k == 'new':
            return C(item_uids(c['items']))
        if k == 'slice':
            s, e = slice_rng(c['a'], c['b'], n)
            return C(u for m in before[s:e] for u in m)
        if k in ('add', 'radd', 'insert', 'append', 'range', 'frontier'):
            return C(flat) + C(item_uids(c['items']))
        if k in ('mul', 'imul'):
            return C(flat * max(c['n'], 0))
        if k == 'inv':
            return C(-u for u in flat)
        if k in ('zip', 'concat'):
            return C(flat) + C(u for o in c['others'] for m in o for u in m)
        if k == 'bremove':
            return C(flat) - C(u for _, u in c['rs'])
        if k == 'breplace':
            return C(flat) - C(u for _, u, _ in c['rs']) + C(x for _, _, x in c['rs'])
        if k == 'binto':
            return C(flat) + C(u for _, us in c['rs'] for u in us)
        if k == 'binsert':
            return C(flat) + C(u for _, its in c['ins'] for u in item_uids(its))
        if k == 'clear':
            qs = set(c['q'])
            idx = {i for i in c['idx'] if 0 <= i < n}
            return C(u for i, m in enumerate(before) for u in m if not (i in idx and qs & set(self.w.spec(u)['q'])))
        if k == 'setitem':
            j = py_index(c['i'], n)
            return C(u for i, m in enumerate(before) for u in m if i != j) + C(c['m'])
        if k == 'delitem':
            j = py_index(c['i'], n)
            return C(u for i, m in enumerate(before) for u in m if i != j)
        if k in ('setslice', 'delslice'):
            s, e = slice_rng(c['a'], c['b'], n)
            return C(u for i, m in enumerate(before) for u in m if not s <= i < e) + C(u for m in c.get('ms', []) for u in m)
        return C(flat)

    def inserted(self):
        c, k = self.call, self.call['c']
        if k in ('new', 'add', 'radd', 'insert', 'append', 'range', 'frontier'):
            return item_uids(c['items'])
        return []


def conflict(w, x, y):
    a, b = w.spec(x), w.spec(y)
    return bool(set(a['q']) & set(b['q']) or set(a['mk']) & set(b['mk']) or set(a['mk']) & set(b['ck']) or set(a['ck']) & set(b['mk']))


def positions(moms):
    pos, k = {}, 0
    for i, m in enumerate(moms):
        for u in m:
            pos[u] = (k, i)
            k += 1
    return pos


def oracle_order(w, call, before, after, res):
    """The order clauses of the property text, for operations that conflict on a qubit or a key.
    Returns a description of the first violated clause, or None."""
    k = call['c']
    if res[0] == 'err':
        return None
    fb = [u for m in before for u in m]
    fa = [u for m in after for u in m]
    if len(set(fb)) != len(fb) or len(set(fa)) != len(fa):
        return None          # repeated operations: positions are ambiguous, clause not evaluated
    pb, pa = positions(before), positions(after)
    n = len(before)

    def before_in_after(x, y):
        return pa[x][0] < pa[y][0]

    def check(pairs, clause):
        for x, y in pairs:
            if x in pa and y in pa and conflict(w, x, y) and not before_in_after(x, y):
                return f'{clause}: operation {x} {w.spec(x)} must come before {y} {w.spec(y)} but ends up in moment {pa[x][1]} / position {pa[x][0]}, after moment {pa[y][1]} / position {pa[y][0]}'
        return None
    surv = [u for u in fb if u in pa]
    # (a) existing ones among themselves
    if k == 'inv':
        inv_pairs = [(-surv_y, -surv_x) for i, surv_x in enumerate(fb) for surv_y in fb[i + 1:]]
        return check([(a, b) for a, b in inv_pairs], 'inverse reverses the order')
    p = check([(x, y) for i, x in enumerate(surv) for y in surv[i + 1:]], 'existing operations among themselves')
    if p:
        return p
    ins = []
    if k in ('new', 'add', 'radd', 'insert', 'append', 'range', 'frontier'):
        ins = item_uids(call['items'])
    # (b) inserted ones among themselves
    p = check([(x, y) for i, x in enumerate(ins) for y in ins[i + 1:]], 'inserted operations among themselves')
    if p:
        return p
    lo = hi = None           # inserted after every existing op in moments < lo, before every one in moments >= hi
    exception = False
    if k in ('insert',):
        lo = hi = clamp(call['i'], n)
        exception = call['s'] == 'EARLIEST' and lo < n and len(call['items']) > 1
    elif k in ('append', 'add'):
        lo = hi = n
    elif k == 'radd':
        lo = hi = 0
    elif k == 'range':
        lo, hi = call['s'], call['e']
        exception = len(ins) > 1 and hi < n
    elif k == 'frontier':          # inline at the frontier: the moment `start` itself is shared, later moments come after
        lo, hi = call['start'], call['start'] + 1
    if lo is not None:
        p = check([(e, x) for e in fb if pb[e][1] < lo for x in ins], 'inserted operations come after everything before the insertion point')
        if p:
            return p
        if not exception:
            p = check([(x, e) for e in fb if pb[e][1] >= hi for x in ins], 'inserted operations come before everything after the insertion point')
            if p:
                return p
    if k == 'binsert':
        # an index means what it means for insert (negative: counted from the end, then clamped)
        groups = {}
        for i, tree in call['ins']:
            groups.setdefault(i if i >= 0 else max(n + i, 0), []).append(tree)
        seq = []
        for eff in sorted(groups):
            trees = list(reversed(groups[eff]))
            us = [u for t in trees for u in item_uids(t)]
            kk = min(eff, n)
            p = check([(x, y) for a, x in enumerate(us) for y in us[a + 1:]], 'batch_insert: operations inserted at one index among themselves')
            p = p or check([(e, x) for e in fb if pb[e][1] < kk for x in us], 'batch_insert: inserted operations come after everything before their index')
            if not (kk < n and sum(len(t) for t in trees) > 1):
                p = p or check([(x, e) for e in fb if pb[e][1] >= kk for x in us], 'batch_insert: inserted operations come before everything after their index')
            p = p or check([(y, x) for y in seq for x in us], 'batch_insert: insertions at smaller indices come first')
            if p:
                return p
            # under the EARLIEST multi-operation exception a group may spill past later insertion points
            if not (kk < n and sum(len(t) for t in trees) > 1):
                seq += us
    if k == 'binto':
        for i, us in call['rs']:
            j = py_index(i, n)
            p = check([(e, x) for e in fb if pb[e][1] < j for x in us], 'batch_insert_into: after everything in earlier moments') or \
                check([(x, e) for e in fb if pb[e][1] > j for x in us], 'batch_insert_into: before everything in later moments')
            if p:
                return p
    if k in ('zip', 'concat'):
        others = call['others']
        for o in others:
            fo = [u for m in o for u in m]
            p = check([(x, y) for a, x in enumerate(fo) for y in fo[a + 1:]], f'{k}: operations of one operand among themselves')
            if p:
                return p
        if k == 'concat':
            seqs = [fb] + [[u for m in o for u in m] for o in others]
            for a in range(len(seqs)):
                for b in range(a + 1, len(seqs)):
                    p = check([(x, y) for x in seqs[a] for y in seqs[b]], 'concat_ragged: operations of an earlier circuit come before conflicting operations of a later one')
                    if p:
                        return p
        else:
            cs = [before] + others
            N = max(len(x) for x in cs)
            al = lambda x, j: j if call['align'] == 'LEFT' else j + N - len(x)
            tagged = [(al(x, j), u) for x in cs for j, m in enumerate(x) for u in m]
            p = check([(x, y) for ix, x in tagged for iy, y in tagged if ix < iy], 'zip: moment k of the result holds moment k of every operand')
            if p:
                return p
    return None


def place_tree_at_end(w, moms, items, s):
    """The documented meaning of adding a whole tree at the end of a circuit (append, insert at / past the end, the
    constructor): the items are taken in order; a Moment is appended intact; under EARLIEST an operation scans backward
    from the end and joins the moment just after the last one holding a conflicting operation (shared qubit, shared
    measurement key, measurement key against control key), a new last moment if that is the end; under NEW every
    operation gets a moment of its own."""
    moms = [list(m) for m in moms]
    for it in items:
        if isinstance(it, dict):
            moms.append(list(it['m']))
        elif s == 'NEW':
            moms.append([it])
        else:
            p = max([i for i, m in enumerate(moms) if any(conflict(w, x, it) for x in m)], default=-1) + 1
            if p == len(moms):
                moms.append([it])
            else:
                moms[p].append(it)
    return moms


def oracle_placement_tree(w, call, before, after, res):
    """Where the operations of a whole tree (several items, or the constructor's tree) land: EARLIEST and NEW at the end of
    the circuit, NEW anywhere, and a tree made of Moments only under every strategy."""
    k, s, items, n = call['c'], call['s'], call['items'], len(before)
    kk = clamp(call['i'], n) if k == 'insert' else n
    only_moments = all(isinstance(it, dict) for it in items)
    if s == 'NEW' or (only_moments and s != 'LATEST'):
        exp = before[:kk] + [list(it['m']) if isinstance(it, dict) else [it] for it in items] + before[kk:]
        ret = kk + len(items) if items else None      # the index returned for an empty tree is not documented
    elif s == 'EARLIEST' and kk == n:
        exp, ret = place_tree_at_end(w, before, items, s), None
    else:
        return None
    got_ret = res[1] if k == 'insert' else None
    if after != exp or (k == 'insert' and ret is not None and got_ret != ret):
        return (f'{s} {k} of the tree {items} at {kk} into {before}: the strategy puts the operations at {exp}'
                + (f' returning {ret}' if k == 'insert' and ret is not None else '') + f', got {after}'
                + (f' returning {got_ret}' if k == 'insert' else ''))
    return None


def oracle_placement(w, call, before, after, res):
    """Where a single operation / a single Moment lands, per documented strategy, and the returned index."""
    k = call['c']
    if k not in ('insert', 'append', 'new') or res[0] == 'err':
        return None
    n = len(before)
    if k == 'new' or len(call['items']) != 1:
        return oracle_placement_tree(w, call, [] if k == 'new' else before, after, res)
    it = call['items'][0]
    kk = clamp(call['i'], n) if k == 'insert' else n
    s = call['s']
    ret = res[1] if k == 'insert' else None

    def expect(moms, r, *alts):
        for m2, r2 in ((moms, r),) + alts:
            if after == m2 and (ret is None or ret == r2):
                return None
        if k == 'append':
            return (f'{s} append of {it} onto {before}: expected {moms}' + (f' (or {alts[0][0]})' if alts else '') + f', got {after}')
        return (f'{s} insert of {it} at {kk} into {before}: expected {moms} returning {r}'
                + (f' (or {alts[0][0]} returning {alts[0][1]})' if alts else '') + f', got {after} returning {ret}')
    newm = lambda u: before[:kk] + [[u]] + before[kk:]
    join = lambda p, u: before[:p] + [before[p] + [u]] + before[p + 1:]
    if isinstance(it, dict):
        return expect(before[:kk] + [it['m']] + before[kk:], kk + 1)
    u = it
    blocked = lambda i: any(conflict(w, x, u) for x in before[i])
    if s in ('NEW', 'NEW_THEN_INLINE'):
        return expect(newm(u), kk + 1)
    if s == 'INLINE':
        if kk > 0 and not blocked(kk - 1):
            return expect(join(kk - 1, u), kk)
        return expect(newm(u), kk + 1)
    if s == 'EARLIEST':
        j = max([i for i in range(kk) if blocked(i)], default=-1)
        p = j + 1
        if p < kk:
            return expect(join(p, u), kk)
        if kk < n and not blocked(kk):
            # the strategy text says "a new moment at the desired location"; the property's own exception
            # concedes that EARLIEST may share the moment at the insertion point: both accepted
            return expect(newm(u), kk + 1, (join(kk, u), kk + 1))
        return expect(newm(u), kk + 1)
    if s == 'LATEST':
        if kk == n:
            return expect(newm(u), kk + 1)
        j = min([i for i in range(kk, n) if blocked(i)], default=n)
        p = j - 1
        if p < kk:
            return expect(newm(u), kk + 1)
        return expect(join(p, u), p + 1)
    return None


PROBE_UID = 900000      # uids of the operations the returned-index oracle inserts in its follow-up calls


def probe_spec(sp):
    """An operation that conflicts with an operation of spec `sp` on every qubit and every key that one has."""
    return dict(q=list(sp['q']), mk=sorted(set(sp['mk']) | set(sp['ck'])), ck=[], pn=[], kind='kop')


def chain_clause(s, first, second, moms2):
    """Chained inserts keep call order: every operation the first insert placed comes before every conflicting
    operation of the insert made at the index the first one returned.  Returns (x, y) of the first broken pair."""
    p2 = positions(moms2)
    for x in first:
        for y in second:
            if x in p2 and y in p2 and conflict(s, x, y) and not p2[x][0] < p2[y][0]:
                return x, y, p2
    return None


def oracle_returned_index(w, call, before, after, res):
    """Circuit.insert / insert_into_range return 'the insertion index that will place operations just after the
    operations that were inserted by this method'.  Judged by that meaning: every inserted operation sits in a moment
    in front of the returned index, and a follow-up insert at the returned index (run on a freshly rebuilt equal circuit,
    one operation on the qubits and keys of each inserted one, and a second copy of the whole tree, with every strategy)
    puts its operations after every conflicting operation the first insert placed."""
    k = call['c']
    if k not in ('insert', 'range') or res[0] != 'int':
        return None
    ins = item_uids(call['items'])
    flat = [u for m in after for u in m]
    if not ins or len(set(flat)) != len(flat) or len(set(ins)) != len(ins):
        return None          # nothing inserted / repeated operations: positions are ambiguous
    r = res[1]
    pa = positions(after)
    if any(x not in pa for x in ins):
        return None          # the multiset oracle reports the loss
    how = (f'{call["s"]} insert of {call["items"]} at {call["i"]}' if k == 'insert'
           else f'insert_into_range({call["items"]}, {call["s"]}, {call["e"]})')
    head = (f'{how} into {before} gives {after} and returns {r}, documented as the insertion index that places operations '
            f'just after the operations inserted by the call')
    try:
        base = shadow_world(w)
    except ValueError:
        return None          # moments not well formed (the wf oracle reports it)
    followups = []
    uid = PROBE_UID
    for x in ins:
        sp = w.spec(x)
        if sp['q'] or sp['mk'] or sp['ck']:
            followups.append(({uid: probe_spec(sp)}, [uid]))
            uid += 1
    if len(call['items']) > 1:       # the same tree once more (fresh operations of the same shapes)
        table, tree = {}, []
        for it in call['items']:
            us = it['m'] if isinstance(it, dict) else [it]
            new = []
            for x in us:
                table[uid] = dict(w.spec(x))
                new.append(uid)
                uid += 1
            tree.append({'m': new} if isinstance(it, dict) else new[0])
        followups.append((table, tree))
    for table, tree in followups:
        for s2 in STRATS:
            s = World.__new__(World)
            s.cirq, s.v = w.cirq, w.v
            s.ops, s.ops0, s.objs = dict(base.ops), dict(base.ops0), dict(base.objs)
            s.c = base.c.copy()
            for u, sp in table.items():
                s.add_op(u, sp)
            call2 = dict(c='insert', i=r, items=tree, s=s2)
            res2 = exec_call(s, call2)
            moms2 = s.moments_uids()
            shown = {u: {f: v for f, v in sp.items() if v and f != 'kind'} for u, sp in table.items()}
            if res2[0] != 'int':
                return f'{head}; the follow-up {s2} insert of {shown} at {r} gives {res2}'
            bad = chain_clause(s, ins, item_uids(tree), moms2)
            if bad:
                x, y, p2 = bad
                return (f'{head}; but inserted operation {x} {w.spec(x)} sits in moment {pa[x][1]}, and the follow-up {s2} insert of '
                        f'{tree} = {shown} at the returned index {r} gives {moms2}: {y} (moment {p2[y][1]}) does not come after the '
                        f'conflicting operation {x} (moment {p2[x][1]}) placed by the first insert')
    late = [x for x in ins if pa[x][1] >= r]
    if late:
        return f'{head}; but inserted operation {late[0]} sits in moment {pa[late[0]][1]}, not in front of the returned index'
    return None


def rebuilt(w):
    """A freshly built circuit with equal moments (new Moment objects, no cached state)."""
    cirq = w.cirq
    return cirq.Circuit([cirq.Moment(list(m.operations)) for m in w.c.moments], tags=w.c.tags)


def shadow_world(w):
    """The same operation table and a freshly rebuilt equal circuit: what an edit is compared against."""
    s = World.__new__(World)
    s.cirq, s.v = w.cirq, w.v
    s.ops, s.ops0, s.objs = dict(w.ops), dict(w.ops0), dict(w.objs)
    s.c = rebuilt(w)
    return s


def oracle_queries(w, rng, heavy=False):
    """Every query answers as a freshly rebuilt equal circuit would."""
    cirq, c = w.cirq, w.c
    try:
        f = rebuilt(w)
    except ValueError as e:       # the moments themselves are not well formed (the wf oracle reports it)
        return [f'a circuit with these moments cannot even be rebuilt: {e}']
    probs = []

    def run(fn, x):
        try:
            return ('ok', fn(x))
        except Exception as e:
            return ('raised', type(e).__name__)

    def cmp(name, fn, post=lambda v: v):
        a, b = run(fn, c), run(fn, f)
        if a[0] == 'ok' and b[0] == 'ok':
            a, b = ('ok', post(a[1])), ('ok', post(b[1]))
        if a != b:
            probs.append(f'{name}: circuit says {a!r}, a rebuilt equal circuit says {b!r}')
    cmp('all_qubits', lambda x: x.all_qubits())
    cmp('all_measurement_key_objs', lambda x: x.all_measurement_key_objs())
    cmp('is_parameterized', cirq.is_parameterized)
    cmp('parameter_names', cirq.parameter_names)
    cmp('is_measurement', cirq.is_measurement)
    cmp('control_keys', cirq.control_keys)
    cmp('are_all_measurements_terminal', lambda x: x.are_all_measurements_terminal())
    cmp('len', len)
    cmp('==', lambda x: x == f)
    cmp('freeze', lambda x: x.freeze() == f.freeze())
    cmp('freeze.moments', lambda x: tuple(x.freeze().moments))
    cmp('frozen all_qubits', lambda x: x.freeze().all_qubits())
    cmp('frozen keys', lambda x: x.freeze().all_measurement_key_objs())
    n = len(c)
    for _ in range(3):
        qs = [w.v.q(i) for i in rng.sample(range(NQ), rng.choice([1, 1, 2]))]
        s = rng.randint(0, n + 1)
        md = rng.choice([None, None, 0, 1, 3])
        cmp('next_moment_operating_on', lambda x: x.next_moment_operating_on(qs, s, md))
        e = rng.choice([None, rng.randint(0, n + 2)])
        cmp('prev_moment_operating_on', lambda x: x.prev_moment_operating_on(qs, e, md))
        cmp('operation_at', lambda x: x.operation_at(qs[0], s))
    start = {w.v.q(i): rng.randint(0, max(n, 1)) for i in rng.sample(range(NQ), rng.randint(1, NQ))}
    cmp('reachable_frontier_from', lambda x: x.reachable_frontier_from(start))
    end = {q: s + rng.randint(0, 3) for q, s in start.items() if rng.random() < 0.7}
    cmp('findall_operations_between', lambda x: x.findall_operations_between(start, end))
    cmp('findall_operations_until_blocked', lambda x: x.findall_operations_until_blocked(start, is_blocker=lambda op: len(op.qubits) >= 3))
    cmp('findall_operations', lambda x: list(x.findall_operations(lambda op: len(op.qubits) == 2)))
    cmp('factorize', lambda x: [tuple(p.moments) for p in x.factorize()])
    cmp('has_measurements', lambda x: x.has_measurements())
    cmp('are_any_measurements_terminal', lambda x: x.are_any_measurements_terminal())
    if heavy and len(f.all_qubits()) <= 4 and n <= 12 and cirq.has_unitary(f):
        import numpy as np
        order = sorted(f.all_qubits())
        cmp('unitary', lambda x: x.unitary(qubit_order=order), post=lambda m: np.round(m, 8).tobytes())
    return probs


# ---- several circuit objects: what was put aside stays what it was ---------------------------------------
def put_aside(w, c, role, at, call):
    """Remembers a circuit object the history no longer edits: the source of a construction expression the variable was
    rebound by, or a circuit derived from the circuit under edit.  Its contents are determined by the calls made on it,
    so from now on nothing may change it."""
    w.held.append(dict(c=c, mobjs=list(c.moments), moms=w.moments_uids(c), role=role, at=at, how=call, bad=False))


def world_of(w, c):
    s = World.__new__(World)
    s.cirq, s.v = w.cirq, w.v
    s.ops, s.ops0, s.objs = w.ops, w.ops0, w.objs
    s.c = c
    return s


def oracle_aside(w, call):
    """No object put aside earlier (and no frozen view handed out earlier) was changed by this call."""
    out = []
    for hd in w.held + w.views:
        if hd['bad'] or list(hd['c'].moments) == hd['mobjs']:
            continue
        hd['bad'] = True
        now = w.moments_uids(hd['c'])
        out.append(f'the {hd["role"]} at step {hd["at"]} ({hd["how"]}) held the moments {hd["moms"]}; no call was made on it since, '
                   f'but after {call} on the other circuit it holds {now}')
    return out


# ---- one history ---------------------------------------------------------------------------------------
def run_history(w, calls, rng=None, gen=None, n_calls=0):
    """Executes given calls (or draws n_calls with gen).  Returns (calls, trace, problems);
    a problem is (step, oracle kind, description)."""
    out_calls, trace, problems, rendered = [], [], [], []
    w.rendered = rendered
    w.held, w.views, w.side = [], [], None
    last_insert = None      # the latest insert / insert_into_range that returned an index, while nothing else edited the circuit
    w.last_ret = None
    it = iter(calls) if gen is None else None
    for step in range(n_calls if gen is not None else len(calls)):
        call = gen.call() if gen is not None else next(it)
        if call.get('syn'):          # recorded by an earlier run of the oracle; this run records its own
            continue
        before = w.moments_uids()
        spec = Spec(w, call, before)
        want = spec.expected_error()
        rendered.append(coq_scall(w, call))
        side = bool(call.get('side'))
        same = call['c'] in CONSTRUCTS and returns_self(w, call)
        old = w.c
        shadow = None
        if call['c'] not in QUERIES and call['c'] not in ('empty', 'new'):
            try:
                shadow = shadow_world(w)
            except ValueError:      # the moments are not well formed (the wf oracle has reported it)
                shadow = None
        res = exec_call(w, call)
        moms = w.moments_uids()
        out_calls.append(call)
        trace.append((res, moms))
        at = len(out_calls) - 1
        add = lambda kind, what: problems.append((at, kind, what))
        p = oracle_wf(w)
        if p:
            add('wf', p)
        got = res[1] if res[0] == 'err' else None
        if want != got:
            add('raises', f'{call["c"]} raised {got}, the documentation prescribes {want}')
        # several objects: nothing that was put aside earlier changed; then this call's own new / old object is put aside
        for p in oracle_aside(w, call):
            add('alias', p)
        made = call['c'] in CONSTRUCTS and got is None and not same
        if made:
            new_obj = w.side if side else w.c
            if new_obj is None or new_obj is old:
                add('alias', f'{call} is an expression that makes a new circuit, but it returned the circuit object it was evaluated on')
                made = False
        if made and side:
            # the circuit derived on the side is judged like the result of the expression; the source must be untouched
            put_aside(w, w.side, 'circuit derived', at, call)
            if moms != before:
                add('alias', f'{call} only reads the circuit, but changed it from {before} to {moms}')
            p = oracle_wf(w, w.side)
            if p:
                add('wf', p)
            judged = w.held[-1]['moms']
        else:
            if made:
                put_aside(w, old, 'circuit left behind', at, call)
            judged = moms
        flat_b = collections.Counter(u for m in before for u in m)
        flat_a = collections.Counter(u for m in judged for u in m)
        if got is None:
            exp = flat_b if same else spec.expected_uids()
            if flat_a != exp:
                add('multiset', f'operations lost {sorted((exp - flat_a).elements())} / duplicated or invented {sorted((flat_a - exp).elements())}')
        elif call['c'] in ATOMIC or call['c'] in REPLACING or want is not None:
            if moms != before:
                add('atomic', f'{call["c"]} raised {got} but changed the circuit from {before} to {moms}')
        else:       # an undocumented exception: nothing may be lost or invented
            full = flat_b + collections.Counter(spec.inserted())
            if (flat_b - flat_a) or (flat_a - full):
                add('multiset', f'after the failing call: lost {sorted((flat_b - flat_a).elements())}, extra {sorted((flat_a - full).elements())}')
        res_j = ('none',) if (side and got is None) else res
        p = oracle_order(w, call, before, judged, res_j)
        if p:
            add('order', p)
        p = oracle_placement(w, call, before, judged, res_j)
        if p:
            add('placement', p)
        p = None if side else oracle_returned_index(w, call, before, moms, res)
        if p:
            add('retindex', p)
        # chained inserts written out in the history: k = c.insert(k, A, s); c.insert(k, B, s') keeps A before B
        if call['c'] == 'insert' and call.get('chained') and last_insert and call['i'] == last_insert['ret'] and res[0] == 'int' \
                and len(set(flat_a)) == sum(flat_a.values()):
            bad = chain_clause(w, last_insert['ins'], item_uids(call['items']), moms)
            if bad:
                x, y, p2 = bad
                add('retindex', f'chained inserts: {last_insert["how"]} returned {last_insert["ret"]}; the next call, {call["s"]} insert of '
                                f'{call["items"]} at that index, gives {moms}: operation {y} {w.spec(y)} (moment {p2[y][1]}) does not come after '
                                f'the conflicting operation {x} {w.spec(x)} (moment {p2[x][1]}) inserted by the call before')
        if call['c'] in ('insert', 'range') and res[0] == 'int':
            last_insert = dict(ret=res[1], ins=item_uids(call['items']),
                               how=f'{call["c"]} {({f: v for f, v in call.items() if f not in ("c", "chained")})} on {before}')
        elif call['c'] not in QUERIES:
            last_insert = None
        w.last_ret = last_insert['ret'] if last_insert else None
        if shadow is not None:
            # the edit itself must not depend on what the circuit remembers of its past: the same call on a freshly
            # rebuilt equal circuit gives the same result and the same moments
            res2 = exec_call(shadow, call)
            moms2 = shadow.moments_uids()
            if call['c'] == 'insert' and res[0] == res2[0] == 'int':
                # a returned insertion index denotes a position of the resulting circuit: indices past the end are the end
                res_c, res2_c = ('int', clamp(res[1], len(moms))), ('int', clamp(res2[1], len(moms2)))
            else:
                res_c, res2_c = res, res2
            if (res2_c, moms2) != (res_c, moms):
                add('rebuilt', f'{call["c"]} on the circuit {before} gives {res} and moments {moms}; the same call on a freshly '
                               f'rebuilt equal circuit gives {res2} and moments {moms2}')
        if call['c'] in QUERIES or call['c'] not in BASIC:
            for p in oracle_queries(w, random.Random(step * 7919 + 13)):      # deterministic per step: shrinking stays reproducible
                add('query', p)
            # the oracle has filled the circuit's lazy summaries: make that part of the history the model sees
            for q in SUMMARY_QUERIES:
                syn = dict(c=q, syn=True)
                rendered.append(coq_scall(w, syn))
                out_calls.append(syn)
                trace.append((exec_call(w, syn), w.moments_uids()))
            # the frozen view handed out just now (q_freeze above) is an object of its own: later edits must not reach it
            fv = w.c.freeze()
            if not any(v['c'] is fv for v in w.views):
                w.views = w.views[-2:] + [dict(c=fv, mobjs=list(fv.moments), moms=w.moments_uids(fv), role='frozen view taken',
                                               at=at, how='freeze()', bad=False)]
    for p in oracle_queries(w, random.Random(len(out_calls)), heavy=True):
        problems.append((len(out_calls) - 1, 'query', p))
    # every query on an object put aside answers as a freshly rebuilt equal circuit would (its lazily cached summaries
    # belong to it alone)
    for hd in w.held[-2:]:
        if not hd['bad']:
            for p in oracle_queries(world_of(w, hd['c']), random.Random(len(out_calls) + 1)):
                problems.append((len(out_calls) - 1, 'query', f'on the {hd["role"]} at step {hd["at"]} ({hd["how"]}): {p}'))
    w.held_final = [w.moments_uids(hd['c']) for hd in w.held]
    return out_calls, trace, problems


def history_doc(w, calls):
    return dict(kind='history', ops={str(u): s for u, s in w.ops0.items()}, calls=calls)


def nontrivial(w, calls, trace):
    """>= 3 mutating calls, >= 3 operations left, a moment with >= 2 operations."""
    muts = sum(1 for c in calls if c['c'] not in QUERIES)
    moms = trace[-1][1] if trace else []
    return muts >= 3 and sum(len(m) for m in moms) >= 3 and any(len(m) >= 2 for m in moms)


# ---- the check -----------------------------------------------------------------------------------------
def run(ctx):
    cirq = env.import_cirq()
    ctx.rule = ('random edit histories of 1-40 public calls starting from Circuit(); operations on 5 qubits and 3 keys '
                '(plain, parameterized, measurement, classically controlled, multi-key, zero-qubit), whole Moments, empty moments, '
                'all five strategies, indices negative/past the end, batch/range/frontier edits, slice assignment, deletion, clearing, '
                '+, *, **-1, zip, concat_ragged, transform_qubits, freeze/unfreeze, with_tags, queries interleaved; plus the edit-then-append grid '
                '(circuits built by Circuit(tree)/appends in three ways, one aimed edit of every kind on/behind the last operation of each qubit and key, '
                'then single-operation and whole-tree appends onto all qubits and keys); plus the insert-then-insert grid (18 tree shapes x every index x 5 strategies on a '
                'key-free base, a base with keys and rng-drawn bases, each followed by an insert at the returned index); plus the write-into-range grid (every 3-moment occupancy pattern over two qubits '
                'x ranges / frontier starts x trees tied through shared qubits in every order, a base with keys, rng-drawn bases and trees, half followed by an insert at the returned index); '
                'plus the derive-then-edit grid (two bases x tags / no tags x summaries filled or not x 37 circuit-making expressions x edits on the derived circuit or on the source, every in-place and batch mutator, plus rng-drawn openings); after every call the '
                'moments (uid lists), return value / exception class are compared with the Gallina model (and at the end the contents of every circuit object put aside); non-trivial = >= 3 mutating '
                'calls, >= 3 operations left and a moment with >= 2 operations; distinct by canonical history')
    ctx.assumptions += ['vf/checks/c05.py adapters: op vocabulary (uid-carrying gates/operations), canonicalisation of results, Gallina literal printing',
                        'spec-level oracles in vf/checks/c05.py are the reading of the property text used to classify disagreements']
    ctx.set_obligations(coq.compile_props('C05'))
    vocab = Vocab(cirq)
    witness_stream(ctx, cirq, vocab)
    moment_stream(ctx, cirq, vocab, 150 if ctx.tier == 'quick' else 400)
    grid_stream(ctx, cirq, vocab)
    retindex_stream(ctx, cirq, vocab)
    n = 500 if ctx.tier == 'quick' else 6000
    history_stream(ctx, cirq, vocab, n)
    range_stream(ctx, cirq, vocab)
    derive_stream(ctx, cirq, vocab)


# histories the Coq development uses as witnesses of refuted statements: replayed on the implementation
WITNESSES = [
    dict(name='concat_ragged_control_before_measurement',
         ops={'1': dict(q=[0], mk=[], ck=[], pn=[], kind='u'), '2': dict(q=[0], mk=[0], ck=[], pn=[], kind='meas'),
              '3': dict(q=[1], mk=[], ck=[0], pn=[], kind='cc')},
         final=[[1, 3], [2]],
         calls=[dict(c='new', items=[{'m': [1]}, {'m': [2]}], s='EARLIEST'), dict(c='concat', others=[[[3]]], align='LEFT')]),
    dict(name='insert_at_frontier_same_key',
         ops={'1': dict(q=[3], mk=[], ck=[], pn=[], kind='u'), '2': dict(q=[3], mk=[0], ck=[], pn=[], kind='meas'),
              '3': dict(q=[2], mk=[0], ck=[], pn=[], kind='meas')},
         final=[[1, 3], [2]],
         calls=[dict(c='frontier', items=[1, 2, 3], start=0, f=None)]),
]


def witness_stream(ctx, cirq, vocab):
    import random
    for wdoc in WITNESSES:
        doc = dict(kind='history', ops=wdoc['ops'], calls=wdoc['calls'])
        w = World(cirq, vocab, doc['ops'])
        calls, trace, problems = run_history(w, doc['calls'], random.Random(0))
        ctx.count('witness', doc, True, sample=dict(name=wdoc['name'], final_moments=trace[-1][1]))
        if trace[-1][1] != wdoc['final']:
            ctx.mark_broken('witness:' + wdoc['name'],
                            f'the refuted theorem in Props/C05.v states the final moments {wdoc["final"]}, the implementation gives {trace[-1][1]} '
                            '(if the defect was repaired, the theorem and the known finding must be retired)')
        for (step, kind, what) in problems:
            report_problem(ctx, cirq, vocab, w, calls, step, kind, what)


def moment_stream(ctx, cirq, vocab, n):
    """Chains of public Moment calls: after every call the operations (uids) and the moment-level indexes
    (qubits, measurement keys, control keys) are compared with the model and with a freshly built Moment."""
    rng = ctx.rng
    rows = []
    for i in range(n):
        w = World(cirq, vocab)
        gen = Gen(rng, w)
        m = cirq.Moment()
        calls, trace = [], []
        for step in range(rng.choice([1, 2, 4, 8, 12])):
            r = rng.random()
            used = {q.x for q in m.qubits}
            free = [q for q in range(NQ) if q not in used]
            pick = lambda: gen.new_op(free if (free and rng.random() < 0.75) else None)
            if r < 0.4:
                call = ('MWithOperation', [pick()])
            elif r < 0.65:
                call = ('MWithOperations', [pick() for _ in range(rng.randint(0, 3))])
            elif r < 0.85:
                call = ('MWithoutTouching', rng.sample(range(NQ), rng.randint(0, 3)))
            else:
                call = ('MNew', [pick() for _ in range(rng.randint(0, 3))])
            ok = True
            try:
                if call[0] == 'MWithOperation':
                    m = m.with_operation(w.op(call[1][0]))
                elif call[0] == 'MWithOperations':
                    m = (m + [w.op(u) for u in call[1]]) if rng.random() < 0.3 else m.with_operations(*[w.op(u) for u in call[1]])
                elif call[0] == 'MWithoutTouching':
                    m = m.without_operations_touching([vocab.q(q) for q in call[1]])
                else:
                    m = cirq.Moment([w.op(u) for u in call[1]])
            except ValueError:
                ok = False
            uids = [vocab.uid_of(op) for op in m.operations]
            obs = (ok, uids, sorted(q.x for q in m.qubits),
                   sorted(int(str(k)[1:]) for k in cirq.measurement_key_objs(m)),
                   sorted(int(str(k)[1:]) for k in cirq.control_keys(m)))
            calls.append(call)
            trace.append(obs)
            # spec level: a freshly built Moment of the same operations answers the same
            f = cirq.Moment(list(m.operations))
            qs = [vocab.q(q) for q in rng.sample(range(NQ), 2)]
            same = (m == f and hash(m) == hash(f) and m.qubits == f.qubits and m.operates_on(qs) == f.operates_on(qs)
                    and cirq.measurement_key_objs(m) == cirq.measurement_key_objs(f) and cirq.control_keys(m) == cirq.control_keys(f)
                    and m.operation_at(qs[0]) == f.operation_at(qs[0]))
            seen = set()
            disjoint = all(not (seen & set(op.qubits)) and not seen.update(op.qubits) for op in m.operations)
            if not same or not disjoint:
                ctx.violation('moment:' + '>'.join(c[0] for c in calls),
                              f'a Moment built by {calls} differs from a freshly built Moment of the same operations (or holds overlapping operations)',
                              dict(kind='moment', ops={str(u): sp for u, sp in w.ops0.items()}, calls=calls))
        rows.append((w, calls, trace))
        ctx.count('moment', [c for c in calls], len(calls) >= 2 and len(trace[-1][1]) >= 2,
                  sample=dict(calls=calls[:3], final=trace[-1][1]))

    def mcall(w, c):
        if c[0] == 'MWithOperation':
            return f'MWithOperation {coq_op(w, c[1][0])}'
        if c[0] == 'MWithoutTouching':
            return f'MWithoutTouching {ZL(c[1])}'
        return f'{c[0]} {coq_moment(w, c[1])}'
    text = ('From Coq Require Import ZArith List Bool.\nFrom VF Require Import Base.Harness Circ.Moments Circ.MomentCalls Circ.Compare.\n'
            'Import ListNotations.\nOpen Scope Z_scope.\n')
    text += 'Definition mh : list (list mcall * list (bool * (list Z * (list Z * (list Z * list Z))))) := [\n'
    text += ';\n'.join('([' + '; '.join(mcall(w, c) for c in calls) + '],\n  [' +
                       '; '.join(f'({"true" if o[0] else "false"}, ({ZL(o[1])}, ({ZL(o[2])}, ({ZL(o[3])}, {ZL(o[4])}))))' for o in trace) + '])'
                       for (w, calls, trace) in rows) + '].\n'
    text += 'Eval vm_compute in failing check_moment_history mh.\n'
    vals = coq.parse_evals(coq.coq_eval(f'c05_moment_{ctx.seed}', text))
    assert len(vals) == 1, vals
    for idx in coq.parse_nat_list(vals[0]):
        w, calls, trace = rows[idx]
        ctx.mark_broken('correspondence:moment', f'model and implementation differ on the Moment chain {calls}: implementation gave {trace}')


def account(ctx, stream, w, calls, trace, problems, cirq, vocab, cap=None):
    """Counts one executed history and reports what the spec-level oracles found on it.  `cap` (a Counter shared by the
    histories of one grid, with cap['max'] set) stops minimising after that many failing histories per oracle kind: a grid
    hits one defect hundreds of times."""
    ctx.count(stream, history_doc(w, calls), nontrivial(w, calls, trace),
              sample=dict(calls=calls[:4], final_moments=trace[-1][1]))
    for c, (r, _) in zip(calls, trace):
        if c.get('syn'):
            continue
        ctx.streams['call:' + c['c']] += 1
        if r[0] == 'err':
            ctx.streams['raised:' + r[1]] += 1
        if 's' in c and isinstance(c['s'], str):
            ctx.streams['strategy:' + c['s']] += 1
    seen = set()
    for (step, kind, what) in problems:
        if kind in seen:
            continue
        seen.add(kind)
        if cap is not None:
            if cap[kind] >= cap['max']:
                continue
            cap[kind] += 1
        report_problem(ctx, cirq, vocab, w, calls, step, kind, what)


def history_stream(ctx, cirq, vocab, n, shard=300):
    hists = []
    for i in range(n):
        w = World(cirq, vocab)
        gen = Gen(ctx.rng, w)
        ncalls = ctx.rng.choice([1, 2, 3, 5, 8, 12, 20, 30, 40])
        calls, trace, problems = run_history(w, None, ctx.rng, gen, ncalls)
        hists.append((w, calls, trace))
        account(ctx, 'history', w, calls, trace, problems, cirq, vocab)
    compare_with_model(ctx, cirq, vocab, hists, 'hist', shard)


# ---- edits on a circuit whose append-placement cache is alive, then appends everywhere -------------------------
# A circuit built only by Circuit(tree) / EARLIEST appends carries the placement cache.  The grid applies one edit of
# every kind to it, aimed at the operation that is the last one on some qubit / measurement key / control key (what an
# append onto that qubit or key is placed against), and then appends one operation onto every qubit and every key (and a
# whole tree at once): each append is judged by the placement oracle, the rebuilt-circuit oracle and the model.
U1 = lambda q: dict(q=list(q), mk=[], ck=[], pn=[], kind='u')
FIXED_BASE = {
    1: U1([0]), 2: U1([0, 1]), 3: U1([2]), 4: dict(q=[3], mk=[0], ck=[], pn=[], kind='meas'),
    5: dict(q=[4], mk=[], ck=[0], pn=[], kind='cc'), 6: U1([0]), 7: U1([0]),
    8: dict(q=[1], mk=[1], ck=[], pn=[], kind='meas'), 9: U1([3]), 10: dict(q=[2], mk=[2], ck=[], pn=[], kind='kop'),
    11: dict(q=[2], mk=[], ck=[1], pn=[], kind='cc'),
}       # EARLIEST gives [[1, 3, 4], [2, 5, 9, 10], [6, 8], [7, 11]]


def build_calls(items, form, rng):
    """Three ways of building the same circuit that all keep the placement cache."""
    if form == 0:
        return [dict(c='new', items=items, s='EARLIEST')]
    if form == 1:
        return [dict(c='empty')] + [dict(c='append', items=[it], s='EARLIEST', iadd=(j % 3 == 2)) for j, it in enumerate(items)]
    h = max(1, len(items) // 2)
    return [dict(c='new', items=items[:h], s='EARLIEST'), dict(c='append', items=items[h:], s='EARLIEST', iadd=False)]


def grid_histories(cirq, vocab, rng, tier):
    """Yields (ops, calls) of the histories build ; edit ; appends."""
    bases = [(dict(FIXED_BASE), list(range(1, 12)), None)]
    for _ in range(1 if tier == 'quick' else 6):
        w0 = World(cirq, vocab)
        g0 = Gen(rng, w0)
        its = g0.items(6, 10)
        bases.append((dict(w0.ops), its, None))
    count = 0
    for bi, (ops, items, _) in enumerate(bases):
        forms = [0, 1, 2] if (tier != 'quick' and bi == 0) else [None]
        for form0 in forms:
            # the state after the build (the same for every form)
            w = World(cirq, vocab, ops)
            for c in build_calls(items, 0, rng):
                exec_call(w, c)
            moms = w.moments_uids()
            n = len(moms)
            g = Gen(rng, w)
            g.next_uid = max(ops) + 1
            last = {}
            for i, m in enumerate(moms):
                for u in m:
                    sp = w.spec(u)
                    for key in [('q', x) for x in sp['q']] + [('m', x) for x in sp['mk']] + [('c', x) for x in sp['ck']]:
                        last[key] = (i, u)
            targets = sorted(set(last.values()))
            others = [(i, u) for i, m in enumerate(moms) for u in m if (i, u) not in targets]
            if others:
                targets.append(rng.choice(others))
            edits = []
            for (i, u) in targets:
                qs = w.spec(u)['q']
                spare = [q for q in range(NQ) if q not in qs]
                if qs:
                    edits.append(dict(c='clear', q=[qs[0]], idx=[i]))
                    edits.append(dict(c='clear', q=qs + rng.sample(spare, min(1, len(spare))), idx=list(range(-1, n + 1))))
                    edits.append(dict(c='clear', q=list(qs), idx=[i, rng.randrange(n)]))
                edits.append(dict(c='bremove', rs=[[i, u]]))
                edits.append(dict(c='bremove', rs=[[i - n, u]]))
                rep = g.next_uid
                g.next_uid += 1
                w.add_op(rep, U1(qs))
                edits.append(dict(c='breplace', rs=[[i, u, rep]]))
                edits.append(dict(c='delitem', i=i))
                edits.append(dict(c='delitem', i=i - n))
                edits.append(dict(c='setitem', i=i, m=[x for x in moms[i] if x != u]))
                edits.append(dict(c='delslice', a=i, b=None))
                edits.append(dict(c='setslice', a=i, b=i + 1, ms=[]))
                edits.append(dict(c='setslice', a=i, b=i + 1, ms=[[x for x in moms[i] if x != u], []]))
                ins = g.next_uid
                g.next_uid += 1
                w.add_op(ins, U1(qs))
                edits.append(dict(c='insert', i=i, items=[ins], s=rng.choice(STRATS)))
            # edits that ADD an operation behind the last one on a qubit / key (into an existing moment where it fits)
            adds = [U1([q]) for q in range(NQ)] + [dict(q=[], mk=[k], ck=[], pn=[], kind='kop') for k in range(NK)] \
                + [dict(q=[NQ + k], mk=[], ck=[k], pn=[], kind='cc') for k in range(NK)]
            for sp in adds:
                a = g.next_uid
                g.next_uid += 1
                w.add_op(a, sp)
                behind = max([i for i, m in enumerate(moms) if any(conflict(w, x, a) for x in m)], default=-1)
                fits = [j for j in range(behind + 1, n) if not set(sp['q']) & {q for x in moms[j] for q in w.spec(x)['q']}]
                if not fits:
                    continue
                j = rng.choice(fits)
                edits.append(dict(c='binto', rs=[[j, [a]]]))
                edits.append(dict(c='range', items=[a], s=j, e=j + 1))
                edits.append(dict(c='frontier', items=[a], start=j, f=None))
                edits.append(dict(c='binsert', ins=[[j, [a]]]))
                edits.append(dict(c='setitem', i=j, m=moms[j] + [a]))
            for e in edits:
                e['aimed'] = True
            # and edits of every kind drawn by the generator of the random stream
            tries = 0
            want = 12 if tier == 'quick' else 40
            while sum(1 for e in edits if not e.get('aimed')) < want and tries < 400:
                tries += 1
                e = g.call()
                if e['c'] in QUERIES or e['c'] in ('new', 'empty', 'append'):
                    continue
                edits.append(e)
            table = dict(w.ops0)
            for e in edits:
                aimed = e.pop('aimed', False)
                form = form0 if form0 is not None else count % 3
                count += 1
                ops2 = dict(table)
                nxt = max(ops2) + 1
                singles = []
                order = list(range(NQ))
                rng.shuffle(order)
                for q in order:
                    ops2[nxt] = U1([q])
                    singles.append(nxt)
                    nxt += 1
                for k in range(NK):         # conflict with nothing but the measurements of key k
                    ops2[nxt] = dict(q=[NQ + k], mk=[], ck=[k], pn=[], kind='cc')
                    singles.append(nxt)
                    nxt += 1
                for k in range(NK):         # conflict with nothing but measurements and controls of key k
                    ops2[nxt] = dict(q=[], mk=[k], ck=[], pn=[], kind='kop')
                    singles.append(nxt)
                    nxt += 1
                if aimed and count % 4 == 0 or (not aimed and count % 2 == 0):      # the whole tree in one append
                    cut = rng.randrange(len(singles))
                    ops2[nxt] = U1([order[0]])
                    tree = singles[:cut] + [{'m': [nxt]}] + singles[cut:]
                    probes = [dict(c='append', items=tree, s='EARLIEST', iadd=rng.random() < 0.3)]
                else:
                    probes = [dict(c='append', items=[u], s='EARLIEST', iadd=(j % 4 == 3)) for j, u in enumerate(singles)]
                yield ops2, build_calls(items, form, rng) + [e] + probes


def grid_stream(ctx, cirq, vocab):
    import random
    hists = []
    for ops, calls in grid_histories(cirq, vocab, ctx.rng, ctx.tier):
        w = World(cirq, vocab, ops)
        calls, trace, problems = run_history(w, calls, random.Random(0))
        hists.append((w, calls, trace))
        account(ctx, 'edit-then-append', w, calls, trace, problems, cirq, vocab)
    compare_with_model(ctx, cirq, vocab, hists, 'grid', 300)


# ---- derive-then-edit: circuit objects derived from one another are independent -------------------------------------
# A circuit (with and without tags, lazily cached summaries filled or not) ; one expression of every kind that makes a
# circuit from it (copies in every spelling, with_tags, untagged, slices, +, *, ** -1, transform_qubits, zip,
# concat_ragged - on the circuit and on its frozen view - and the spellings documented to return the circuit itself) ;
# then every in-place mutator followed by every batch mutator, either on the derived circuit (the source is put aside) or on
# the source (the derived circuit is put aside).  After every call the objects put aside must hold what they held; at the
# end every query on them must answer as a rebuilt equal circuit does; the model (Circ/Store.v) is compared on the trace of
# the circuit under edit and on the final contents of everything put aside.
PLAIN_BASE = {1: U1([0]), 2: U1([0, 1]), 3: U1([2]), 4: U1([3]), 5: U1([1, 2]), 6: U1([0]), 7: U1([4]), 8: U1([3, 4])}


def derive_forms(o1, o2):
    out = [dict(c='copy', via=v) for v in ('copy', 'freeze', 'unfreeze', 'copymod', 'nocopy', 'frozen_nocopy')]
    out += [dict(c='with_tags'), dict(c='with_tags', none=True), dict(c='untagged'), dict(c='untagged', frozen=True)]
    out += [dict(c='slice', a=a, b=b, frozen=f) for (a, b) in ((None, None), (1, None), (0, 2), (None, -1)) for f in (False, True)]
    out += [dict(c='add', items=[]), dict(c='add', items=[o1]), dict(c='add', items=[{'m': [o1]}], circ=True),
            dict(c='add', items=[], circ=True, ofrozen=True), dict(c='add', items=[], frozen=True),
            dict(c='radd', items=[]), dict(c='radd', items=[o1]),
            dict(c='mul', n=1), dict(c='mul', n=1, r=True), dict(c='mul', n=2), dict(c='mul', n=1, frozen=True),
            dict(c='inv'), dict(c='transform', f=[]), dict(c='transform', f=[[0, 1], [1, 0]]),
            dict(c='zip', others=[], align='LEFT'), dict(c='zip', others=[[[o2]]], align='LEFT'),
            dict(c='zip', others=[], align='LEFT', frozen=True),
            dict(c='concat', others=[], align='LEFT'), dict(c='concat', others=[[[o2]]], align='LEFT')]
    return out


def derive_histories(cirq, vocab, rng, tier):
    """Yields (ops, calls, free): free > 0 asks for that many more calls drawn by the generator of the random stream."""
    count = 0
    for base, inv_ok in ((FIXED_BASE, False), (PLAIN_BASE, True)):
        ops = dict(base)
        nxt = 40
        e = []
        for q in (0, 1, 2, 3, 0, 1, 2, 3, 4, 0):
            ops[nxt] = U1([q])
            e.append(nxt)
            nxt += 1
        for q in (5, 7, 5, 6, 6):             # qubits no base uses: p, r, p2 for the batch edits; o2 for zip / concat; o1
            ops[nxt] = U1([q])
            nxt += 1
        pq, rq, p2, o2, o1 = nxt - 5, nxt - 4, nxt - 3, nxt - 2, nxt - 1
        in_place = [dict(c='append', items=[e[0]], s='EARLIEST', iadd=False), dict(c='insert', i=0, items=[e[1]], s='NEW'),
                    dict(c='clear', q=[0], idx=[0, 1, 2]), dict(c='setitem', i=-1, m=[e[2]]), dict(c='delitem', i=0),
                    dict(c='setslice', a=0, b=1, ms=[[e[3]]]), dict(c='range', items=[e[4]], s=0, e=1),
                    dict(c='frontier', items=[e[5]], start=0, f=None), dict(c='append', items=[e[6]], s='EARLIEST', iadd=True)]
        batch = [dict(c='binsert', ins=[[0, [e[7]]], [1, [e[8]]]]), dict(c='binto', rs=[[0, [pq, rq]]]),
                 dict(c='breplace', rs=[[0, pq, p2]]), dict(c='bremove', rs=[[0, rq]]), dict(c='delslice', a=-1, b=None),
                 dict(c='append', items=[e[9]], s='EARLIEST', iadd=False), dict(c='imul', n=2)]
        # quick: every in-place mutator, then batch edits of the three kinds (a group of inserts, into a moment, repetition)
        seqs = [in_place[:-1] + [batch[0], batch[1], batch[-1]]] if tier == 'quick' else \
            [in_place + batch, batch + in_place[:-1]] + [[x] for x in in_place[:-1] + batch]
        for form in derive_forms(o1, o2):
            if form['c'] == 'inv' and not inv_ok:
                continue
            if tier == 'quick' and inv_ok != (form['c'] not in ('copy', 'with_tags', 'untagged', 'slice')):
                continue            # quick tier: the base with keys for the expressions that keep the operations as they are, the plain one for the others
            for tagged in (False, True):
                for side in (False, True):
                    if side and form['c'] not in SIDEABLE:
                        continue
                    for seq in seqs:
                        count += 1
                        calls = [dict(c='new', items=sorted(base), s='EARLIEST')]
                        if tagged:
                            calls.append(dict(c='with_tags'))
                        if count % 2:       # the lazily cached summaries of the source are filled
                            calls += [dict(c='q_all_qubits'), dict(c='q_freeze'), dict(c='q_is_param')]
                        calls.append(dict(form, side=True) if side else dict(form))
                        yield dict(ops), calls + [dict(x) for x in seq], 0
    # openings drawn for this VERIF_SEED: any circuit, tags or not, any expression, then free drawing
    for _ in range(40 if tier == 'quick' else 600):
        w0 = World(cirq, vocab)
        g0 = Gen(rng, w0)
        calls = [dict(c='new', items=g0.items(3, 8), s=g0.strategy())]
        if rng.random() < 0.5:
            calls.append(dict(c='with_tags'))
        w0.c = cirq.Circuit()
        for c in calls:
            exec_call(w0, c)
        d = g0.derive()
        if d['c'] in SIDEABLE and rng.random() < 0.5:
            d['side'] = True
        yield dict(w0.ops0), calls + [d], rng.choice([3, 5, 8])


def derive_stream(ctx, cirq, vocab):
    import random
    hists = []
    cap = collections.Counter(max=3)
    for ops, calls, free in derive_histories(cirq, vocab, ctx.rng, ctx.tier):
        w = World(cirq, vocab, ops)
        if free:
            gen = Gen(ctx.rng, w)
            gen.next_uid = max(ops, default=0) + 1
            gen.script = list(calls)
            calls, trace, problems = run_history(w, None, ctx.rng, gen, len(calls) + free)
        else:
            calls, trace, problems = run_history(w, calls, random.Random(0))
        hists.append((w, calls, trace))
        account(ctx, 'derive-then-edit', w, calls, trace, problems, cirq, vocab, cap=cap)
    compare_with_model(ctx, cirq, vocab, hists, 'derive', 300, max_search=6)


# ---- the returned insertion index: one insert of every tree shape at every index with every strategy, then a chained insert --------
# The index an insert returns is only observable through what is done with it.  The grid inserts trees of every conflict
# shape (one operation; two or three on one qubit; independent ones; two-qubit operations tied to one-qubit ones in every
# order; operations on an unused qubit; measurement / control / bare key conflicts; Moments between operations; only Moments;
# nothing) at every index of small circuits (one without and one with keys, plus rng-drawn ones; built from Moments or by
# the EARLIEST constructor, i.e. with the append-placement cache alive) with each of the five strategies, and then inserts a
# second tree at the returned index with a rotating strategy.  The returned-index oracle probes every first insert with
# follow-up inserts of all five strategies; every step also goes through the model comparison and the other oracles.
def tree_shapes(a, b, f, k0, k1):
    M = lambda q, k: dict(q=[q], mk=[k], ck=[], pn=[], kind='meas')
    C = lambda q, k: dict(q=[q], mk=[], ck=[k], pn=[], kind='cc')
    K = lambda k: dict(q=[], mk=[k], ck=[], pn=[], kind='kop')
    return [
        [U1([a])], [U1([a]), U1([a])], [U1([a]), U1([a]), U1([a])], [U1([a]), U1([b])],
        [U1([a, b]), U1([b]), U1([a])], [U1([a]), U1([b]), U1([a, b])], [U1([a]), U1([a, b]), U1([b])],
        [U1([a]), U1([b]), U1([a]), U1([b])], [U1([f]), U1([f]), U1([f])], [U1([a]), U1([f]), U1([a])],
        [M(a, k0), C(b, k0)], [C(b, k0), M(a, k0), C(f, k0)], [K(k1), K(k1)], [M(a, k0), M(b, k0)],
        [U1([a]), ('m', [U1([a])]), U1([a])], [('m', [U1([a])]), ('m', [U1([b])])], [('m', [U1([a]), U1([b])]), U1([a]), U1([a])],
        [],
    ]


def retindex_histories(cirq, vocab, rng, tier):
    """Yields (ops, calls): build ; insert(k, tree, s) ; insert(<returned index>, second tree, s')."""
    quick = tier == 'quick'
    bases = []
    # no keys, two busy qubits, a free one: [[1], [2, 3], [4]]
    ops = {1: U1([0]), 2: U1([0]), 3: U1([1]), 4: U1([1])}
    bases.append((ops, [dict(c='new', items=[{'m': [1]}, {'m': [2, 3]}, {'m': [4]}], s='EARLIEST')], (0, 1, 2, 0, 1), None))
    # keys and controls, every qubit busy, built by the EARLIEST constructor (cache alive)
    bases.append((dict(FIXED_BASE), [dict(c='new', items=list(range(1, 12)), s='EARLIEST')], (0, 2, NQ + 1, 0, 1), 3 if quick else None))
    for _ in range(1 if quick else 8):
        w0 = World(cirq, vocab)
        g0 = Gen(rng, w0)
        if rng.random() < 0.5:
            build = [dict(c='new', items=[{'m': m} for m in g0.circuit(4)], s='EARLIEST')]
        else:
            build = [dict(c='new', items=g0.items(3, 8), s='EARLIEST')]
        a, b, f = rng.sample(range(NQ), 3)
        bases.append((dict(w0.ops), build, (a, b, f, rng.randrange(NK), rng.randrange(NK)), 3 if quick else None))
    count = 0
    for ops, build, par, nidx in bases:
        w = World(cirq, vocab, ops)
        for c in build:
            exec_call(w, c)
        n = len(w.c)
        idxs = list(range(-1, n + 2))
        if nidx is not None and len(idxs) > nidx:
            idxs = sorted(rng.sample(range(0, n + 1), min(nidx, n + 1)))
        for shape in tree_shapes(*par):
            for k in idxs:
                for s1 in STRATS:
                    ops2 = dict(ops)
                    nxt = max(ops2, default=0) + 1

                    def fresh(shape):
                        nonlocal nxt
                        tree = []
                        for it in shape:
                            sps = it[1] if isinstance(it, tuple) else [it]
                            us = []
                            for sp in sps:
                                ops2[nxt] = dict(sp)
                                us.append(nxt)
                                nxt += 1
                            tree.append({'m': us} if isinstance(it, tuple) else us[0])
                        return tree
                    first = dict(c='insert', i=k, items=fresh(shape), s=s1)
                    # the index the implementation returns decides where the chained insert goes
                    w1 = World(cirq, vocab, ops2)
                    for c in build:
                        exec_call(w1, c)
                    r1 = exec_call(w1, first)
                    calls = build + [first]
                    if r1[0] == 'int':
                        second = fresh(shape) if (shape and (count // 5) % 2 == 0) else fresh([U1([par[0]])])
                        calls = calls + [dict(c='insert', i=r1[1], items=second, s=STRATS[(count // 5 + count) % 5], chained=True)]
                    count += 1
                    yield ops2, calls


def retindex_stream(ctx, cirq, vocab):
    import random
    hists = []
    for ops, calls in retindex_histories(cirq, vocab, ctx.rng, ctx.tier):
        w = World(cirq, vocab, ops)
        calls, trace, problems = run_history(w, calls, random.Random(0))
        hists.append((w, calls, trace))
        account(ctx, 'insert-then-insert', w, calls, trace, problems, cirq, vocab)
    compare_with_model(ctx, cirq, vocab, hists, 'retidx', 300)


# ---- inline writes into a range of partly occupied moments: every occupancy pattern x every range x trees tied through shared qubits --------
# insert_into_range (and insert_at_frontier) write a SEQUENCE of operations into moments that already hold operations: where
# an operation lands depends on which moments of the range are blocked for it, and operations of the tree that share a qubit
# must still come out in the order given.  Whether they do depends on the conjunction "an early moment of the range is
# blocked for an earlier operation of the tree but free for a later one that is tied to it through another qubit", which
# random histories on 5 qubits almost never produce.  The grid enumerates it: every circuit of three moments whose moments
# hold nothing / an operation on a / on b / on both (64 circuits; the third qubit f is always free), every range [s, e) (every
# frontier start), and trees in which consecutive operations are tied through one qubit while differing on another, in
# every order (two-qubit operation first / last / in the middle, chains a-b, b-f, f), plus the conflict shapes of the
# insert-then-insert grid (keys, Moments in the tree, empty tree), plus a base with keys whose placement cache is alive and
# rng-drawn bases with rng-drawn trees.  Half of the histories go on with an insert at the returned index.  All steps are
# compared with the model and judged by every oracle (the order clauses among the inserted operations and against the
# operations in front of / behind the range, multiset, returned index, rebuilt circuit).
def fresh_tree(ops2, shape):
    """New operations (next free uids in ops2) of the given shapes; ('m', [specs]) is a Moment."""
    nxt = max(ops2, default=0) + 1
    tree = []
    for it in shape:
        sps = it[1] if isinstance(it, tuple) else [it]
        us = []
        for sp in sps:
            ops2[nxt] = dict(sp)
            us.append(nxt)
            nxt += 1
        tree.append({'m': us} if isinstance(it, tuple) else us[0])
    return tree


def tied_shapes(a, b, f):
    """Trees whose consecutive operations share one qubit and differ on another (each list: operations in the order given)."""
    return [
        [U1([a, b]), U1([b])], [U1([a]), U1([a, b])], [U1([a, b]), U1([b]), U1([a])], [U1([a]), U1([b]), U1([a, b])],
        [U1([a]), U1([a, b]), U1([b])], [U1([a, b]), U1([b, f]), U1([f])],
        [U1([a]), U1([a])], [U1([a]), U1([b]), U1([a]), U1([b])], [U1([a, b]), U1([a, b])], [U1([a, f]), U1([f]), U1([b, f]), U1([b])],
    ]


def occupancy_bases(a, b, L=3):
    """Every circuit of L moments in which a moment holds nothing, an operation on a, one on b, or both (as two
    operations or as one two-qubit operation, alternating).  Yields (ops, build calls)."""
    for p in range(4 ** L):
        ops, moms, uid = {}, [], 1
        for j in range(L):
            d = (p // 4 ** j) % 4
            if d == 3 and (p // 5 + j) % 2:
                sps = [U1([a, b])]
            else:
                sps = [U1([q]) for q, bit in ((a, 1), (b, 2)) if d & bit]
            m = []
            for sp in sps:
                ops[uid] = sp
                m.append(uid)
                uid += 1
            moms.append(m)
        yield ops, [dict(c='new', items=[{'m': m} for m in moms], s='EARLIEST')]


def range_histories(cirq, vocab, rng, tier):
    """Yields (ops, calls): build ; insert_into_range(tree, s, e) or insert_at_frontier(tree, start) [; insert(<returned index>, ...)]."""
    quick = tier == 'quick'
    a, b, f = 0, 1, 2
    tied = tied_shapes(a, b, f)
    allshapes = tied + [sh for sh in tree_shapes(a, b, f, 0, 1) if sh not in tied]
    count = 0

    def emit(ops, build, shape, edit):
        """edit: ('range', s, e) or ('frontier', start); shape: specs, or None for a tree drawn by the generator."""
        nonlocal count
        ops2 = dict(ops)
        if shape is None:
            w0 = World(cirq, vocab, ops2)
            g0 = Gen(rng, w0)
            g0.next_uid = max(ops2, default=0) + 1
            tree = g0.items(1, 4, moments=rng.random() < 0.2 and edit[0] == 'range')
            ops2 = dict(w0.ops)
        else:
            tree = fresh_tree(ops2, shape)
        if edit[0] == 'range':
            first = dict(c='range', items=tree, s=edit[1], e=edit[2])
        else:
            first = dict(c='frontier', items=tree, start=edit[1], f=None)
        calls = build + [first]
        if edit[0] == 'range' and count % 2 == 0:      # go on at the index the implementation returned
            w1 = World(cirq, vocab, ops2)
            for c in calls[:-1]:
                exec_call(w1, c)
            r1 = exec_call(w1, first)
            if r1[0] == 'int':
                second = fresh_tree(ops2, shape if (shape and count % 4 == 0) else [U1([a]), U1([b])])
                calls = calls + [dict(c='insert', i=r1[1], items=second, s=STRATS[(count // 2) % 5], chained=True)]
        count += 1
        return ops2, calls

    L = 3
    ranges = [(s, e) for s in range(L + 1) for e in range(s, L + 1)]
    wide = [(0, 3), (0, 2), (1, 3)]
    for bi, (ops, build) in enumerate(occupancy_bases(a, b, L)):
        for si, shape in enumerate(allshapes if not quick else tied[:6]):
            if quick:
                # the whole circuit as the range; for every other (circuit, tree) one more range, rotating through all of them;
                # for every fourth a frontier start
                todo = [('range', 0, L)]
                if (bi + si) % 2 == 0:
                    todo.append(('range',) + [r for r in ranges if r != (0, L)][(bi * 7 + si) // 2 % (len(ranges) - 1)])
                if (bi + si) % 4 == 1:
                    todo.append(('frontier', (bi + si) // 4 % (L + 1)))
            else:
                todo = [('range',) + r for r in (ranges if si < len(tied) else wide)] + [('frontier', st) for st in (range(L + 1) if si < len(tied) else (0, 2))]
            for edit in todo:
                if edit[0] == 'frontier' and any(isinstance(it, tuple) for it in shape):
                    continue          # insert_at_frontier is documented for operations
                yield emit(ops, build, shape, edit)
    # keys and controls, every qubit busy, built by the EARLIEST constructor (placement cache alive): [[1, 3, 4], [2, 5, 9, 10], [6, 8], [7, 11]]
    kb = [dict(c='new', items=list(range(1, 12)), s='EARLIEST')]
    kshapes = tied_shapes(0, 2, NQ + 1)[:6] + tree_shapes(0, 2, NQ + 1, 0, 1)
    for si, shape in enumerate(kshapes):
        rs = [(s, e) for s in range(5) for e in range(s, 5)]
        for r in (rs if not quick else [(0, 4), rs[si % len(rs)]][:1 + si % 2]):
            yield emit(dict(FIXED_BASE), kb, shape, ('range',) + r)
    # rng-drawn circuits (Moments, or a tree placed by the EARLIEST constructor) with rng-drawn trees and the tied ones
    for _ in range(2 if quick else 30):
        w0 = World(cirq, vocab)
        g0 = Gen(rng, w0)
        if rng.random() < 0.5:
            build = [dict(c='new', items=[{'m': m} for m in g0.circuit(4)], s='EARLIEST')]
        else:
            build = [dict(c='new', items=g0.items(3, 8), s='EARLIEST')]
        for c in build:
            exec_call(w0, c)
        n = len(w0.c)
        qa, qb, qf = rng.sample(range(NQ), 3)
        shapes = [None] * 6 + tied_shapes(qa, qb, qf)[:6]
        for shape in shapes:
            s = rng.randint(0, n)
            e = n if rng.random() < 0.5 else rng.randint(s, n)
            yield emit(dict(w0.ops), build, shape, ('range', s, e))


def range_stream(ctx, cirq, vocab):
    import random
    hists = []
    cap = collections.Counter(max=4)
    for ops, calls in range_histories(cirq, vocab, ctx.rng, ctx.tier):
        w = World(cirq, vocab, ops)
        calls, trace, problems = run_history(w, calls, random.Random(0))
        hists.append((w, calls, trace))
        account(ctx, 'write-into-range', w, calls, trace, problems, cirq, vocab, cap=cap)
    compare_with_model(ctx, cirq, vocab, hists, 'range', 500, max_search=6)


def compare_with_model(ctx, cirq, vocab, hists, name, shard, max_search=None):
    """max_search: after that many disagreeing histories the spec-level search is not repeated (the oracles have already
    judged every history of the stream when it ran; the search only minimises what they found on the disagreeing ones)."""
    searched = 0
    for s in range(0, len(hists), shard):
        part = hists[s:s + shard]
        text = ('From Coq Require Import ZArith List Bool.\nFrom VF Require Import Circ.Moments Circ.Placement Circ.Insert '
                'Circ.BatchEdit Circ.History Circ.Compare Circ.Store.\nImport ListNotations.\nOpen Scope Z_scope.\n')
        text += 'Definition hists : list (list scall * list (res * list (list Z)) * list (list (list Z))) := [\n'
        rows = []
        for (w, calls, trace) in part:
            cs = '[' + ';\n   '.join(w.rendered) + ']'
            ts = '[' + ';\n   '.join(f'({coq_res(r)}, {coq_zll(m)})' for r, m in trace) + ']'
            hs = '[' + ';\n   '.join(coq_zll(m) for m in w.held_final) + ']'
            rows.append(f'(({cs}),\n  ({ts}),\n  ({hs}))')
        text += ';\n'.join(rows) + '].\n'
        text += 'Eval vm_compute in bad_store_histories hists.\n'
        vals = coq.parse_evals(coq.coq_eval(f'c05_{name}_{ctx.seed}_{s}', text))
        assert len(vals) == 1, vals
        nums = coq.parse_nat_list(vals[0])
        for hi, si in zip(nums[0::2], nums[1::2]):
            w, calls, trace = part[hi]
            if si >= len(calls):       # the trace of the circuit under edit agrees; an object that was put aside does not
                ctx.mark_broken('correspondence:history',
                                f'the circuits put aside during {name} history {s + hi} hold {w.held_final} at its end, the model says otherwise; '
                                f'history: {json.dumps(history_doc(w, calls))[:30000]}')
                si = len(calls) - 1
            else:
                ctx.mark_broken('correspondence:history',
                                f'model and implementation differ at step {si} ({calls[si]}) of {name} history {s + hi}: implementation gave {trace[si]}; '
                                f'history: {json.dumps(history_doc(w, calls[:si + 1]))[:30000]}')
            searched += 1
            if max_search is None or searched <= max_search:
                spec_search(ctx, cirq, vocab, w, calls, si)


def report_problem(ctx, cirq, vocab, w, calls, step, kind, what):
    """A spec-level oracle failed on the real code: minimise and report."""
    if len(ctx.violations) >= 20:       # enough distinct failing inputs for one run
        return
    doc = history_doc(w, calls[:step + 1])
    doc = shrink(cirq, vocab, doc, kind)
    probs = [p for p in replay_doc(cirq, vocab, doc) if p[1] == kind]
    if probs:
        what = probs[0][2]
    sig = signature(doc, kind)
    ctx.violation(sig, f'{kind}: {what}; minimised history: {json.dumps(doc["calls"])}', dict(doc, oracle=kind))


def spec_search(ctx, cirq, vocab, w, calls, step):
    """Model and implementation disagree: decide on the real code whether the property's own statement fails
    (on the disagreeing history; the oracles have already run on it, so report whatever they find on its prefix)."""
    doc = history_doc(w, calls[:step + 1])
    for (st, kind, what) in replay_doc(cirq, vocab, doc):
        report_problem(ctx, cirq, vocab, w, calls, st, kind, what)


def replay_doc(cirq, vocab, doc, seed=0):
    import random
    try:
        w = World(cirq, vocab, doc['ops'])
        _, _, problems = run_history(w, doc['calls'], random.Random(seed))
    except Exception as e:      # a shrunk history may be ill-formed for the harness itself
        return [(-1, 'harness', repr(e))]
    return problems


LIST_FIELDS = ('items', 'rs', 'ins', 'others', 'ms', 'idx', 'q', 'f')


def shrink(cirq, vocab, doc, kind):
    """Remove calls, then operands, while an oracle of the same kind still fails."""
    def fails(d):
        return any(k == kind for (_, k, _) in replay_doc(cirq, vocab, d))
    if not fails(doc):
        return doc
    calls = list(doc['calls'])
    # prefix compression: replace calls[0..i] by one constructor call building the moments they produced
    for i in range(len(calls) - 2, -1, -1):
        try:
            w = World(cirq, vocab, doc['ops'])
            for c in calls[:i + 1]:
                exec_call(w, c)
            head = dict(c='new', items=[{'m': m} for m in w.moments_uids()], s='EARLIEST')
            cand = dict(doc, ops={str(u): sp for u, sp in w.ops.items()}, calls=[head] + calls[i + 1:])
        except Exception:
            continue
        if fails(cand):
            doc, calls = cand, cand['calls']
            break
    changed, rounds = True, 0
    while changed and rounds < 6:
        changed, rounds = False, rounds + 1
        for i in range(len(calls) - 1, -1, -1):
            cand = calls[:i] + calls[i + 1:]
            if fails(dict(doc, calls=cand)):
                calls, changed = cand, True
        for i in range(len(calls)):
            for fld in LIST_FIELDS:
                j = (len(calls[i][fld]) if isinstance(calls[i].get(fld), list) else 0) - 1
                while j >= 0:
                    xs = calls[i][fld]
                    c2 = dict(calls[i], **{fld: xs[:j] + xs[j + 1:]})
                    cand = calls[:i] + [c2] + calls[i + 1:]
                    if fails(dict(doc, calls=cand)):
                        calls, changed = cand, True
                    j -= 1
            if calls[i].get('frozen') or calls[i].get('ofrozen') or calls[i].get('astr'):
                c2 = dict(calls[i], frozen=False, ofrozen=False, astr=False)
                cand = calls[:i] + [c2] + calls[i + 1:]
                if fails(dict(doc, calls=cand)):
                    calls, changed = cand, True
    # operands inside the trees of a batch_insert
    for i in range(len(calls)):
        if calls[i]['c'] != 'binsert':
            continue
        for e in range(len(calls[i]['ins'])):
            j = len(calls[i]['ins'][e][1]) - 1
            while j >= 0:
                ins = [list(x) for x in calls[i]['ins']]
                ins[e] = [ins[e][0], ins[e][1][:j] + ins[e][1][j + 1:]]
                cand = calls[:i] + [dict(calls[i], ins=ins)] + calls[i + 1:]
                if fails(dict(doc, calls=cand)):
                    calls = cand
                j -= 1
    # a negative batch_insert index is replaced by the equivalent non-negative one when the failure survives that
    for i, c in enumerate(calls):
        if c['c'] == 'binsert' and any(e[0] < 0 for e in c['ins']):
            try:
                w = World(cirq, vocab, doc['ops'])
                for c0 in calls[:i]:
                    if not c0.get('syn'):
                        exec_call(w, c0)
                n0 = len(w.c)
            except Exception:
                continue
            c2 = dict(c, ins=[[clamp(e[0], n0), e[1]] for e in c['ins']])
            cand = calls[:i] + [c2] + calls[i + 1:]
            if fails(dict(doc, calls=cand)):
                calls = cand
    used = set()

    def walk(x):
        if isinstance(x, dict):
            for v in x.values():
                walk(v)
        elif isinstance(x, list):
            for v in x:
                walk(v)
        elif isinstance(x, int):
            used.add(abs(x))
    walk(calls)
    return dict(doc, calls=calls, ops={u: s for u, s in doc['ops'].items() if int(u) in used})


def signature(doc, kind):
    """oracle kind + the non-basic calls the minimised history needs (or the whole call sequence if it needs none)."""
    def kind_of(c):
        if c['c'] != 'binsert':
            return c['c']
        if any(e[0] < 0 for e in c['ins']):
            return 'binsert-negative-index'
        sizes = collections.defaultdict(int)
        for i, tree in c['ins']:
            sizes[i] += len(tree)
        idx = sorted(sizes)
        if any(sizes[i] > 1 for i in idx[:-1]):      # a group of several items in front of another insertion
            return 'binsert-after-multi-op-group'
        return 'binsert'
    special = sorted({kind_of(c) for c in doc['calls'] if c['c'] not in BASIC})
    if special:
        return f'{kind}:' + '+'.join(special)
    return f'{kind}:' + '>'.join(c['c'] + (':' + c['s'] if 's' in c else '') for c in doc['calls'])


def replay(ctx, data):
    cirq = env.import_cirq()
    vocab = Vocab(cirq)
    if data.get('kind') == 'moment':
        w = World(cirq, vocab, data['ops'])
        m = cirq.Moment()
        for c in data['calls']:
            try:
                if c[0] == 'MWithOperation':
                    m = m.with_operation(w.op(c[1][0]))
                elif c[0] == 'MWithOperations':
                    m = m.with_operations(*[w.op(u) for u in c[1]])
                elif c[0] == 'MWithoutTouching':
                    m = m.without_operations_touching([vocab.q(q) for q in c[1]])
                else:
                    m = cirq.Moment([w.op(u) for u in c[1]])
            except ValueError:
                pass
        f = cirq.Moment(list(m.operations))
        return m == f and m.qubits == f.qubits and cirq.measurement_key_objs(m) == cirq.measurement_key_objs(f) \
            and cirq.control_keys(m) == cirq.control_keys(f)
    if data.get('kind') != 'history':
        print('nothing to replay for kind', data.get('kind'))
        return False
    probs = replay_doc(cirq, vocab, data)
    for p in probs:
        print('  ', p)
    return not probs
