"""C10 — parameter resolution and sweeps commute with everything else (DESIGN 5/C10)."""
import itertools, math
from fractions import Fraction
from .. import env, coq, runner

LEVEL = 'proof'
META = dict(
    text='Coq theorems over hand-written Gallina models of cirq/study/sweeps.py and cirq/study/resolver.py (sweep length = iteration length, indexing incl. negative indices, slicing, lexicographic Product, Zip prefix, ZipLongest repetition, Concat, Linspace endpoints over exact rationals; resolver value_of = substitution to a fixpoint then evaluation, composition, unrelated symbols untouched, flattening preserves values); the models are evaluated by vm_compute on the same generated inputs as the implementation on every run, and resolve-then-unitary / simulate_sweep / flatten are compared with numeric substitution on generated gates and circuits.',
    note='Trusted: Coq kernel; the Python adapters in vf/checks/c10.py (building Cirq objects, printing exact rational literals, canonicalising outputs); sympy as the parser and printer of expressions; numpy float arithmetic is compared with exact rational arithmetic under a stated tolerance; the commute-with-unitary/simulation/flatten streams are differential tests against numeric substitution, not proofs.',
    technique='Rocq/Coq proof over executable Gallina models + vm_compute correspondence against the implementation + differential streams',
)

KEYS = ['a', 'b', 'c', 'd', 'e', 'f', 'g', 'h']
LIN_TOL = Fraction(1, 2 ** 40)


# ------------------------------------------------------------------------------------------------
# Gallina literals
# ------------------------------------------------------------------------------------------------
def qlit(x):
    f = Fraction(x)
    return f'(Qmake {coq.zlit(f.numerator)} {f.denominator})'


def slit(s):
    assert '"' not in s
    return f'"{s}"%string'


def alit(a):
    return '[' + '; '.join(f'({slit(k)}, {qlit(v)})' for k, v in a) + ']'


def llit(xs, f):
    return '[' + '; '.join(f(x) for x in xs) + ']'


def olit(x, f):
    return 'None' if x is None else f'(Some {f(x)})'


# ------------------------------------------------------------------------------------------------
# Sweeps: generated trees, their Cirq object and their Gallina term
# ------------------------------------------------------------------------------------------------
def draw_value(rng):
    r = rng.random()
    if r < 0.5:
        return rng.randint(-16, 16) / 4
    if r < 0.7:
        return float(rng.randint(-3, 3))
    return round(rng.uniform(-10, 10), 3)


def gen_sweep(rng, depth, keys, allow_invalid=True):
    """A sweep tree over (a subset of) the given keys.  Trees: ('U',) ('P',k,vs) ('L',k,a,b,n) ('X'|'Z'|'ZL'|'C', [children])
    ('LS', [[(k,v)...]...], symbol_keys)."""
    keys = list(keys)
    if depth == 0 or not keys or rng.random() < 0.15:
        r = rng.random()
        if not keys or r < 0.07:
            return ('U',)
        k = keys[0]
        if r < 0.45:
            n = rng.choice([0, 1] + [2, 2, 3, 3, 4, 2, 3, 4, 2, 3] * 2)
            return ('P', k, [draw_value(rng) for _ in range(n)])
        if r < 0.8:
            n = rng.choice([0, 1] + [2, 2, 3, 5, 3, 4, 2, 3, 4, 5] * 2)
            return ('L', k, draw_value(rng), draw_value(rng), n)
        ks = list(dict.fromkeys(keys))[:rng.choice([1, 1, 2])]
        n = rng.choice([0, 1] + [2, 3, 2, 3, 4, 2] * 3)
        rows = [[(kk, draw_value(rng)) for kk in ks] for _ in range(n)]
        if allow_invalid and rows and rng.random() < 0.05:      # ragged keys: Cirq does not validate this
            rows[-1] = rows[-1][:-1] + [('z', 1.0)]
        return ('LS', rows, rng.random() < 0.3)
    kind = rng.choice(['X', 'X', 'Z', 'Z', 'ZL', 'C'])
    if kind == 'C':
        m = rng.choice([1, 2, 2, 3])
        first = gen_sweep(rng, depth - 1, keys, allow_invalid)
        kids = [first]
        for _ in range(m - 1):
            r = rng.random()
            if r < 0.6:
                kids.append(reshuffle_values(rng, first))
            elif r < 0.9:
                kids.append(first)
            else:
                kids.append(gen_sweep(rng, depth - 1, keys, allow_invalid))   # usually different keys -> ValueError
        if allow_invalid and rng.random() < 0.03:
            kids = []
        return ('C', kids)
    m = rng.choice([0, 1] + [2, 2, 2, 3] * 5)
    rng.shuffle(keys)
    parts = [[] for _ in range(m)]
    for i, k in enumerate(keys):
        if m:
            parts[i % m].append(k)
    kids = []
    for p in parts:
        if allow_invalid and rng.random() < 0.02:
            p = keys[:1] + p          # duplicate key -> ValueError
        kids.append(gen_sweep(rng, depth - 1, p[:rng.choice([1, 2, 3])], allow_invalid))
    return (kind, kids)


def reshuffle_values(rng, t):
    """Same shape and keys, fresh values and lengths (for Concat)."""
    tag = t[0]
    if tag == 'U':
        return t
    if tag == 'P':
        return ('P', t[1], [draw_value(rng) for _ in range(rng.choice([0, 1, 2, 3]))])
    if tag == 'L':
        return ('L', t[1], draw_value(rng), draw_value(rng), rng.choice([0, 1, 2, 4]))
    if tag == 'LS':
        ks = [k for k, _ in t[1][0]] if t[1] else []
        return ('LS', [[(k, draw_value(rng)) for k in ks] for _ in range(rng.choice([1, 2]))], t[2])
    return (tag, [reshuffle_values(rng, c) for c in t[1]])


def sweep_depth(t):
    return 1 + max([sweep_depth(c) for c in t[1]], default=0) if t[0] in ('X', 'Z', 'ZL', 'C') else 0


def has_linspace(t):
    return t[0] == 'L' or (t[0] in ('X', 'Z', 'ZL', 'C') and any(has_linspace(c) for c in t[1]))


def build_sweep(cirq, t):
    import sympy
    tag = t[0]
    if tag == 'U':
        return cirq.UnitSweep
    if tag == 'P':
        return cirq.Points(t[1], list(t[2]))
    if tag == 'L':
        return cirq.Linspace(t[1], t[2], t[3], t[4])
    if tag == 'LS':
        return cirq.ListSweep([{(sympy.Symbol(k) if t[2] else k): v for k, v in row} for row in t[1]])
    kids = [build_sweep(cirq, c) for c in t[1]]
    return {'X': cirq.Product, 'Z': cirq.Zip, 'ZL': cirq.ZipLongest, 'C': cirq.Concat}[tag](*kids)


def sweep_term(t):
    tag = t[0]
    if tag == 'U':
        return 'Unit'
    if tag == 'P':
        return f'(Points {slit(t[1])} {llit(t[2], qlit)})'
    if tag == 'L':
        return f'(Linspace {slit(t[1])} {qlit(t[2])} {qlit(t[3])} {t[4]}%nat)'
    if tag == 'LS':
        return f'(ListSweep {llit(t[1], alit)})'
    return '(%s %s)' % ({'X': 'Product', 'Z': 'Zip', 'ZL': 'ZipLongest', 'C': 'Concat'}[tag], llit(t[1], sweep_term))


def ref_iter(t):
    """Reference semantics of a sweep tree written directly from the class docstrings (no itertools, no Cirq)."""
    tag = t[0]
    if tag == 'U':
        return [[]]
    if tag == 'P':
        return [[(t[1], v)] for v in t[2]]
    if tag == 'L':
        _, k, a, b, n = t
        if n == 1:
            return [[(k, Fraction(a))]]
        return [[(k, Fraction(a) + i * (Fraction(b) - Fraction(a)) / (n - 1))] for i in range(n)]
    if tag == 'LS':
        return [list(row) for row in t[1]]
    kids = [ref_iter(c) for c in t[1]]
    if tag == 'C':
        return [x for k in kids for x in k]
    if tag == 'X':
        out = [[]]
        for k in kids:                      # leftmost factor is the outer loop
            out = [x + y for x in out for y in k]
        return out
    if not kids:
        return []
    n = min(len(k) for k in kids) if tag == 'Z' else max(len(k) for k in kids)
    return [[p for k in kids for p in k[min(i, len(k) - 1)]] for i in range(n)]


def dict_items(r):
    import sympy
    return [((k.name if isinstance(k, sympy.Symbol) else k), v) for k, v in r.param_dict.items()]


def draw_slice(rng, n):
    def bound():
        r = rng.random()
        if r < 0.3:
            return None
        return rng.randint(-n - 2, n + 2)
    step = rng.choice([None, None, 1, 2, -1, -2, 3, -3, 0]) if rng.random() < 0.8 else rng.randint(-4, 4)
    return (bound(), bound(), step)


def observe_sweep(cirq, t, rng):
    """Everything the property talks about, taken from the implementation.  Returns a dict or None (ValueError)."""
    try:
        s = build_sweep(cirq, t)
    except ValueError:
        return None
    n = len(s)
    tuples = [[(k, v) for k, v in pt] for pt in s.param_tuples()]
    listed = [dict_items(r) for r in s]
    via_to_resolvers = [dict_items(r) for r in cirq.to_resolvers(s)]
    gets = []
    for i in range(-n - 2, n + 2):
        try:
            gets.append((i, dict_items(s[i])))
        except IndexError:
            gets.append((i, None))
        except Exception as e:      # anything else is shown to the model as a value it can never produce
            gets.append((i, [('!' + type(e).__name__, 0)]))
    slices = []
    for _ in range(4):
        sl = draw_slice(rng, n)
        try:
            sub = s[slice(*sl)]
            slices.append((sl, [dict_items(r) for r in sub], type(sub).__name__))
        except ValueError:
            slices.append((sl, None, None))
        except Exception as e:
            slices.append((sl, [[('!' + type(e).__name__, 0)]], None))
    return dict(sweep=s, len=n, keys=[str(k) for k in s.keys], tuples=tuples, listed=listed, to_resolvers=via_to_resolvers,
                gets=gets, slices=slices)


def slice_term(sl):
    return '(mkSlice %s %s %s)' % tuple(olit(x, coq.zlit) for x in sl)


def sweep_case_term(t, obs):
    tol = LIN_TOL if has_linspace(t) else Fraction(0)
    if obs is None:
        return f'(mkCase {qlit(tol)} {sweep_term(t)} None [] [])'
    o = f'(Some ({obs["len"]}%nat, {llit(obs["keys"], slit)}, {llit(obs["tuples"], alit)}))'
    gets = llit(obs['gets'], lambda g: f'({coq.zlit(g[0])}, {olit(g[1], alit)})')
    sls = llit(obs['slices'], lambda g: f'({slice_term(g[0])}, {olit(g[1], lambda r: llit(r, alit))})')
    return f'(mkCase {qlit(tol)} {sweep_term(t)} {o} {gets} {sls})'


SWEEP_HEADER = ('From Coq Require Import String ZArith QArith List Bool.\n'
                'From VF Require Import Base.Harness Codec.Sweeps Codec.SweepsHarness.\n'
                'Import ListNotations.\nLocal Open Scope Z_scope.\n')
CODE_NAMES = {1: 'constructor-validity', 2: 'len', 3: 'keys', 4: 'iteration', 5: 'index', 6: 'slice'}


def close(a, b, tol):
    return abs(Fraction(a) - Fraction(b)) <= tol


def rows_equal(x, y, tol):
    return (len(x) == len(y) and all(len(p) == len(q) and all(k1 == k2 and close(v1, v2, tol) for (k1, v1), (k2, v2) in zip(p, q))
                                      for p, q in zip(x, y)))


def spec_sweep(ctx, cirq, t, obs, code):
    """A disagreement with the model: decide on the real code whether the property's own statement fails
    (a sweep enumerates what its definition describes, consistently across len / iteration / [] / slices)."""
    rep = dict(kind='sweep', tree=t)
    tol = LIN_TOL if has_linspace(t) else 0
    if obs is None:
        return                     # the constructor rejected the sweep; the property says nothing about rejected inputs
    ref = ref_iter(t)
    if not rows_equal(obs['tuples'], ref, tol):
        top = {'X': 'product', 'Z': 'zip', 'ZL': 'ziplongest', 'C': 'concat', 'L': 'linspace', 'P': 'points', 'LS': 'list', 'U': 'unit'}
        ctx.violation('sweep:enumeration:' + top[culprit(cirq, t)], f'param_tuples() of {obs["sweep"]!r} is not what its definition describes: '
                      f'got {obs["tuples"][:6]} expected {[[(k, float(v)) for k, v in r] for r in ref[:6]]}', rep)
    if obs['len'] != len(obs['tuples']):
        ctx.violation('sweep:len-vs-iteration:' + culprit_len(cirq, t), f'len({obs["sweep"]!r}) = {obs["len"]} but it iterates {len(obs["tuples"])} assignments', rep)
    if not (rows_equal(obs['listed'], obs['tuples'], 0) and rows_equal(obs['to_resolvers'], obs['tuples'], 0)):
        ctx.violation('sweep:iter-vs-param_tuples', f'list(sweep) / to_resolvers differ from param_tuples for {obs["sweep"]!r}', rep)
    n = len(obs['listed'])
    for i, r in obs['gets']:
        want = obs['listed'][i] if -n <= i < n else None
        if (r is None) != (want is None) or (r is not None and not rows_equal([r], [want], 0)):
            ctx.violation('sweep:index', f'{obs["sweep"]!r}[{i}] = {r}, list(sweep)[{i}] = {want}', dict(rep, index=i))
            break
    for sl, r, tname in obs['slices']:
        want = None if sl[2] == 0 else obs['listed'][slice(*sl)]
        if (r is None) != (want is None) or (r is not None and (not rows_equal(r, want, 0) or tname != 'ListSweep')):
            ctx.violation('sweep:slice', f'list({obs["sweep"]!r}[{sl}]) = {r}, list(sweep)[slice] = {want}', dict(rep, slice=list(sl)))
            break


def culprit(cirq, t):
    """Innermost sub-sweep whose own enumeration is wrong given its children (for a stable signature)."""
    if t[0] in ('X', 'Z', 'ZL', 'C'):
        for c in t[1]:
            try:
                s = build_sweep(cirq, c)
            except ValueError:
                continue
            got = [[(k, v) for k, v in pt] for pt in s.param_tuples()]
            if not rows_equal(got, ref_iter(c), LIN_TOL):
                return culprit(cirq, c)
    return t[0]


def culprit_len(cirq, t):
    if t[0] in ('X', 'Z', 'ZL', 'C'):
        for c in t[1]:
            try:
                s = build_sweep(cirq, c)
            except ValueError:
                continue
            if len(s) != len(list(s.param_tuples())):
                return culprit_len(cirq, c)
    return t[0]


def sweep_stream(ctx, cirq, n):
    rng = ctx.rng
    cases = []
    # hand-picked corner cases first: empty, single point, nested empties
    corner = [('U',), ('P', 'a', []), ('L', 'a', 0.0, 1.0, 0), ('L', 'a', 0.5, 1.0, 1), ('L', 'a', -1.0, 2.0, 2), ('X', []), ('Z', []), ('ZL', []),
              ('C', []), ('LS', [], False), ('X', [('P', 'a', [1.0, 2.0, 3.0]), ('P', 'b', [2.0, 3.0])]),
              ('Z', [('P', 'a', [0.0, 1.0]), ('P', 'b', [3.0, 4.0, 5.0])]), ('ZL', [('P', 'a', [0.0, 1.0]), ('P', 'b', [3.0, 4.0, 5.0])]),
              ('ZL', [('P', 'a', []), ('P', 'b', [1.0])]), ('X', [('P', 'a', [1.0]), ('P', 'a', [2.0])]),
              ('C', [('P', 'a', [1.0]), ('P', 'b', [2.0])]), ('X', [('Z', []), ('P', 'a', [1.0])]), ('X', [('X', []), ('P', 'a', [1.0, 2.0])]),
              ('X', [('L', 'a', 0.0, 1.0, 3), ('Z', [('P', 'b', [1.0, 2.0]), ('L', 'c', 1.0, -1.0, 5)]), ('C', [('P', 'd', [1.0]), ('P', 'd', [2.0, 3.0])])])]
    for t in corner:
        cases.append(t)
    while len(cases) < n:
        depth = rng.choice([0, 1, 1, 1, 2, 2, 2, 2, 3, 3, 3])
        nk = rng.choice([1, 2, 3, 4, 5])
        t = gen_sweep(rng, depth, rng.sample(KEYS, nk))
        if t[0] != 'U' or rng.random() < 0.1:
            cases.append(t)
    rows, terms = [], []
    for t in cases:
        try:
            obs = observe_sweep(cirq, t, rng)
        except Exception as e:      # a sweep the constructor accepted must support every observation
            ctx.violation('sweep:raises:' + type(e).__name__, f'observing {sweep_term(t)} raised {type(e).__name__}: {e}', dict(kind='sweep', tree=t))
            continue
        if obs is not None and obs['len'] > 400:
            continue
        rows.append((t, obs))
        terms.append(sweep_case_term(t, obs))
        nontriv = obs is not None and sweep_depth(t) >= 1 and obs['len'] >= 2
        ctx.count('sweep', sweep_term(t), nontriv,
                  sample=dict(sweep=repr(obs['sweep']) if obs else str(t), len=obs and obs['len'], keys=obs and obs['keys'],
                              first=obs and obs['tuples'][:3]))
        ctx.streams['sweep:index'] += len(obs['gets']) if obs else 0
        ctx.streams['sweep:slice'] += len(obs['slices']) if obs else 0
    ctx.cov.setdefault('distribution', {})['sweep'] = dict(
        by_depth={d: sum(1 for t, _ in rows if sweep_depth(t) == d) for d in range(4)},
        rejected_by_constructor=sum(1 for _, o in rows if o is None),
        empty=sum(1 for _, o in rows if o and o['len'] == 0), single=sum(1 for _, o in rows if o and o['len'] == 1),
        with_linspace=sum(1 for t, _ in rows if has_linspace(t)))
    # slice index arithmetic alone (range(n)[slice]) against the transcription of CPython's slice.indices
    srows = []
    for _ in range(len(rows)):
        m = rng.choice([0, 1, 2, 3, 5, 8])
        sl = draw_slice(rng, m)
        try:
            out = list(range(m)[slice(*sl)])
        except ValueError:
            out = None
        srows.append((m, sl, out))
        ctx.count('slice_indices', [m, sl], m >= 2 and out not in (None, []))
    bad = []
    for sh, lo in enumerate(range(0, len(terms), 250)):
        text = SWEEP_HEADER + 'Definition cases : list sweep_case := [\n' + ';\n'.join(terms[lo:lo + 250]) + '].\n'
        text += 'Eval vm_compute in sweep_failures cases.\n'
        if sh == 0:
            text += 'Definition srows : list (nat * slice * option (list nat)) := [\n' + ';\n'.join(
                f'({m}%nat, {slice_term(sl)}, {olit(out, lambda o: "[" + "; ".join(str(x) for x in o) + "]%nat")})' for m, sl, out in srows) + '].\n'
            text += 'Eval vm_compute in failing check_slice_indices srows.\n'
        vals = coq.parse_evals(coq.coq_eval(f'c10_sweeps_{ctx.seed}_{sh}', text))
        flat = coq.parse_nat_list(vals[0])
        bad += [(lo + flat[i], flat[i + 1]) for i in range(0, len(flat), 2)]
        if sh == 0:
            for idx in coq.parse_nat_list(vals[1]):
                m, sl, out = srows[idx]
                ctx.mark_broken('correspondence:slice_indices', f'range({m})[{sl}] = {out} differs from the model (harness transcription of slice.indices)')
    for idx, code in bad:
        t, obs = rows[idx]
        ctx.mark_broken(f'correspondence:sweep:{CODE_NAMES[code]}', f'model and implementation differ ({CODE_NAMES[code]}) on {sweep_term(t)}')
        spec_sweep(ctx, cirq, t, obs, code)


def run(ctx):
    cirq = env.import_cirq()
    ctx.rule = ('sweeps: random trees over Unit/Points/Linspace/ListSweep leaves and Product/Zip/ZipLongest/Concat nodes, nesting <= 3, empty and '
                'single-point sweeps and constructor-rejected sweeps included; per sweep: len, keys, param_tuples, list(), to_resolvers, every index in '
                '[-n-2, n+2), four random slices; non-trivial = composite with >= 2 assignments; distinct by sweep term')
    ctx.assumptions += ['vf/checks/c10.py adapters building Cirq sweeps/expressions and canonicalising outputs',
                        'Python float/int <-> exact rational (Fraction) <-> Coq Q literal printing',
                        'Linspace values compared with tolerance 2^-40 (binary64 arithmetic in the code, exact rationals in the model)']
    ctx.set_obligations(coq.compile_props('C10'))
    quick = ctx.tier == 'quick'
    sweep_stream(ctx, cirq, 400 if quick else 4000)


def replay(ctx, data):
    cirq = env.import_cirq()
    k = data.get('kind')
    if k == 'sweep':
        t = totuple(data['tree'])
        obs = observe_sweep(cirq, t, ctx.rng)
        before = len(ctx.violations) + len(ctx.known_hits)
        if obs is not None:
            if 'slice' in data:
                sl = tuple(data['slice'])
                try:
                    got = [dict_items(r) for r in obs['sweep'][slice(*sl)]]
                except ValueError:
                    got = None
                obs['slices'] = [(sl, got, 'ListSweep')]
            spec_sweep(ctx, cirq, t, obs, 0)
        print('sweep:', obs and repr(obs['sweep']), 'len', obs and obs['len'], 'tuples', obs and obs['tuples'][:8])
        return len(ctx.violations) + len(ctx.known_hits) == before
    print('nothing to replay for kind', k)
    return False


def totuple(x):
    if isinstance(x, list) and x and isinstance(x[0], str) and x[0] in ('U', 'P', 'L', 'X', 'Z', 'ZL', 'C', 'LS'):
        tag = x[0]
        if tag in ('X', 'Z', 'ZL', 'C'):
            return (tag, [totuple(c) for c in x[1]])
        if tag == 'LS':
            return ('LS', [[tuple(p) for p in row] for row in x[1]], x[2])
        return tuple(x)
    return x
