"""C10 — parameter resolution and sweeps commute with everything else (DESIGN 5/C10)."""
import itertools, math, os
from fractions import Fraction
from .. import env, coq, runner

LEVEL = 'proof'
META = dict(
    text='Coq theorems over hand-written Gallina models, in the shape of the code, of cirq/study/sweeps.py (len = length of the iteration; sweep[i] incl. negative indices; slices = ListSweep of the positions range(n)[slice] via the dictionary walk of __getitem__; Product lexicographic with the last factor fastest; Zip shortest prefix; ZipLongest repeats last values; Concat appends; Linspace endpoints and spacing over exact rationals), of ParamResolver.value_of (fast paths for Add/Mul/Pow, slow path by repeated sympy substitution, recursion sentinel: every answer is the fixed point of simultaneous substitution, for every interpretation of the arithmetic; complete; a reported loop is real; recursive=False is one substitution; unrelated symbols untouched), of ParamResolver._resolve_parameters_ (composition law under a stated hypothesis, refuted without it) and of cirq.flatten (every flattened parameter keeps its value under the transformed assignment, for any naming function). The models are evaluated by vm_compute on the same generated inputs as the implementation on every run (sweeps: exact; expressions: exact rational arithmetic); resolve-then-unitary, two-stage resolution, sub-circuits, tags, simulate_sweep (state-vector and density-matrix simulators, symbolic-constant parameters included)/run_sweep and flatten/flatten_with_sweep are compared with numbers substituted by sympy. The value_of model (recursive and single-step) is also compared with the parameter read back from objects resolved through the protocol (tagged / controlled operations, tag values, moments, circuits, sub-circuit parameter maps).',
    note='Trusted: Coq kernel; the Python adapters in vf/checks/c10.py (building Cirq objects from generated trees, sympy <-> tree conversion, printing exact rational literals); sympy as parser, printer and reference algebra; CPython slice.indices/range transcribed into the model (checked against range(n)[slice] on every run). The commute-with-unitary/simulation/flatten streams and the wider expression classes (fractional powers, trigonometric functions, pi, complex values) are differential tests against sympy substitution, not proofs. Memoisation of value_of is not in the proved model (the run queries one resolver object repeatedly and compares with the memo-free model).',
    technique='Rocq/Coq proof over executable Gallina models + vm_compute correspondence against the implementation + differential streams against sympy substitution',
)

KEYS = ['a', 'b', 'c', 'd', 'e', 'f', 'g', 'h']
LIN_TOL = Fraction(1, 2 ** 40)


# ------------------------------------------------------------------------------------------------
# Gallina literals
# ------------------------------------------------------------------------------------------------
def qlit(x):
    f = Fraction(x)
    return f'(Qmake {coq.zlit(f.numerator)} {f.denominator})'


def slit(s):
    assert '"' not in s
    return f'"{s}"%string'


def alit(a):
    return '[' + '; '.join(f'({slit(k)}, {qlit(v)})' for k, v in a) + ']'


def llit(xs, f):
    return '[' + '; '.join(f(x) for x in xs) + ']'


def olit(x, f):
    return 'None' if x is None else f'(Some {f(x)})'


# ------------------------------------------------------------------------------------------------
# Sweeps: generated trees, their Cirq object and their Gallina term
# ------------------------------------------------------------------------------------------------
def draw_value(rng):
    r = rng.random()
    if r < 0.5:
        return rng.randint(-16, 16) / 4
    if r < 0.7:
        return float(rng.randint(-3, 3))
    return round(rng.uniform(-10, 10), 3)


def gen_sweep(rng, depth, keys, allow_invalid=True):
    """A sweep tree over (a subset of) the given keys.  Trees: ('U',) ('P',k,vs) ('L',k,a,b,n) ('X'|'Z'|'ZL'|'C', [children])
    ('LS', [[(k,v)...]...], symbol_keys)."""
    keys = list(keys)
    if depth == 0 or not keys or rng.random() < 0.15:
        r = rng.random()
        if not keys or r < 0.07:
            return ('U',)
        k = keys[0]
        if r < 0.45:
            n = rng.choice([0, 1] + [2, 2, 3, 3, 4, 2, 3, 4, 2, 3] * 2)
            return ('P', k, [draw_value(rng) for _ in range(n)])
        if r < 0.8:
            n = rng.choice([0, 1] + [2, 2, 3, 5, 3, 4, 2, 3, 4, 5] * 2)
            return ('L', k, draw_value(rng), draw_value(rng), n)
        ks = list(dict.fromkeys(keys))[:rng.choice([1, 1, 2])]
        n = rng.choice([0, 1] + [2, 3, 2, 3, 4, 2] * 3)
        rows = [[(kk, draw_value(rng)) for kk in ks] for _ in range(n)]
        if allow_invalid and rows and rng.random() < 0.05:      # ragged keys: Cirq does not validate this
            rows[-1] = rows[-1][:-1] + [('z', 1.0)]
        return ('LS', rows, rng.random() < 0.3)
    kind = rng.choice(['X', 'X', 'Z', 'Z', 'ZL', 'C'])
    if kind == 'C':
        m = rng.choice([1, 2, 2, 3])
        first = gen_sweep(rng, depth - 1, keys, allow_invalid)
        kids = [first]
        for _ in range(m - 1):
            r = rng.random()
            if r < 0.6:
                kids.append(reshuffle_values(rng, first))
            elif r < 0.9:
                kids.append(first)
            else:
                kids.append(gen_sweep(rng, depth - 1, keys, allow_invalid))   # usually different keys -> ValueError
        if allow_invalid and rng.random() < 0.03:
            kids = []
        return ('C', kids)
    m = rng.choice([0, 1] + [2, 2, 2, 3] * 5)
    rng.shuffle(keys)
    parts = [[] for _ in range(m)]
    for i, k in enumerate(keys):
        if m:
            parts[i % m].append(k)
    kids = []
    for p in parts:
        if allow_invalid and rng.random() < 0.02:
            p = keys[:1] + p          # duplicate key -> ValueError
        kids.append(gen_sweep(rng, depth - 1, p[:rng.choice([1, 2, 3])], allow_invalid))
    return (kind, kids)


def reshuffle_values(rng, t):
    """Same shape and keys, fresh values and lengths (for Concat)."""
    tag = t[0]
    if tag == 'U':
        return t
    if tag == 'P':
        return ('P', t[1], [draw_value(rng) for _ in range(rng.choice([0, 1, 2, 3]))])
    if tag == 'L':
        return ('L', t[1], draw_value(rng), draw_value(rng), rng.choice([0, 1, 2, 4]))
    if tag == 'LS':
        ks = [k for k, _ in t[1][0]] if t[1] else []
        return ('LS', [[(k, draw_value(rng)) for k in ks] for _ in range(rng.choice([1, 2]))], t[2])
    return (tag, [reshuffle_values(rng, c) for c in t[1]])


def sweep_depth(t):
    return 1 + max([sweep_depth(c) for c in t[1]], default=0) if t[0] in ('X', 'Z', 'ZL', 'C') else 0


def has_linspace(t):
    return t[0] == 'L' or (t[0] in ('X', 'Z', 'ZL', 'C') and any(has_linspace(c) for c in t[1]))


def build_sweep(cirq, t):
    import sympy
    tag = t[0]
    if tag == 'U':
        return cirq.UnitSweep
    if tag == 'P':
        return cirq.Points(t[1], list(t[2]))
    if tag == 'L':
        return cirq.Linspace(t[1], t[2], t[3], t[4])
    if tag == 'LS':
        return cirq.ListSweep([{(sympy.Symbol(k) if t[2] else k): v for k, v in row} for row in t[1]])
    kids = [build_sweep(cirq, c) for c in t[1]]
    return {'X': cirq.Product, 'Z': cirq.Zip, 'ZL': cirq.ZipLongest, 'C': cirq.Concat}[tag](*kids)


def sweep_term(t):
    tag = t[0]
    if tag == 'U':
        return 'Unit'
    if tag == 'P':
        return f'(Points {slit(t[1])} {llit(t[2], qlit)})'
    if tag == 'L':
        return f'(Linspace {slit(t[1])} {qlit(t[2])} {qlit(t[3])} {t[4]}%nat)'
    if tag == 'LS':
        return f'(ListSweep {llit(t[1], alit)})'
    return '(%s %s)' % ({'X': 'Product', 'Z': 'Zip', 'ZL': 'ZipLongest', 'C': 'Concat'}[tag], llit(t[1], sweep_term))


def ref_iter(t):
    """Reference semantics of a sweep tree written directly from the class docstrings (no itertools, no Cirq)."""
    tag = t[0]
    if tag == 'U':
        return [[]]
    if tag == 'P':
        return [[(t[1], v)] for v in t[2]]
    if tag == 'L':
        _, k, a, b, n = t
        if n == 1:
            return [[(k, Fraction(a))]]
        return [[(k, Fraction(a) + i * (Fraction(b) - Fraction(a)) / (n - 1))] for i in range(n)]
    if tag == 'LS':
        return [list(row) for row in t[1]]
    kids = [ref_iter(c) for c in t[1]]
    if tag == 'C':
        return [x for k in kids for x in k]
    if tag == 'X':
        out = [[]]
        for k in kids:                      # leftmost factor is the outer loop
            out = [x + y for x in out for y in k]
        return out
    if not kids:
        return []
    n = min(len(k) for k in kids) if tag == 'Z' else max(len(k) for k in kids)
    return [[p for k in kids for p in k[min(i, len(k) - 1)]] for i in range(n)]


def dict_items(r):
    import sympy
    return [((k.name if isinstance(k, sympy.Symbol) else k), v) for k, v in r.param_dict.items()]


def draw_slice(rng, n):
    def bound():
        r = rng.random()
        if r < 0.3:
            return None
        return rng.randint(-n - 2, n + 2)
    step = rng.choice([None, None, 1, 2, -1, -2, 3, -3, 0]) if rng.random() < 0.8 else rng.randint(-4, 4)
    return (bound(), bound(), step)


def observe_sweep(cirq, t, rng):
    """Everything the property talks about, taken from the implementation.  Returns a dict or None (ValueError)."""
    try:
        s = build_sweep(cirq, t)
    except ValueError:
        return None
    n = len(s)
    tuples = [[(k, v) for k, v in pt] for pt in s.param_tuples()]
    listed = [dict_items(r) for r in s]
    via_to_resolvers = [dict_items(r) for r in cirq.to_resolvers(s)]
    gets = []
    for i in range(-n - 2, n + 2):
        try:
            gets.append((i, dict_items(s[i])))
        except IndexError:
            gets.append((i, None))
        except Exception as e:      # anything else is shown to the model as a value it can never produce
            gets.append((i, [('!' + type(e).__name__, 0)]))
    slices = []
    for _ in range(4):
        sl = draw_slice(rng, n)
        try:
            sub = s[slice(*sl)]
            slices.append((sl, [dict_items(r) for r in sub], type(sub).__name__))
        except ValueError:
            slices.append((sl, None, None))
        except Exception as e:
            slices.append((sl, [[('!' + type(e).__name__, 0)]], None))
    return dict(sweep=s, len=n, keys=[str(k) for k in s.keys], tuples=tuples, listed=listed, to_resolvers=via_to_resolvers,
                gets=gets, slices=slices)


def slice_term(sl):
    return '(mkSlice %s %s %s)' % tuple(olit(x, coq.zlit) for x in sl)


def sweep_case_term(t, obs):
    tol = LIN_TOL if has_linspace(t) else Fraction(0)
    if obs is None:
        return f'(mkCase {qlit(tol)} {sweep_term(t)} None [] [])'
    o = f'(Some ({obs["len"]}%nat, {llit(obs["keys"], slit)}, {llit(obs["tuples"], alit)}))'
    gets = llit(obs['gets'], lambda g: f'({coq.zlit(g[0])}, {olit(g[1], alit)})')
    sls = llit(obs['slices'], lambda g: f'({slice_term(g[0])}, {olit(g[1], lambda r: llit(r, alit))})')
    return f'(mkCase {qlit(tol)} {sweep_term(t)} {o} {gets} {sls})'


SWEEP_HEADER = ('From Coq Require Import String ZArith QArith List Bool.\n'
                'From VF Require Import Base.Harness Codec.Sweeps Codec.SweepsHarness.\n'
                'Import ListNotations.\nLocal Open Scope Z_scope.\n')
CODE_NAMES = {1: 'constructor-validity', 2: 'len', 3: 'keys', 4: 'iteration', 5: 'index', 6: 'slice'}


def close(a, b, tol):
    return abs(Fraction(a) - Fraction(b)) <= tol


def rows_equal(x, y, tol):
    return (len(x) == len(y) and all(len(p) == len(q) and all(k1 == k2 and close(v1, v2, tol) for (k1, v1), (k2, v2) in zip(p, q))
                                      for p, q in zip(x, y)))


def spec_sweep(ctx, cirq, t, obs, code):
    """A disagreement with the model: decide on the real code whether the property's own statement fails
    (a sweep enumerates what its definition describes, consistently across len / iteration / [] / slices)."""
    rep = dict(kind='sweep', tree=t)
    tol = LIN_TOL if has_linspace(t) else 0
    if obs is None:
        return                     # the constructor rejected the sweep; the property says nothing about rejected inputs
    ref = ref_iter(t)
    if not rows_equal(obs['tuples'], ref, tol):
        top = {'X': 'product', 'Z': 'zip', 'ZL': 'ziplongest', 'C': 'concat', 'L': 'linspace', 'P': 'points', 'LS': 'list', 'U': 'unit'}
        ctx.violation('sweep:enumeration:' + top[culprit(cirq, t)], f'param_tuples() of {obs["sweep"]!r} is not what its definition describes: '
                      f'got {obs["tuples"][:6]} expected {[[(k, float(v)) for k, v in r] for r in ref[:6]]}', rep)
    rows_keys = {tuple(k for k, _ in r) for r in obs['tuples']}
    if len(rows_keys) == 1 and list(next(iter(rows_keys))) != obs['keys']:
        ctx.violation('sweep:keys', f'{obs["sweep"]!r}.keys = {obs["keys"]} but every assignment it enumerates assigns {list(next(iter(rows_keys)))}', rep)
    if obs['len'] != len(obs['tuples']):
        ctx.violation('sweep:len-vs-iteration:' + culprit_len(cirq, t), f'len({obs["sweep"]!r}) = {obs["len"]} but it iterates {len(obs["tuples"])} assignments', rep)
    if not (rows_equal(obs['listed'], obs['tuples'], 0) and rows_equal(obs['to_resolvers'], obs['tuples'], 0)):
        ctx.violation('sweep:iter-vs-param_tuples', f'list(sweep) / to_resolvers differ from param_tuples for {obs["sweep"]!r}', rep)
    n = len(obs['listed'])
    for i, r in obs['gets']:
        want = obs['listed'][i] if -n <= i < n else None
        if (r is None) != (want is None) or (r is not None and not rows_equal([r], [want], 0)):
            ctx.violation('sweep:index', f'{obs["sweep"]!r}[{i}] = {r}, list(sweep)[{i}] = {want}', dict(rep, index=i))
            break
    for sl, r, tname in obs['slices']:
        want = None if sl[2] == 0 else obs['listed'][slice(*sl)]
        if (r is None) != (want is None) or (r is not None and (not rows_equal(r, want, 0) or tname != 'ListSweep')):
            ctx.violation('sweep:slice', f'list({obs["sweep"]!r}[{sl}]) = {r}, list(sweep)[slice] = {want}', dict(rep, slice=list(sl)))
            break


def culprit(cirq, t):
    """Innermost sub-sweep whose own enumeration is wrong given its children (for a stable signature)."""
    if t[0] in ('X', 'Z', 'ZL', 'C'):
        for c in t[1]:
            try:
                s = build_sweep(cirq, c)
            except ValueError:
                continue
            got = [[(k, v) for k, v in pt] for pt in s.param_tuples()]
            if not rows_equal(got, ref_iter(c), LIN_TOL):
                return culprit(cirq, c)
    return t[0]


def culprit_len(cirq, t):
    if t[0] in ('X', 'Z', 'ZL', 'C'):
        for c in t[1]:
            try:
                s = build_sweep(cirq, c)
            except ValueError:
                continue
            if len(s) != len(list(s.param_tuples())):
                return culprit_len(cirq, c)
    return t[0]


def sweep_stream(ctx, cirq, n):
    rng = ctx.rng
    cases = []
    # hand-picked corner cases first: empty, single point, nested empties
    corner = [('U',), ('P', 'a', []), ('L', 'a', 0.0, 1.0, 0), ('L', 'a', 0.5, 1.0, 1), ('L', 'a', -1.0, 2.0, 2), ('X', []), ('Z', []), ('ZL', []),
              ('C', []), ('LS', [], False), ('X', [('P', 'a', [1.0, 2.0, 3.0]), ('P', 'b', [2.0, 3.0])]),
              ('Z', [('P', 'a', [0.0, 1.0]), ('P', 'b', [3.0, 4.0, 5.0])]), ('ZL', [('P', 'a', [0.0, 1.0]), ('P', 'b', [3.0, 4.0, 5.0])]),
              ('ZL', [('P', 'a', []), ('P', 'b', [1.0])]), ('X', [('P', 'a', [1.0]), ('P', 'a', [2.0])]),
              ('C', [('P', 'a', [1.0]), ('P', 'b', [2.0])]), ('X', [('Z', []), ('P', 'a', [1.0])]), ('X', [('X', []), ('P', 'a', [1.0, 2.0])]),
              ('X', [('L', 'a', 0.0, 1.0, 3), ('Z', [('P', 'b', [1.0, 2.0]), ('L', 'c', 1.0, -1.0, 5)]), ('C', [('P', 'd', [1.0]), ('P', 'd', [2.0, 3.0])])])]
    for t in corner:
        cases.append(t)
    while len(cases) < n:
        depth = rng.choice([0, 1, 1, 1, 2, 2, 2, 2, 3, 3, 3])
        nk = rng.choice([1, 2, 3, 4, 5])
        t = gen_sweep(rng, depth, rng.sample(KEYS, nk))
        if t[0] != 'U' or rng.random() < 0.1:
            cases.append(t)
    rows, terms = [], []
    for t in cases:
        try:
            obs = observe_sweep(cirq, t, rng)
        except Exception as e:      # a sweep the constructor accepted must support every observation
            ctx.violation('sweep:raises:' + type(e).__name__, f'observing {sweep_term(t)} raised {type(e).__name__}: {e}', dict(kind='sweep', tree=t))
            continue
        if obs is not None and obs['len'] > 400:
            continue
        rows.append((t, obs))
        terms.append(sweep_case_term(t, obs))
        nontriv = obs is not None and sweep_depth(t) >= 1 and obs['len'] >= 2
        ctx.count('sweep', sweep_term(t), nontriv,
                  sample=dict(sweep=repr(obs['sweep']) if obs else str(t), len=obs and obs['len'], keys=obs and obs['keys'],
                              first=obs and obs['tuples'][:3]))
        ctx.streams['sweep:index'] += len(obs['gets']) if obs else 0
        ctx.streams['sweep:slice'] += len(obs['slices']) if obs else 0
    ctx.cov.setdefault('distribution', {})['sweep'] = dict(
        by_depth={d: sum(1 for t, _ in rows if sweep_depth(t) == d) for d in range(4)},
        rejected_by_constructor=sum(1 for _, o in rows if o is None),
        empty=sum(1 for _, o in rows if o and o['len'] == 0), single=sum(1 for _, o in rows if o and o['len'] == 1),
        with_linspace=sum(1 for t, _ in rows if has_linspace(t)))
    # slice index arithmetic alone (range(n)[slice]) against the transcription of CPython's slice.indices
    srows = []
    for _ in range(len(rows)):
        m = rng.choice([0, 1, 2, 3, 5, 8])
        sl = draw_slice(rng, m)
        try:
            out = list(range(m)[slice(*sl)])
        except ValueError:
            out = None
        srows.append((m, sl, out))
        ctx.count('slice_indices', [m, sl], m >= 2 and out not in (None, []))
    bad = []
    for sh, lo in enumerate(range(0, len(terms), 250)):
        text = SWEEP_HEADER + 'Definition cases : list sweep_case := [\n' + ';\n'.join(terms[lo:lo + 250]) + '].\n'
        text += 'Eval vm_compute in sweep_failures cases.\n'
        if sh == 0:
            text += 'Definition srows : list (nat * slice * option (list nat)) := [\n' + ';\n'.join(
                f'({m}%nat, {slice_term(sl)}, {olit(out, lambda o: "[" + "; ".join(str(x) for x in o) + "]%nat")})' for m, sl, out in srows) + '].\n'
            text += 'Eval vm_compute in failing check_slice_indices srows.\n'
        vals = coq.parse_evals(coq.coq_eval(f'c10_sweeps_{ctx.seed}_{sh}', text))
        flat = coq.parse_nat_list(vals[0])
        bad += [(lo + flat[i], flat[i + 1]) for i in range(0, len(flat), 2)]
        if sh == 0:
            for idx in coq.parse_nat_list(vals[1]):
                m, sl, out = srows[idx]
                ctx.mark_broken('correspondence:slice_indices', f'range({m})[{sl}] = {out} differs from the model (harness transcription of slice.indices)')
    for idx, code in bad:
        t, obs = rows[idx]
        ctx.mark_broken(f'correspondence:sweep:{CODE_NAMES[code]}', f'model and implementation differ ({CODE_NAMES[code]}) on {sweep_term(t)}')
        spec_sweep(ctx, cirq, t, obs, code)


# ------------------------------------------------------------------------------------------------
# Resolver: sympy expressions <-> trees <-> Gallina terms
# ------------------------------------------------------------------------------------------------
GEN_SYMS = ['a', 'b', 'c', 'd', 'e']      # any dyadic value
INT_SYMS = ['n', 'm']                     # bound only to small non-negative integers (exponents)
POS_SYMS = ['p', 'q']                     # bound only to positive powers of two (bases of negative powers)
REL_TOL = Fraction(1, 10 ** 9)
FN_HEADS = ['Abs', 'Max', 'Min', 'floor', 'sign']


class Unsupported(Exception):
    pass


def to_tree(v):
    """sympy / Python value -> ('N', Fraction) | ('S', name) | ('A', head, [children]); raises Unsupported."""
    import sympy, numbers
    if isinstance(v, sympy.Basic):
        if isinstance(v, sympy.Symbol):
            return ('S', v.name)
        if isinstance(v, sympy.Rational):
            return ('N', Fraction(int(v.p), int(v.q)))
        if isinstance(v, sympy.Float):
            return num_tree(float(v))
        if isinstance(v, sympy.Add):
            return ('A', 'add', [to_tree(x) for x in v.args])
        if isinstance(v, sympy.Mul):
            return ('A', 'mul', [to_tree(x) for x in v.args])
        if isinstance(v, sympy.Pow) and len(v.args) == 2:
            return ('A', 'pow', [to_tree(x) for x in v.args])
        name = type(v).__name__
        if name in FN_HEADS:
            return ('A', name, [to_tree(x) for x in v.args])
        raise Unsupported(f'sympy node {name}')
    if isinstance(v, bool):
        raise Unsupported('bool')
    if isinstance(v, numbers.Real):
        return num_tree(float(v)) if not isinstance(v, int) else ('N', Fraction(v))
    if isinstance(v, numbers.Complex):
        c = complex(v)
        if c.imag == 0:
            return num_tree(c.real)
        raise Unsupported('complex value')
    raise Unsupported(type(v).__name__)


def num_tree(x):
    if x != x or x in (float('inf'), float('-inf')):
        raise Unsupported('non-finite')
    return ('N', Fraction(x))


def expr_term(t):
    if t[0] == 'N':
        return f'(Num {qlit(t[1])})'
    if t[0] == 'S':
        return f'(Sym {slit(t[1])})'
    head = {'add': 'HAdd', 'mul': 'HMul', 'pow': 'HPow'}.get(t[1]) or f'(HFn {FN_HEADS.index(t[1])})'
    return f'(App {head} {llit(t[2], expr_term)})'


def tree_size(t):
    return 1 + sum(tree_size(c) for c in t[2]) if t[0] == 'A' else 1


def tree_depth(t):
    return 1 + max([tree_depth(c) for c in t[2]], default=0) if t[0] == 'A' else 0


def tree_heads(t, acc=None):
    acc = set() if acc is None else acc
    if t[0] == 'A':
        acc.add(t[1])
        for c in t[2]:
            tree_heads(c, acc)
    return acc


def dyadic(rng):
    return Fraction(rng.randint(-12, 12), rng.choice([1, 1, 2, 4]))


def gen_expr(rng, depth, syms, allow_fn=True):
    """A random sympy expression over the given symbol names (structure is whatever sympy canonicalises it to)."""
    import sympy
    if depth <= 0 or rng.random() < 0.18:
        r = rng.random()
        if r < 0.62 and syms:
            return sympy.Symbol(rng.choice(syms))
        if r < 0.8:
            return sympy.Integer(rng.randint(-3, 3))
        if r < 0.93:
            return sympy.Rational(rng.randint(-7, 7), rng.choice([2, 4]))
        return sympy.Float(float(dyadic(rng)))
    kind = rng.choice(['add', 'add', 'mul', 'mul', 'pow', 'fn', 'fn'] if allow_fn else ['add', 'mul', 'pow'])
    sub = lambda: gen_expr(rng, depth - 1, syms, allow_fn)
    if kind == 'add':
        return sympy.Add(*[sub() for _ in range(rng.choice([2, 2, 3]))])
    if kind == 'mul':
        return sympy.Mul(*[sub() for _ in range(rng.choice([2, 2, 3]))])
    if kind == 'pow':
        r = rng.random()
        if r < 0.45:
            return sympy.Pow(sub(), rng.choice([2, 2, 3]))
        if r < 0.7:
            return sympy.Pow(sympy.Symbol(rng.choice(POS_SYMS)), rng.choice([-1, -2, sympy.Symbol(rng.choice(INT_SYMS))]))
        if r < 0.85:
            return sympy.Pow(sub(), sympy.Symbol(rng.choice(INT_SYMS)))
        return sympy.Pow(rng.choice([2, sympy.Rational(1, 2), 4]), sympy.Symbol(rng.choice(INT_SYMS)))
    f = rng.choice(FN_HEADS)
    if f in ('Max', 'Min'):
        return getattr(sympy, f)(sub(), sub())
    return getattr(sympy, f)(sub())


def gen_resolver(rng):
    """Returns (entries, cyclic_intended) with entries = [(name, value)] in dictionary order; value is a Python number,
    a str (alias) or a sympy expression over symbols later in a random order (so acyclic unless a back edge is added)."""
    import sympy
    order = GEN_SYMS[:]
    rng.shuffle(order)
    entries = []
    cyclic = rng.random() < 0.12       # cycles only through aliases and the fast-path heads (see DESIGN: a cycle through a
    #                                    function head never revisits an expression; sympy's own simplifier decides what happens)
    nb = rng.choice([0, 1, 2, 3, 4, 5, 5])
    bound = order[:nb]
    for i, s in enumerate(bound):
        later = order[i + 1:] + [x for x in INT_SYMS + POS_SYMS if rng.random() < 0.3]
        r = rng.random()
        if r < 0.4 or not later:
            v = rng.choice([float(dyadic(rng)), rng.randint(-3, 3), float(rng.randint(-2, 2))])
        elif r < 0.5:
            v = rng.choice(order[i + 1:] or [s])                 # alias by name (str)
        elif r < 0.57:
            v = sympy.Symbol(rng.choice(order[i + 1:] or [s]))   # alias by symbol
        elif r < 0.6:
            v = sympy.Symbol(s)                                  # maps to itself: a fixed point, not a loop
        else:
            v = gen_expr(rng, rng.choice([1, 2, 2, 3]), later, allow_fn=not cyclic)
        entries.append((s, v))
    for s in INT_SYMS:
        if rng.random() < 0.88:
            entries.append((s, rng.choice([0, 1, 2, 2, 3])))
    for s in POS_SYMS:
        if rng.random() < 0.6:
            entries.append((s, rng.choice([0.5, 1, 2, 2.0, 4])))
    cyclic = cyclic and bool(bound)
    if cyclic:                                   # a back edge through a fast-path head or an alias
        i = rng.randrange(len(bound))
        tgt = sympy.Symbol(rng.choice(bound[:i + 1]))
        j = next(k for k, (s, _) in enumerate(entries) if s == bound[i])
        entries[j] = (bound[i], rng.choice([tgt + 1, 2 * tgt, tgt, tgt ** 2 + sympy.Symbol(order[-1])]))
    rng.shuffle(entries)
    return entries, cyclic


def make_resolver(cirq, entries, rng=None, symbol_keys=None):
    import sympy
    d = {}
    for i, (k, v) in enumerate(entries):
        sk = symbol_keys[i] if symbol_keys is not None else False
        d[sympy.Symbol(k) if sk else k] = v
    return cirq.ParamResolver(d)


def entry_tree(v):
    return ('S', v) if isinstance(v, str) else to_tree(v)


def resolver_term(entries):
    return llit(entries, lambda kv: f'({slit(kv[0])}, {expr_term(entry_tree(kv[1]))})')


def gen_envs(rng, k=2):
    envs = []
    for _ in range(k):
        env = {s: dyadic(rng) for s in GEN_SYMS}
        env.update({s: Fraction(rng.choice([1, 2, 3])) for s in INT_SYMS})
        env.update({s: Fraction(rng.choice([1, 2, 4, 1]), rng.choice([1, 2])) for s in POS_SYMS})
        envs.append(env)
    return envs


def env_term(env):
    return llit(sorted(env.items()), lambda kv: f'({slit(kv[0])}, {qlit(kv[1])})')


class Timeout(Exception):
    pass


def with_timeout(seconds, f):
    import signal

    def handler(signum, frame):
        raise Timeout(f'no answer within {seconds}s')
    old = signal.signal(signal.SIGALRM, handler)
    signal.alarm(seconds)
    try:
        return f()
    finally:
        signal.alarm(0)
        signal.signal(signal.SIGALRM, old)


class ValueTag:
    """A tag carrying a (possibly symbolic) value and implementing the parameter protocol (what a calibration tag does)."""

    def __init__(self, value):
        self.value = value

    def __eq__(self, other):
        return isinstance(other, ValueTag) and self.value == other.value

    def __hash__(self):
        return hash(('c10.ValueTag', self.value))

    def __repr__(self):
        return f'ValueTag({self.value!r})'

    def _is_parameterized_(self):
        import cirq
        return cirq.is_parameterized(self.value)

    def _parameter_names_(self):
        import cirq
        return cirq.parameter_names(self.value)

    def _resolve_parameters_(self, resolver, recursive):
        import cirq
        return ValueTag(cirq.resolve_parameters(self.value, resolver, recursive))


# Entry points through which one and the same expression is resolved: the resolver itself (None) or an object that carries
# the expression as a parameter and is resolved by the protocol (cirq.resolve_parameters(obj, resolver, recursive)).
VIAS = ['op', 'tagged', 'tagvalue', 'ctrl_tagged', 'moment', 'circuit', 'submap']
VIA_DESC = {'op': 'XPowGate(exponent=e).on(q0)', 'tagged': "XPowGate(exponent=e).on(q0).with_tags('c10-tag')",
            'tagvalue': 'Z(q0).with_tags(ValueTag(e))', 'ctrl_tagged': "XPowGate(exponent=e).on(q0).controlled_by(q1).with_tags('c10-tag', ValueTag(0.5))",
            'moment': "Moment(XPowGate(exponent=e).on(q0).with_tags('c10-tag'), Y(q1))",
            'circuit': "Circuit(H(q0), XPowGate(exponent=e).on(q0).with_tags('c10-tag'))",
            'submap': "CircuitOperation(FrozenCircuit(XPowGate(exponent=e).on(q0).with_tags('c10-tag'), CZ(q0, q1)), param_resolver=<the dictionary>)"
                      ".mapped_circuit() (the parameter map of a sub-circuit is one resolution step by definition)"}


def via_object(cirq, e, via):
    """(object carrying e as a parameter, function reading the parameter back from the resolved object)."""
    q0, q1 = cirq.LineQubit.range(2)
    op = cirq.XPowGate(exponent=e).on(q0)

    def tagged_exponent(r, tags=('c10-tag',)):
        if not isinstance(r, cirq.TaggedOperation) or tuple(r.tags) != tags:
            raise TypeError(f'tags changed: {r!r}')
        return r.untagged.gate.exponent
    if via == 'op':
        return op, lambda r: r.gate.exponent
    if via in ('tagged', 'submap'):
        return op.with_tags('c10-tag'), tagged_exponent
    if via == 'tagvalue':
        return cirq.Z(q0).with_tags(ValueTag(e)), lambda r: r.tags[0].value
    if via == 'ctrl_tagged':
        def ctrl_exponent(r):
            if not isinstance(r, cirq.TaggedOperation) or tuple(r.tags) != ('c10-tag', ValueTag(0.5)):
                raise TypeError(f'tags changed: {r!r}')
            g = r.untagged.gate
            return getattr(g, 'sub_gate', g).exponent
        return op.controlled_by(q1).with_tags('c10-tag', ValueTag(0.5)), ctrl_exponent
    if via == 'moment':
        return cirq.Moment(op.with_tags('c10-tag'), cirq.Y(q1)), lambda r: tagged_exponent(r.operation_at(q0))
    if via == 'circuit':
        return cirq.Circuit(cirq.H(q0), op.with_tags('c10-tag')), lambda r: tagged_exponent(r.operation_at(q0, 1))
    raise ValueError(via)


def observe_value(cirq, res, e, recursive, via=None):
    """The value the implementation gives the expression e under the resolver, read through the entry point `via`."""
    if via is None:
        return res.value_of(e, recursive=recursive)
    obj, extract = via_object(cirq, e, via)
    if via == 'submap' and not recursive:
        q0, q1 = cirq.LineQubit.range(2)
        sub = cirq.CircuitOperation(cirq.FrozenCircuit(obj, cirq.CZ(q0, q1)), param_resolver=res)
        return extract(sub.mapped_circuit().operation_at(q0, 0))
    return extract(cirq.resolve_parameters(obj, res, recursive))


def impl_value_of(res, e, recursive, via=None, cirq=None):
    """('val', tree, raw) | ('rec',) | ('other', description)."""
    try:
        v = with_timeout(20, lambda: observe_value(cirq, res, e, recursive, via))
    except RecursionError:
        return ('rec',)
    except Exception as ex:
        return ('other', f'{type(ex).__name__}: {ex}'[:200])
    try:
        return ('val', to_tree(v), v)
    except Unsupported as ex:       # a value outside the tree language of the model: judged against sympy substitution instead
        return ('unrep', f'unrepresentable value {v!r} ({ex})'[:200], v)


def impl_term(g):
    return {'val': lambda: f'(IVal {expr_term(g[1])})', 'rec': lambda: 'IRecursion', 'other': lambda: 'IOther', 'unrep': lambda: 'IOther'}[g[0]]()


# ---- reference: ordinary algebra, done by sympy substitution (spec level, no Cirq code involved) ----
def sym_dict(entries):
    import sympy
    return {sympy.Symbol(k): (sympy.Symbol(v) if isinstance(v, str) else sympy.sympify(v)) for k, v in entries}


def depends_on_cycle(entries, e):
    import sympy
    sd = sym_dict(entries)
    graph = {k.name: {s.name for s in v.free_symbols} for k, v in sd.items() if v != k}
    state = {}

    def visit(s):
        if state.get(s) == 1:
            return True
        if state.get(s) == 2 or s not in graph:
            return False
        state[s] = 1
        if any(visit(x) for x in graph[s]):
            return True
        state[s] = 2
        return False
    return any(visit(s.name) for s in sympy.sympify(e).free_symbols)


def ref_resolve(entries, e):
    """Substitution iterated to a fixpoint; None when the expression depends on a cycle."""
    import sympy
    if depends_on_cycle(entries, e):
        return None
    sd = sym_dict(entries)
    cur = sympy.sympify(e)
    for _ in range(len(sd) + 2):
        nxt = cur.subs(sd, simultaneous=True)
        if nxt == cur:
            return cur
        cur = nxt
    return cur


def num_eval(x, env):
    """Exact-as-possible numeric value of a (sympy or Python) value under an assignment of the symbols; complex."""
    import sympy
    x = sympy.sympify(x)
    sub = {sympy.Symbol(k): sympy.Rational(f.numerator, f.denominator) for k, f in env.items()}
    for s in x.free_symbols:                     # symbols the assignment does not mention get a fixed value
        sub.setdefault(s, sympy.Rational(3, 4))
    v = x.subs(sub, simultaneous=True)
    return complex(sympy.N(v, 30))


def values_agree(x, y, envs, tol=1e-9):
    for env in envs:
        try:
            a, b = num_eval(x, env), num_eval(y, env)
        except Exception:
            return False
        if not (abs(a - b) <= tol * (1 + abs(a))):
            return False
    return True


def skeleton(t, entries):
    bound = {k for k, _ in entries}
    if t[0] == 'N':
        return 'num'
    if t[0] == 'S':
        return 'bound' if t[1] in bound else 'free'
    return t[1] + '(' + ','.join(skeleton(c, entries) for c in t[2]) + ')'


def judge_value_of(cirq, entries, e, recursive=True, envs=None, only_exception=None, via=None):
    """Spec-level verdict on the real code for one query on a fresh resolver: None if the property holds, else
    (kind, message).  Expected: RecursionError iff the query depends on a cycle; otherwise the value obtained by
    substitution.  `via`: the object through which the expression is resolved (None = ParamResolver.value_of itself)."""
    import sympy
    res = make_resolver(cirq, entries)
    got = None
    try:
        got = observe_value(cirq, res, e, recursive, via)
        err = None
    except RecursionError:
        err = 'RecursionError'
    except Exception as ex:
        err = type(ex).__name__
    label = f'value_of({e})' if via is None else f'the parameter read back (e = {e})'
    if only_exception is not None:       # minimising an unexpected exception: the reference value is not needed
        return (err, f'{label} raised {err}') if err == only_exception else None
    if recursive:
        want = ref_resolve(entries, e)
    else:
        want = sympy.sympify(e).subs(sym_dict(entries), simultaneous=True)
    if want is None:
        return None if err == 'RecursionError' else ('no-loop-detected', f'{label} on a cyclic resolver returned {got!r} / raised {err}')
    try:
        if want.has(sympy.zoo) or want.has(sympy.nan) or want.has(sympy.oo):
            return None         # the substituted expression has no value (e.g. 1/c at c = 0): nothing to compare (inf, nan or an error are all fine)
    except Exception:
        pass
    if err is not None:
        return (err, f'{label} raised {err}, substitution gives {want}')
    envs = envs or [{s: Fraction(3, 4) for s in GEN_SYMS + INT_SYMS + POS_SYMS}]
    try:
        gs = sympy.sympify(got)
        bad = gs.has(sympy.nan) or gs.has(sympy.zoo) or gs.has(sympy.oo)
    except Exception:
        bad = True
    if bad:
        return ('nan', f'{label} = {got!r}, substitution gives {want}')
    if not values_agree(got, want, envs):
        return ('value', f'{label} = {got!r}, substitution gives {want}')
    extra = {s.name for s in gs.free_symbols} - {s.name for s in want.free_symbols}
    if extra:
        return ('symbols', f'{label} = {got!r} mentions {sorted(extra)}, substitution gives {want}')
    return None


def subexprs(e):
    import sympy
    out = [e]
    for a in getattr(e, 'args', ()):
        if isinstance(a, sympy.Basic):
            out += subexprs(a)
    return out


def spec_value_of(ctx, cirq, entries, e, recursive, envs, stream, via=None):
    """Returns None (the property holds on this query), 'known' (a recorded finding) or 'new'.
    Decide on the real code whether the property's statement fails for this query; minimise to the smallest failing
    sub-expression (descending into dictionary values, then dropping dictionary entries that are not needed) so that the
    signature names the call site: value_of:<what goes wrong>:<head of the smallest failing expression>."""
    import sympy
    verdict = judge_value_of(cirq, entries, e, recursive, envs, via=via)
    if verdict is None:
        return None
    sd = sym_dict(entries)
    exc = verdict[0] if verdict[0] not in ('nan', 'value', 'symbols', 'no-loop-detected', 'RecursionError') else None
    for _ in range(40):
        smaller = None
        for s in sorted(subexprs(e)[1:], key=lambda x: len(str(x))):
            v = judge_value_of(cirq, entries, s, recursive, envs, exc, via=via)
            if v is not None:
                smaller = (s, v)
                break
        if smaller is None and isinstance(e, sympy.Symbol) and e in sd and sd[e] != e and not sd[e].is_Number:
            v = judge_value_of(cirq, entries, sd[e], recursive, envs, exc, via=via)
            if v is not None:
                smaller = (sd[e], v)
        if smaller is None:
            break
        e, verdict = smaller
    needed = list(entries)
    for kv in list(needed):
        trial = [x for x in needed if x is not kv]
        v2 = judge_value_of(cirq, trial, e, recursive, envs, exc, via=via)
        if v2 is not None and v2[0] == verdict[0]:
            needed, verdict = trial, v2
    verdict = judge_value_of(cirq, needed, e, recursive, envs, via=via) or verdict
    head = 'sym' if isinstance(e, sympy.Symbol) else type(e).__name__.lower()
    sig = f'value_of:{verdict[0]}:{head}'
    mode = '' if recursive else ', recursive=False'
    if via is not None:      # value_of itself is right on this query (the caller checked): the entry point is to blame
        sig = f'resolve_via:{via}:{"recursive" if recursive else "once"}:{verdict[0]}'
        how = 'cirq.resolve_parameters(obj, r)' if recursive else 'one resolution step (cirq.resolve_parameters_once(obj, r) / recursive=False)'
        r = ctx.violation(sig, f'{how} with r = ParamResolver({dict(needed)!r}) on obj = {VIA_DESC[via]}, e = {e}: the parameter read back from the result '
                          f'is not what ParamResolver.value_of and ordinary substitution give: {verdict[1]}{mode}',
                          dict(kind='value_of', entries=[[k, repr_value(x)] for k, x in needed], expr=sympy_srepr(e), recursive=recursive, via=via))
        return 'known' if r == 'known' else 'new'
    r = ctx.violation(sig, f'ParamResolver({dict(needed)!r}): {verdict[1]}{mode}',
                      dict(kind='value_of', entries=[[k, repr_value(x)] for k, x in needed], expr=sympy_srepr(e), recursive=recursive))
    return 'known' if r == 'known' else 'new'


def worst(results):
    """Combine the outcomes of several attributions: 'new' if any is a new violation, else 'known' if any is a recorded finding."""
    results = [r for r in results if r]
    return 'new' if 'new' in results else ('known' if results else None)


def repr_value(v):
    return v if isinstance(v, (str, int, float)) else {'sympy': sympy_srepr(v)}


def sympy_srepr(e):
    import sympy
    return sympy.srepr(sympy.sympify(e))


def resolver_stream(ctx, cirq, n, vias=None):
    """vias=None: the queries go to ParamResolver.value_of.  vias=[...]: the same generated dictionaries and expressions, but the
    expression is placed in an object (bare / tagged / controlled operation, tag value, moment, circuit, sub-circuit parameter
    map) and resolved through cirq.resolve_parameters(obj, resolver, recursive); the parameter read back from the result is
    compared with the same model (recursive and single-step), and parameter_names / is_parameterized are those of the object.
    Every corner dictionary is run through every entry point (for every seed), the random ones cycle through them."""
    import sympy
    rng = ctx.rng
    cases, terms = [], []
    stream = 'value_of' if vias is None else 'resolve_via'
    corner = [([('a', 'b'), ('b', 3)], ['a', 'b', 'c']), ([('a', 1.0)], ['a', 'b']), ([], ['a']),
              ([('a', sympy.Symbol('b') + 1), ('b', sympy.Symbol('a') * 2)], ['a', 'b', 'c']),
              ([('a', sympy.Symbol('a'))], ['a']), ([('a', sympy.Symbol('a') + 1)], ['a', 'b']),
              ([('a', sympy.Symbol('b') + 1), ('b', sympy.Symbol('c') * 2), ('c', 0.5)], ['a', 'b', 'c'])]
    all_syms = GEN_SYMS + INT_SYMS + POS_SYMS
    if vias is not None:
        a_, b_, c_ = sympy.symbols('a b c')
        corner = corner + [([('a', b_), ('b', 0.5)], ['a', 'b']), ([('a', b_), ('b', a_)], ['a', 'b']),
                           ([('a', 'b'), ('b', 'c'), ('c', 'a')], ['a', 'c']), ([('a', 2 * b_ + c_), ('b', c_ + 1), ('c', 0.25)], ['a', 'b']),
                           ([('a', 0.25), ('b', 0.5)], ['a', 'b'])]
        corner = [cn for cn in corner for _ in vias]
    for i in range(n):
        via = None if vias is None else vias[i % len(vias)]
        if i < len(corner):
            entries, qs = corner[i]
            queries = [sympy.Symbol(q) for q in qs] + [sympy.Symbol(qs[0]) * 2 + sympy.Symbol(qs[-1])]
        else:
            entries, cyc = gen_resolver(rng)
            queries = []
            for _ in range(rng.choice([2, 3, 4])):
                r = rng.random()
                if r < 0.2 and entries:
                    queries.append(sympy.Symbol(rng.choice(entries)[0]))
                else:
                    syms = GEN_SYMS if rng.random() < 0.8 else rng.sample(GEN_SYMS, 2)
                    queries.append(gen_expr(rng, rng.choice([1, 2, 3, 4, 5]), syms, allow_fn=not cyc))
        queries = [q for q in queries if isinstance(q, sympy.Basic) and not q.is_Number]
        if not queries:
            continue
        try:
            rterm = resolver_term(entries)
            qtrees = [to_tree(q) for q in queries]
        except Unsupported:
            continue
        symbol_keys = [rng.random() < 0.4 for _ in entries]
        res = make_resolver(cirq, entries, symbol_keys=symbol_keys)
        envs = gen_envs(rng)
        rows = []
        for q, qt in zip(queries, qtrees):
            g1 = impl_value_of(res, q, False, via, cirq)
            g = impl_value_of(res, q, True, via, cirq)          # the resolver object (and its memo) is shared by all queries
            carrier = q if via is None else via_object(cirq, q, via)[0]
            names = sorted(cirq.parameter_names(carrier))
            isp = bool(cirq.is_parameterized(carrier))
            rows.append((q, qt, g, g1, names, isp))
            heads = tree_heads(qt)
            nontriv = tree_size(qt) >= 3 and any(k in {s.name for s in q.free_symbols} for k, _ in entries)
            if via is not None:      # non-trivial here: one step and full resolution differ, or a compound expression
                nontriv = nontriv or (g[0] != g1[0] or (g[0] == 'val' and g[1] != g1[1]))
            ctx.count(stream, [rterm, expr_term(qt)] + ([via] if via else []), nontriv,
                      sample=dict(resolver=repr(res), expr=str(q), value=str(g[2]) if g[0] == 'val' else g[0], once=str(g1[2]) if g1[0] == 'val' else g1[0],
                                  parameter_names=names, **({'via': VIA_DESC[via]} if via else {})))
        cases.append((entries, envs, rows, via))
        qterm = llit(rows, lambda r: f'({expr_term(r[1])}, {impl_term(r[2])}, {impl_term(r[3])}, {llit(r[4], slit)}, {"true" if r[5] else "false"})')
        terms.append(f'(mkR {qlit(REL_TOL)} {llit(envs, env_term)} {rterm} {qterm})')
    allrows = [r for c in cases for r in c[2]]
    ctx.cov.setdefault('distribution', {})[stream] = dict(
        resolvers=len(cases), queries=len(allrows), **({} if vias is None else {'by_entry_point': {v: sum(1 for c in cases if c[3] == v) for v in vias},
                                                                                'once_differs_from_recursive': sum(1 for r in allrows if r[2][:2] != r[3][:2])}),
        by_depth={d: sum(1 for r in allrows if tree_depth(r[1]) == d) for d in range(0, 8)},
        impl_recursion_errors=sum(1 for r in allrows if r[2][0] == 'rec'), impl_symbolic_results=sum(1 for r in allrows if r[2][0] == 'val' and r[2][1][0] != 'N'),
        with_function_heads=sum(1 for r in allrows if tree_heads(r[1]) & set(FN_HEADS)), with_pow=sum(1 for r in allrows if 'pow' in tree_heads(r[1])))
    header = ('From Coq Require Import String ZArith QArith List Bool.\nFrom VF Require Import Base.Harness Codec.Resolver Codec.ResolverHarness.\n'
              'Import ListNotations.\nLocal Open Scope nat_scope.\n')
    bad = []
    for sh, lo in enumerate(range(0, len(terms), 150)):
        text = header + 'Definition cases : list rcase := [\n' + ';\n'.join(terms[lo:lo + 150]) + '].\nEval vm_compute in resolver_failures cases.\n'
        flat = coq.parse_nat_list(coq.parse_evals(coq.coq_eval(f'c10_{"resolver" if vias is None else "via"}_{ctx.seed}_{sh}', text))[0])
        bad += [(lo + flat[i], flat[i + 1], flat[i + 2]) for i in range(0, len(flat), 3)]
    names = {1: 'model-value/impl-error', 2: 'model-loop/impl-value', 3: 'value', 4: 'free-symbols', 5: 'model-out-of-fuel', 20: 'parameter_names'}
    for ci, qi, code in bad:
        entries, envs, rows, via = cases[ci]
        q, qt, g, g1, pnames, isp = rows[qi]
        once = 10 < code < 20
        what = names.get(code - 10 if once else code, str(code))
        if code > 30:
            what = 'memo-model:' + names.get(code - 30, str(code))
        bname = f'correspondence:{stream}{":" + via if via else ""}{"_once" if once else ""}:{what}'
        bdetail = f'resolver {dict(entries)!r}, expr {q}: implementation {(g1 if once else g)[:2]} vs model'
        if code == 20:
            ctx.mark_broken(bname, bdetail)
            want = sorted(s.name for s in q.free_symbols)
            if pnames != want or not isp:
                if via is None:
                    ctx.violation('parameter_names', f'parameter_names({q}) = {pnames}, free symbols {want}; is_parameterized = {isp}',
                                  dict(kind='names', expr=sympy_srepr(q)))
                else:
                    ctx.violation(f'parameter_names:via:{via}', f'parameter_names({VIA_DESC[via]}) with e = {q} is {pnames}, the free symbols of e are {want}; '
                                  f'is_parameterized = {isp}', dict(kind='names', expr=sympy_srepr(q), via=via))
            continue
        # decide on the real code: first this query alone on a fresh resolver, then the recorded sequence (shared memo)
        verdict = spec_value_of(ctx, cirq, entries, q, not once, envs, stream)
        if verdict is None and via is not None:      # value_of itself is right: is it the entry point?
            verdict = spec_value_of(ctx, cirq, entries, q, not once, envs, stream, via=via)
        if verdict is None and (g1 if once else g)[0] == 'unrep':
            ctx.cov['distribution'][stream]['outside_model_judged_by_sympy'] = ctx.cov['distribution'][stream].get('outside_model_judged_by_sympy', 0) + 1
            continue
        if verdict != 'known':
            ctx.mark_broken(bname, bdetail)          # a recorded finding does not break the correspondence; anything else does
        if verdict is None:
            res = make_resolver(cirq, entries)
            for (q2, _, _, _, _, _) in rows[:qi + 1]:
                seq = impl_value_of(res, q2, True, via, cirq)
            fresh = impl_value_of(make_resolver(cirq, entries), q, True, via, cirq)
            if seq[0] != fresh[0] or (seq[0] == 'val' and not values_agree(seq[2], fresh[2], envs)):
                ctx.violation('value_of:memo-changes-result', f'resolver {dict(entries)!r}: value_of({q}) after earlier queries gives {seq[1:]}, fresh resolver gives {fresh[1:]}',
                              dict(kind='value_of_seq', entries=[[k, repr_value(x)] for k, x in entries], exprs=[sympy_srepr(r[0]) for r in rows[:qi + 1]]))


# ------------------------------------------------------------------------------------------------
# Differential streams: wider expression classes, gates, circuits, simulation, flattening
# (reference = numbers substituted by sympy, then the same Cirq constructor / simulator)
# ------------------------------------------------------------------------------------------------
def gen_fexpr(rng, depth, syms):
    """Real- or complex-valued expressions of the kinds users write as gate parameters (fractional powers, division,
    trigonometric functions, pi) — compared with sympy substitution only, no Coq model."""
    import sympy
    if depth <= 0 or rng.random() < 0.2:
        r = rng.random()
        if r < 0.6 and syms:
            return sympy.Symbol(rng.choice(syms))
        if r < 0.75:
            return sympy.Integer(rng.choice([-2, -1, 1, 2, 3]))
        if r < 0.85:
            return sympy.Rational(rng.choice([-3, -1, 1, 3, 5]), rng.choice([2, 3, 4]))
        if r < 0.93:
            return sympy.Float(round(rng.uniform(-2, 2), 3))
        return sympy.pi
    sub = lambda: gen_fexpr(rng, depth - 1, syms)
    kind = rng.choice(['add', 'add', 'mul', 'mul', 'pow', 'pow', 'div', 'fn'])
    if kind == 'add':
        return sympy.Add(*[sub() for _ in range(rng.choice([2, 3]))])
    if kind == 'mul':
        return sympy.Mul(*[sub() for _ in range(rng.choice([2, 3]))])
    if kind == 'pow':
        return sympy.Pow(sub(), rng.choice([2, 3, sympy.Rational(1, 2), sympy.Rational(1, 3), sympy.Rational(3, 2), -1, sympy.Float(0.5), sympy.Float(1.5)]))
    if kind == 'div':
        return sub() / rng.choice([2, 3, sympy.pi, 4])
    return rng.choice([sympy.sin, sympy.cos, sympy.exp, sympy.Abs])(sub())


def judge_skip_undefined(cirq, entries, e, envs):
    """judge_value_of, except that inputs on which ordinary algebra itself is undefined (division by zero ...) or huge are skipped."""
    import sympy
    try:
        want = ref_resolve(entries, e)
        if want is not None:
            if want.has(sympy.zoo) or want.has(sympy.nan) or want.has(sympy.oo):
                return 'skip'
            for env in envs:
                v = num_eval(want, env)
                if not (abs(v) < 1e6) or v != v:
                    return 'skip'
    except Exception:
        return 'skip'
    return judge_value_of(cirq, entries, e, True, envs)


def float_stream(ctx, cirq, n):
    """value_of against sympy substitution on expressions outside the exact model (spec-level oracle applied directly)."""
    import sympy
    rng = ctx.rng
    x = sympy.Symbol('x')
    corner = [([('x', -1)], sympy.sqrt(x)), ([('x', -1.5)], sympy.sqrt(x)), ([('x', -8.0)], x ** sympy.Rational(1, 3)),
              ([('x', 4.0)], sympy.sqrt(x)), ([('x', 1j)], x * x), ([('x', 0.5)], sympy.exp(sympy.I * sympy.pi * x)),
              ([('y', 1)], 2 ** x), ([('x', 2)], x ** sympy.Symbol('y')), ([('x', 0.25)], sympy.sin(sympy.pi * x) / 2)]
    skipped = 0
    for i in range(n):
        if i < len(corner):
            entries, e = corner[i]
        else:
            syms = rng.sample(GEN_SYMS, rng.choice([1, 2, 3]))
            entries = []
            for j, s in enumerate(syms):
                r = rng.random()
                if r < 0.75 or j == len(syms) - 1:
                    entries.append((s, rng.choice([round(rng.uniform(-2, 2), 3), rng.randint(-3, 3), float(rng.randint(-2, 2)), 0.5, -0.5])))
                else:
                    entries.append((s, gen_fexpr(rng, 1, syms[j + 1:])))
            if rng.random() < 0.3:
                entries = entries[:-1]                       # leave one symbol unresolved
            e = gen_fexpr(rng, rng.choice([1, 2, 2, 3]), syms)
        if not isinstance(e, sympy.Basic) or e.is_Number:
            continue
        envs = [{s: Fraction(rng.randint(1, 7), 4) for s in GEN_SYMS + ['x', 'y']}]
        v = judge_skip_undefined(cirq, entries, e, envs)
        if v == 'skip':
            skipped += 1
            continue
        ctx.count('value_of_float', [str(entries), sympy.srepr(e)], len(e.free_symbols & {sympy.Symbol(k) for k, _ in entries}) > 0 and len(e.args) > 0,
                  sample=dict(resolver=str(dict(entries)), expr=str(e), verdict=str(v)))
        if v is not None:
            spec_value_of(ctx, cirq, entries, e, True, envs, 'value_of_float')
    ctx.cov.setdefault('distribution', {})['value_of_float'] = dict(skipped_undefined_by_algebra=skipped)


# ---- gates and circuits -----------------------------------------------------------------------------
from .. import gates as _gates

ONE_Q = ['XPow', 'YPow', 'ZPow', 'HPow', 'Rx', 'Ry', 'Rz', 'PhasedX', 'PhasedXZ']
TWO_Q = ['CZPow', 'CXPow', 'SwapPow', 'ISwapPow', 'XXPow', 'YYPow', 'ZZPow', 'FSim', 'PhasedFSim', 'PhasedISwap', 'Givens', 'MS', 'PI', 'Diagonal2']
THREE_Q = ['CCZPow', 'CCXPow', 'Diagonal3']
OTHER = ['X4Pow', 'Z4Pow', 'PhaseGrad', 'GlobalPhase']


def sym_params(fam, p):
    """Names of the parameters of a family that accept expressions."""
    if fam.startswith('Diagonal'):
        return [('angles', i) for i in range(len(p['angles']))]
    return [k for k, v in p.items() if isinstance(v, float) and k != 's']


def draw_gate(rng, fam):
    if fam.startswith('Diagonal'):
        nq = int(fam[-1])
        return _gates.G('Diagonal', dict(angles=[_gates.draw_angle(rng) for _ in range(2 ** nq)], fixed=rng.random() < 0.5), (2,) * nq)
    if fam == 'PhaseGrad':
        nq = rng.choice([1, 2])
        return _gates.G('PhaseGrad', dict(e=_gates.draw_exp(rng)), (2,) * nq)
    g = _gates.draw(rng, fam)
    g.p = {k: (float(v) if isinstance(v, (int, float)) and not isinstance(v, bool) and k not in ('p0', 'p1', 'i0', 'i1') else v) for k, v in g.p.items()}
    return g


def with_params(g, assign):
    """Copy of the gate record with the listed parameters replaced (values may be sympy expressions or floats)."""
    p = dict(g.p)
    if 'angles' in p:
        p['angles'] = list(p['angles'])
    for k, v in assign.items():
        if isinstance(k, tuple):
            p['angles'][k[1]] = v
        else:
            p[k] = v
    return _gates.G(g.fam, p, g.shape)


def build_gate(cirq, g):
    import sympy
    if g.fam == 'GlobalPhase':      # the one complex-valued gate parameter: coefficient = exp(i * rads)
        r = g.p['rads']
        return cirq.GlobalPhaseGate(sympy.exp(sympy.I * r) if isinstance(r, sympy.Basic) else complex(math.cos(r), math.sin(r)))
    return g.cirq_gate(cirq)


def gen_pexpr(rng, depth, syms):
    """Real-valued, everywhere-defined parameter expressions."""
    import sympy
    if depth <= 0 or rng.random() < 0.25:
        r = rng.random()
        if r < 0.7:
            return sympy.Symbol(rng.choice(syms))
        if r < 0.85:
            return sympy.Rational(rng.randint(-5, 5), rng.choice([1, 2, 4]))
        return sympy.Float(float(dyadic(rng)) / 4)
    sub = lambda: gen_pexpr(rng, depth - 1, syms)
    kind = rng.choice(['add', 'add', 'mul', 'mul', 'sq', 'div', 'fn', 'trig'])
    if kind == 'add':
        return sympy.Add(*[sub() for _ in range(rng.choice([2, 3]))])
    if kind == 'mul':
        return sympy.Mul(*[sub() for _ in range(2)])
    if kind == 'sq':
        return sympy.Pow(sub(), 2)
    if kind == 'div':
        return sub() / rng.choice([2, 4, sympy.pi])
    if kind == 'fn':
        f = rng.choice(['Abs', 'Max', 'Min'])
        return sympy.Abs(sub()) if f == 'Abs' else getattr(sympy, f)(sub(), sub())
    return rng.choice([sympy.sin, sympy.cos])(sub())


def gen_cexpr(rng):
    """A symbolic constant: a sympy expression without free symbols (sympy.pi / 4, sympy.Rational(1, 3), sqrt(2) / 2 ...).  Such a
    gate parameter is 'parameterized' (it only becomes a number through resolve_parameters) but has no parameter names."""
    import sympy
    base = [sympy.pi / 4, sympy.Rational(1, 3), sympy.sqrt(2) / 2, sympy.pi / 7, sympy.cos(sympy.pi / 5), -sympy.pi / 3, sympy.Rational(-5, 7),
            sympy.E / 4, sympy.sqrt(3) - 1, 2 * sympy.pi / 3]
    c = rng.choice(base)
    r = rng.random()
    if r < 0.2:
        c = c + sympy.Rational(rng.randint(-3, 3), 4)
    elif r < 0.3:
        c = c * rng.choice(base)
    return c


def gen_full_resolver(rng, syms):
    """Every symbol ends up a number, through chains: values are numbers, aliases, or expressions of later symbols."""
    import sympy
    order = list(syms)
    rng.shuffle(order)
    entries = []
    for i, s in enumerate(order):
        later = order[i + 1:]
        r = rng.random()
        if r < 0.55 or not later:
            v = rng.choice([round(rng.uniform(-2, 2), 3), float(dyadic(rng)) / 2, rng.randint(-2, 2), 0.5, 0.25, 1.0])
        elif r < 0.7:
            v = rng.choice(later) if rng.random() < 0.5 else sympy.Symbol(rng.choice(later))
        else:
            v = gen_pexpr(rng, rng.choice([1, 2]), later)
        entries.append((s, v))
    rng.shuffle(entries)
    return entries


def ref_number(entries, e):
    """The real number ordinary algebra assigns to a parameter expression under the resolver (None if not a finite real)."""
    import sympy
    if not isinstance(e, sympy.Basic):
        return float(e)
    w = ref_resolve(entries, e)
    if w is None or w.free_symbols:
        return None
    try:
        c = complex(sympy.N(w, 30))
    except Exception:
        return None
    if abs(c.imag) > 1e-12 or not (abs(c) < 1e4):
        return None
    return c.real


def gen_param_gate(rng, fam, syms, entries, all_numeric_prob=0.0, const_prob=0.0):
    """(symbolic gate record, numeric twin record, parameter expressions) or None.  const_prob: probability that all symbolic
    parameters of the gate are symbolic constants (no free symbol)."""
    g0 = draw_gate(rng, fam)
    keys = sym_params(g0.fam, g0.p)
    chosen = [k for k in keys if rng.random() < 0.7] or keys[:1]
    if rng.random() < all_numeric_prob:
        chosen = []
    const = const_prob > 0 and rng.random() < const_prob
    sym_assign, num_assign = {}, {}
    for k in chosen:
        for _ in range(6):
            e = gen_cexpr(rng) if const else gen_pexpr(rng, rng.choice([0, 1, 1, 2, 3]), syms)
            v = ref_number(entries, e)
            if v is not None:
                break
        else:
            return None
        sym_assign[k], num_assign[k] = e, v
    return with_params(g0, sym_assign), with_params(g0, num_assign), list(sym_assign.values())


def safe_str(x):
    try:
        return str(x)
    except Exception:
        return repr(x)


def mats_close(a, b, tol=1e-7):
    import numpy as np
    a, b = np.asarray(a), np.asarray(b)
    return a.shape == b.shape and bool(np.all(np.isfinite(a))) and bool(np.allclose(a, b, atol=tol, rtol=0))


def classify_exprs(ctx, cirq, entries, exprs):
    """If the failure of a gate/circuit is already a failure of value_of on one of its parameter expressions, report that."""
    import sympy
    return worst([spec_value_of(ctx, cirq, entries, e, True, None, 'gate') for e in exprs if isinstance(e, sympy.Basic) and not e.is_Number])


def all_locals(specs):
    out = []
    for s in specs:
        w = s['wrap']
        if isinstance(w, tuple):
            if w[3] is not None:
                out.append((w[3], [e for x in w[1] for e in x['exprs']]))
            out += all_locals(w[1])
    return out


def attribute_to_value_of(ctx, cirq, specs, entries, stream):
    """True when value_of already fails on one of the parameter expressions: with the resolver (recursively), or in the
    single-step resolution a CircuitOperation applies with its own param_resolver."""
    import sympy
    exprs = [e for s in specs for e in s['exprs']]
    res = [classify_exprs(ctx, cirq, entries, exprs)]
    for local, inner in all_locals(specs):
        res += [spec_value_of(ctx, cirq, [local], e, False, None, stream) for e in inner if isinstance(e, sympy.Basic) and not e.is_Number]
    return worst(res)


def explain_exception(ctx, cirq, stream, specs, entries, ex, rep):
    """An unexpected exception while observing a case: attribute it to value_of on one of the parameter expressions if that
    already fails there (also the single-step resolution a CircuitOperation applies to its own param_resolver), else report it."""
    import sympy
    a = attribute_to_value_of(ctx, cirq, specs, entries, stream)
    if a == 'new':
        ctx.mark_broken(f'differential:{stream}', f'raised {type(ex).__name__}: {ex}'[:300])
    elif a is None:
        ctx.disagree(f'differential:{stream}', f'raised {type(ex).__name__}: {ex}'[:300],
                     f'{stream}:raises:{type(ex).__name__}', f'{stream}: {type(ex).__name__}: {ex}'[:600], rep)


def gate_stream(ctx, cirq, n):
    """resolve_parameters then cirq.unitary  vs  substitute numbers (sympy) then cirq.unitary, gate by gate; plus
    parameter_names / is_parameterized of the symbolic gate and two-stage resolution."""
    import sympy
    rng = ctx.rng
    fams = ONE_Q + TWO_Q + THREE_Q + OTHER
    for i in range(n):
        fam = fams[i % len(fams)]
        syms = rng.sample(GEN_SYMS, rng.choice([1, 2, 3]))
        entries = gen_full_resolver(rng, syms)
        made = gen_param_gate(rng, fam, syms, entries)
        if made is None:
            continue
        gs, gn, exprs = made
        rep = dict(kind='gate', fam=gs.fam, shape=list(gs.shape), params={str(k): sympy_srepr(v) if isinstance(v, sympy.Basic) else v for k, v in flat_params(gs).items()},
                   entries=[[k, repr_value(x)] for k, x in entries])
        try:
            sg, ng = build_gate(cirq, gs), build_gate(cirq, gn)
            want = cirq.unitary(ng)
        except Exception:
            continue
        symbolic = any(isinstance(e, sympy.Basic) for e in exprs)
        ctx.count('gate_unitary', [gs.fam, rep['params'], rep['entries']], symbolic and any(len(getattr(e, 'args', ())) > 0 for e in exprs),
                  sample=dict(gate=repr(sg), resolver=str(dict(entries)), numeric=repr(ng)))
        names_want = set().union(*[{s.name for s in e.free_symbols} for e in exprs if isinstance(e, sympy.Basic)]) if exprs else set()
        if symbolic and (set(cirq.parameter_names(sg)) != names_want or (names_want and not cirq.is_parameterized(sg))):
            ctx.violation(f'parameter_names:{gs.fam}', f'parameter_names({sg!r}) = {sorted(cirq.parameter_names(sg))}, its parameters mention {sorted(names_want)}; '
                          f'is_parameterized = {cirq.is_parameterized(sg)}', rep)
        res = cirq.ParamResolver(dict(entries))
        # one shot, and in two stages (first the entries of half of the symbols, then the rest)
        half = [kv for kv in entries if kv[0] in syms[:max(1, len(syms) // 2)]]
        rest = [kv for kv in entries if kv not in half]
        for how, f in (('one-shot', lambda: cirq.resolve_parameters(sg, res)),
                       ('two-stage', lambda: cirq.resolve_parameters(cirq.resolve_parameters(sg, dict(rest)), dict(half + rest)))):
            try:
                r = f()
                bad = None
                if cirq.is_parameterized(r):
                    bad = f'still parameterized: {r!r}'
                elif not mats_close(cirq.unitary(r), want):
                    bad = f'unitary of {r!r} differs from unitary of {ng!r}'
            except Exception as ex:
                bad = f'raised {type(ex).__name__}: {ex}'[:300]
            if bad:
                a = classify_exprs(ctx, cirq, entries, exprs)
                if a == 'new':
                    ctx.mark_broken(f'differential:gate:{gs.fam}', bad)
                elif a is None:
                    ctx.disagree(f'differential:gate:{gs.fam}', bad, f'resolve:gate:{gs.fam}', f'resolve_parameters({sg!r}, {dict(entries)!r}) [{how}] {bad}', rep)
                break


def flat_params(g):
    out = {}
    for k, v in g.p.items():
        if k == 'angles':
            for i, a in enumerate(v):
                out[f'angles[{i}]'] = a
        else:
            out[k] = v
    return out


# ---- circuits --------------------------------------------------------------------------------------
def gen_circuit_spec(rng, syms, entries, nq, allow_sub=True, depth=0, const_prob=0.0):
    """A list of op specs: dict(sym=G, num=G, qs=[...], wrap=None|'tag'|'ctrl'|('sub', inner_specs, reps, local)).
    Built twice (symbolic / numeric twin) by build_circuit.  `entries` may contain local symbols of enclosing sub-circuits."""
    ops = []
    for _ in range(rng.choice([2, 3, 4, 5, 6])):
        r = rng.random()
        if allow_sub and nq >= 2 and r < 0.18:
            import sympy
            local = None
            ents2, syms2 = entries, syms
            if rng.random() < 0.5:                       # param_resolver of the sub-circuit: local symbol -> outer expression
                e = gen_pexpr(rng, rng.choice([0, 1, 2]), syms)
                if ref_number(entries, e) is not None:
                    local = ('u%d' % depth, e)
                    ents2, syms2 = entries + [local], syms + [local[0]]
            inner = gen_circuit_spec(rng, syms2, ents2, nq, allow_sub=depth < 1 and rng.random() < 0.3, depth=depth + 1)
            if local is not None and not any(local[0] in spec_symbols(s) for s in inner):
                local = None
            if len({i for s in inner for i in s['qs']}) < 2:      # keep sub-circuits on >= 2 qubits (the one-qubit unitary shortcut of
                cz = _gates.G('CZPow', dict(e=1.0, s=0.0), (2, 2))  # CircuitOperation is another property's subject, DESIGN F4)
                inner.append(dict(sym=cz, num=cz, qs=[0, 1], wrap=None, exprs=[]))
            ops.append(dict(wrap=('sub', inner, rng.choice([1, 1, 2]), local), qs=list(range(nq)),
                            exprs=[x for s in inner for x in s['exprs']] + ([local[1]] if local is not None else [])))
            continue
        k = rng.choice([1, 1, 2, 2, 3]) if nq >= 3 else rng.choice([1, 1, 2])
        fam = rng.choice({1: ONE_Q, 2: TWO_Q, 3: THREE_Q}[k])
        made = gen_param_gate(rng, fam, syms, entries, all_numeric_prob=0.25, const_prob=const_prob if depth == 0 else 0.0)
        if made is None:
            continue
        gs, gn, exprs = made
        qs = rng.sample(range(nq), k)
        wrap = None
        if r > 0.8:
            wrap = 'tag'
        elif r > 0.7 and k < nq:
            wrap = 'ctrl'
            qs = rng.sample(range(nq), k + 1)
        ops.append(dict(sym=gs, num=gn, qs=qs, wrap=wrap, exprs=exprs))
    return ops


def spec_symbols(s):
    import sympy
    return {x.name for e in s['exprs'] if isinstance(e, sympy.Basic) for x in e.free_symbols}


def build_ops(cirq, specs, which, q):
    ops = []
    for s in specs:
        w = s['wrap']
        if isinstance(w, tuple):
            _, inner, reps, local = w
            fc = cirq.FrozenCircuit(build_ops(cirq, inner, which, q))
            if which == 'sym' and local is not None:
                ops.append(cirq.CircuitOperation(fc, repetitions=reps, param_resolver={local[0]: local[1]}))
            else:
                ops.append(cirq.CircuitOperation(fc, repetitions=reps))
            continue
        g = build_gate(cirq, s[which])
        qs = [q[i] for i in s['qs']]
        if w == 'ctrl':
            ops.append(g.on(*qs[1:]).controlled_by(qs[0]))
        elif w == 'tag':
            ops.append(g.on(*qs).with_tags('c10-tag'))
        else:
            ops.append(g.on(*qs))
    return ops


def spec_kinds(specs):
    out = []
    for s in specs:
        w = s['wrap']
        if isinstance(w, tuple):
            out.append('sub(' + ','.join(spec_kinds(w[1])) + ')' + ('+params' if w[3] else ''))
        else:
            out.append(s['sym'].fam + ('' if w is None else ':' + w))
    return out


def make_circuit_case(ctx, cirq, rng, nq=None):
    nq = nq or rng.choice([2, 2, 3])
    syms = rng.sample(GEN_SYMS, rng.choice([1, 2, 3]))
    entries = gen_full_resolver(rng, syms)
    specs = gen_circuit_spec(rng, syms, entries, nq)
    if not specs:
        return None
    q = cirq.LineQubit.range(nq)
    try:
        cs = cirq.Circuit(build_ops(cirq, specs, 'sym', q), tags=['circuit-tag'] if rng.random() < 0.3 else [])
        cn = cirq.Circuit(build_ops(cirq, specs, 'num', q))
        want = cn.unitary(qubit_order=q)
    except Exception:
        return None
    return dict(nq=nq, syms=syms, entries=entries, specs=specs, q=q, sym=cs, num=cn, want=want)


def first_bad_op(cirq, case, resolved):
    """Smallest piece to blame: the first top-level operation whose resolved form differs from its numeric twin."""
    q = case['q']
    a, b = list(resolved.all_operations()), list(case['num'].all_operations())
    kinds = spec_kinds(case['specs'])
    for i, (x, y) in enumerate(zip(a, b)):
        try:
            if cirq.is_parameterized(x):
                return i, 'unresolved'
            ux, uy = cirq.Circuit(x).unitary(qubit_order=q), cirq.Circuit(y).unitary(qubit_order=q)
            if not mats_close(ux, uy):
                return i, 'differs'
        except Exception as ex:
            return i, 'raises:' + type(ex).__name__
    return None, 'structure'


def op_signature(case, resolved_ops_order, idx, what):
    """Signature from the spec of the blamed top-level operation (moment placement keeps insertion order per qubit, so we
    locate it by matching the i-th operation of the numeric twin)."""
    return spec_kinds(case['specs'])


def circuit_stream(ctx, cirq, n):
    import sympy
    rng = ctx.rng
    dist = dict(with_sub=0, with_local_params=0, with_tags=0, with_ctrl=0, unparameterized_moment=0)
    for _ in range(n):
        case = make_circuit_case(ctx, cirq, rng)
        if case is None:
            continue
        kinds = spec_kinds(case['specs'])
        dist['with_sub'] += any(k.startswith('sub') for k in kinds)
        dist['with_local_params'] += any('+params' in k for k in kinds)
        dist['with_tags'] += any(':tag' in k for k in kinds)
        dist['with_ctrl'] += any(':ctrl' in k for k in kinds)
        try:
            dist['unparameterized_moment'] += any(not cirq.is_parameterized(m) for m in case['sym'])
        except Exception:
            pass                      # reported below, where the same call is made under the handler
        exprs = [e for s in case['specs'] for e in s['exprs']]
        nontriv = len(case['specs']) >= 2 and any(isinstance(e, sympy.Basic) and e.args for e in exprs)
        ctx.count('circuit_unitary', [kinds, [sympy_srepr(e) if isinstance(e, sympy.Basic) else e for e in exprs], str(case['entries'])], nontriv,
                  sample=dict(circuit=safe_str(case['sym']), resolver=str(dict(case['entries']))))
        try:
            check_circuit_resolution(ctx, cirq, case, exprs)
        except Exception as ex:
            explain_exception(ctx, cirq, 'circuit', case['specs'], case['entries'], ex, circuit_replay_record(case))
    ctx.cov.setdefault('distribution', {})['circuit_unitary'] = dist


def circuit_replay_record(case):
    return dict(kind='circuit', circuit=repr(case['sym']), numeric=repr(case['num']), entries=[[k, repr_value(x)] for k, x in case['entries']])


def check_circuit_resolution(ctx, cirq, case, exprs):
    res = cirq.ParamResolver(dict(case['entries']))
    q = case['q']
    bad, resolved = None, None
    try:
        resolved = cirq.resolve_parameters(case['sym'], res)
        if cirq.is_parameterized(resolved) or cirq.parameter_names(resolved):
            bad = 'still parameterized'
        elif [len(m) for m in resolved] != [len(m) for m in case['num']]:
            bad = 'moment structure changed'
        elif not mats_close(resolved.unitary(qubit_order=q), case['want']):
            bad = 'unitary differs from the numerically substituted circuit'
    except Exception as ex:
        bad = f'raised {type(ex).__name__}: {ex}'[:300]
    if bad is None:
        return resolved
    a = attribute_to_value_of(ctx, cirq, case['specs'], case['entries'], 'circuit')
    if a is not None:
        if a == 'new':
            ctx.mark_broken('differential:circuit', bad)
        return None
    blame = 'circuit'
    if resolved is not None:
        kinds = spec_kinds(case['specs'])
        # blame the first top-level spec whose own one-op circuit fails
        for s, kind in zip(case['specs'], kinds):
            one = dict(case, specs=[s])
            try:
                cs = cirq.Circuit(build_ops(cirq, [s], 'sym', q))
                cn = cirq.Circuit(build_ops(cirq, [s], 'num', q))
                r1 = cirq.resolve_parameters(cs, res)
                ok = not cirq.is_parameterized(r1) and mats_close(r1.unitary(qubit_order=q), cn.unitary(qubit_order=q))
            except Exception:
                ok = False
            if not ok:
                blame = blame_kind(cirq, s, kind, res, q)
                break
    ctx.disagree('differential:circuit', bad, f'resolve:circuit:{blame}',
                 f'resolve_parameters of\n{safe_str(case["sym"])}\nwith {dict(case["entries"])!r}: {bad}', circuit_replay_record(case))
    return None


def blame_kind(cirq, s, kind, res, q, outer=None):
    """Signature fragment for a failing top-level operation.  For a sub-circuit: resolve it alone, expand it completely
    (mapped_circuit(deep=True)) and look at the first operation that is still parameterized:
    sub:symbolic-constant      its gate has sympy parameters without free symbols (nothing to look up, never converted)
    sub:parameter_names:<Gate> its gate is parameterized by symbols but reports no parameter names
    sub:unresolved:<Gate>      anything else."""
    if not isinstance(s['wrap'], tuple):
        return kind
    try:
        r1 = cirq.resolve_parameters(cirq.Circuit(build_ops(cirq, [s], 'sym', q)), res)
        for top in r1.all_operations():
            if not isinstance(top.untagged, cirq.CircuitOperation):
                continue
            for op in top.untagged.mapped_circuit(deep=True).all_operations():
                if cirq.is_parameterized(op):
                    g = op.gate if op.gate is not None else op.untagged
                    while getattr(g, 'sub_gate', None) is not None:      # controlled / parallel wrappers: blame the wrapped gate
                        g = g.sub_gate
                    if not cirq.parameter_names(op):
                        still = cirq.is_parameterized(cirq.resolve_parameters(op, {'c10_probe': 1.0}))
                        return 'sub:parameter_names:' + type(g).__name__ if still else 'sub:symbolic-constant'
                    return 'sub:unresolved:' + type(g).__name__
    except Exception:
        pass
    return 'sub'


# ---- simulate_sweep / run_sweep ------------------------------------------------------------------------
def gen_numeric_sweep(rng, syms):
    """A sweep tree assigning numbers to exactly the given symbols (every point assigns all of them), length <= 8."""
    leaves = []
    for s in syms:
        if rng.random() < 0.5:
            leaves.append(('P', s, [round(rng.uniform(-1, 1), 3) for _ in range(rng.choice([1, 2, 3]))]))
        else:
            leaves.append(('L', s, round(rng.uniform(-1, 0), 2), round(rng.uniform(0, 1), 2), rng.choice([1, 2, 3])))
    while len(leaves) > 1:
        a, b = leaves.pop(), leaves.pop()
        leaves.append((rng.choice(['X', 'Z', 'ZL']), [a, b]))
    t = leaves[0]
    if rng.random() < 0.2:
        t = ('C', [t, reshuffle_values(rng, t)])
    return t


def simulators(cirq):
    """(name, simulator, kind): every simulator is judged against the same reference (the state the matrix of the numerically
    substituted circuit gives |0..0>), as a state vector or as the pure density matrix of it."""
    import numpy as np
    return [('Simulator', cirq.Simulator(dtype=np.complex128), 'sv'), ('DensityMatrixSimulator', cirq.DensityMatrixSimulator(dtype=np.complex128), 'dm')]


def sim_state(kind, result):
    return result.final_state_vector if kind == 'sv' else result.final_density_matrix


def const_grid_specs(cirq):
    """Fixed cases (every seed): a gate whose parameter is a symbolic constant, placed before / beside / after / around the swept
    gate, bare, tagged and controlled, for several constants and gate families; plus a circuit where every gate is constant."""
    import sympy
    t = sympy.Symbol('t')
    G = _gates.G
    consts = [sympy.pi / 4, sympy.Rational(1, 3), sympy.sqrt(2) / 2, sympy.cos(sympy.pi / 5)]

    def one(fam, key, e, qs, wrap=None):
        shape = (2,) * len(qs) if wrap != 'ctrl' else (2,) * (len(qs) - 1)
        p = {key: e}
        if key == 'e':
            p['s'] = 0.0
        v = ref_number([('t', 0.0)], e)
        return dict(sym=G(fam, dict(p), shape), num=G(fam, dict(p, **{key: v}), shape), qs=list(qs), wrap=wrap, exprs=[e])
    h = dict(sym=G('HPow', dict(e=1.0, s=0.0), (2,)), num=G('HPow', dict(e=1.0, s=0.0), (2,)), qs=[0], wrap=None, exprs=[])
    h1 = dict(h, qs=[1])
    cx = dict(sym=G('CXPow', dict(e=1.0, s=0.0), (2, 2)), num=G('CXPow', dict(e=1.0, s=0.0), (2, 2)), qs=[0, 1], wrap=None, exprs=[])
    out = []
    for i, c in enumerate(consts):
        swept = [one('XPow', 'e', t, [1]), one('Rz', 'rads', sympy.pi * t, [0]), one('CZPow', 'e', t + c, [0, 1]), one('YPow', 'e', t * t, [0])][i]
        cgates = [one('Rz', 'rads', c, [0]), one('XPow', 'e', c, [0]), one('CZPow', 'e', c, [0, 1]), one('YPow', 'e', c, [1], 'tag'), one('ZPow', 'e', c, [1, 0], 'ctrl')]
        for j, cg in enumerate(cgates):
            layouts = [[h, cg, swept, cx], [h, h1, swept, cg, cx], [cg, h, swept, cg]]
            out.append(layouts[(i + j) % 3])
    out.append([h, one('Rz', 'rads', consts[0], [0]), one('XPow', 'e', consts[1], [1]), cx])      # no swept symbol in the circuit at all
    return out


def simulate_stream(ctx, cirq, n):
    import numpy as np, sympy
    rng = ctx.rng
    sims = simulators(cirq)
    dist = dict(with_symbolic_constant=0, with_prefix=0, grid=0)
    grid = const_grid_specs(cirq)
    for i in range(len(grid) + n):
        if i < len(grid):
            nq, syms, specs, prefix = 2, ['t'], grid[i], []
            q = cirq.LineQubit.range(nq)
            direct = [('t', 0.0)]
            t = [('L', 't', 0.0, 1.0, 3), ('P', 't', [0.25, -0.5])][i % 2]
            dist['grid'] += 1
        else:
            nq = rng.choice([2, 3])
            syms = rng.sample(GEN_SYMS, rng.choice([1, 2]))
            direct = [(s, 0.0) for s in syms]                     # circuit expressions are built over the swept symbols themselves
            specs = gen_circuit_spec(rng, syms, direct, nq, const_prob=0.3 if i % 2 else 0.0)
            q = cirq.LineQubit.range(nq)
            prefix = [cirq.H(q[0]), cirq.CNOT(q[0], q[1])] if rng.random() < 0.6 else []      # an unparameterized prefix (reused across the sweep)
            t = gen_numeric_sweep(rng, syms)
        try:
            cs = cirq.Circuit(prefix, build_ops(cirq, specs, 'sym', q))
        except Exception:
            continue
        dist['with_symbolic_constant'] += any(isinstance(e, sympy.Basic) and not e.free_symbols for s in specs for e in s['exprs'])
        dist['with_prefix'] += bool(prefix)
        for sim in sims:
            try:
                simulate_case(ctx, cirq, sim, rng, cs, specs, prefix, q, syms, t)
            except Exception as ex:
                explain_exception(ctx, cirq, 'simulate_sweep', specs, direct, ex, dict(kind='simulate_sweep', circuit=repr(cs), tree=t, simulator=sim[0]))
    ctx.cov.setdefault('distribution', {})['simulate_sweep'] = dist


def simulate_case(ctx, cirq, simrec, rng, cs, specs, prefix, q, syms, t):
    import numpy as np
    sim_name, sim, kind = simrec
    used = sorted(cirq.parameter_names(cs))
    try:
        sweep = build_sweep(cirq, t)
    except ValueError:
        return
    if len(sweep) == 0 or len(sweep) > 8:
        return
    rep = dict(kind='simulate_sweep', circuit=repr(cs), tree=t, simulator=sim_name)

    def reference(pr):
        """Numbers substituted by sympy into every parameter; the state the matrix of that circuit gives |0..0>."""
        twin = twin_circuit(cirq, prefix, specs, q, dict_items(pr))
        psi = twin.unitary(qubit_order=q)[:, 0]
        return twin, (psi if kind == 'sv' else np.outer(psi, psi.conj()))

    def same_state(x, want):
        return mats_close(np.asarray(x).reshape(np.asarray(want).shape), want, 1e-6)
    try:
        results = sim.simulate_sweep(cs, sweep, qubit_order=q)
    except Exception as ex:
        # is plain resolution with the first assignment already wrong?  then it is the circuit-resolution finding
        blame = circuit_blame(ctx, cirq, specs, q, sweep[0])
        if blame != 'circuit':
            ctx.disagree('differential:simulate_sweep', f'raised {type(ex).__name__}: {ex}'[:300], f'resolve:circuit:{blame}',
                         f'{sim_name}.simulate_sweep of\n{safe_str(cs)}\nover {sweep!r} raised {type(ex).__name__}: {ex}'[:600], rep)
            return
        # the statement itself: simulating a sweep equals simulating each assignment separately.  Does every assignment, resolved
        # and simulated on its own with the same simulator, give the state of the numerically substituted circuit?
        try:
            separately = all(same_state(sim_state(kind, sim.simulate(cirq.resolve_parameters(cs, pr), qubit_order=q)), reference(pr)[1]) for pr in sweep)
        except Exception:
            separately = False
        if separately:
            ctx.mark_broken('differential:simulate_sweep', f'{sim_name}: raised {type(ex).__name__}')
            consts = sorted({str(e) for s in specs for e in s['exprs'] if hasattr(e, 'free_symbols') and not e.free_symbols})
            ops_line = ', '.join(' '.join(str(op).split()) for op in cs.all_operations())
            ctx.violation(f'simulate_sweep:raises:{sim_name}', f'{sim_name}.simulate_sweep over {sweep!r} raised {type(ex).__name__} on the circuit [{ops_line}]'
                          + (f' (gate parameters that are symbolic constants: {consts})' if consts else '') +
                          f' although resolving each of its {len(sweep)} assignments and simulating the resolved circuit with the same simulator works and gives the '
                          f'state of the numerically substituted circuit; error: {str(ex)[:200]}; circuit:\n{safe_str(cs)}', rep)
            return
        raise
    ctx.count('simulate_sweep', [sim_name, repr(cs), sweep_term(t)], len(sweep) >= 2 and bool(used), sample=dict(simulator=sim_name, circuit=safe_str(cs), sweep=repr(sweep), points=len(sweep)))
    if len(results) != len(sweep):
        ctx.violation('simulate_sweep:length', f'{sim_name}.simulate_sweep returned {len(results)} results for a sweep of length {len(sweep)}', rep)
        return
    for j, (r, pr) in enumerate(zip(results, sweep)):
        ents = dict_items(pr)
        # reference: numbers substituted by sympy into every parameter, then simulated
        try:
            twin, want = reference(pr)
        except ValueError:
            continue                         # ordinary algebra gives no real parameter at this point
        twin_sim = sim_state(kind, sim.simulate(twin, qubit_order=q))
        single = sim_state(kind, sim.simulate(cs, pr, qubit_order=q))
        if r.params != pr or not same_state(twin_sim, want) or not same_state(sim_state(kind, r), want) or not same_state(single, want):
            ctx.mark_broken('differential:simulate_sweep', f'{sim_name}: point {j}')
            ctx.violation('simulate_sweep:point', f'{sim_name}.simulate_sweep of\n{safe_str(cs)}\nover {sweep!r}: result {j} (params {r.params}) differs from simulating the '
                          f'circuit with {dict(ents)} substituted', dict(rep, point=j))
            break


def twin_circuit(cirq, prefix, specs, q, ents):
    """Numeric twin of a spec list under a numeric assignment (re-derives every parameter by sympy substitution)."""
    def num_spec(s, ents):
        w = s['wrap']
        if isinstance(w, tuple):
            _, inner, reps, local = w
            e2 = ents + [local] if local is not None else ents
            return dict(s, wrap=('sub', [num_spec(x, e2) for x in inner], reps, None))
        import sympy
        assign = {}
        p = s['sym'].p
        keys = [k for k in p if k != 'angles'] + [('angles', i) for i in range(len(p.get('angles', [])))]
        for k in keys:
            v = p['angles'][k[1]] if isinstance(k, tuple) else p[k]
            if isinstance(v, sympy.Basic):
                x = ref_number(ents, v)
                if x is None:
                    raise ValueError('not a real number')
                assign[k] = x
        return dict(s, num=with_params(s['sym'], assign))
    return cirq.Circuit(prefix, build_ops(cirq, [num_spec(s, list(ents)) for s in specs], 'num', q))


def circuit_blame(ctx, cirq, specs, q, pr):
    for s, kind in zip(specs, spec_kinds(specs)):
        try:
            r1 = cirq.resolve_parameters(cirq.Circuit(build_ops(cirq, [s], 'sym', q)), pr)
            if cirq.is_parameterized(r1):
                return blame_kind(cirq, s, kind, pr, q)
            r1.unitary(qubit_order=q)
        except Exception:
            return blame_kind(cirq, s, kind, pr, q)
    return 'circuit'


def run_sweep_stream(ctx, cirq, n):
    """run_sweep on circuits whose measurement outcomes are determined by the parameters (X**s with s in {0,1})."""
    import numpy as np, sympy
    rng = ctx.rng
    for i in range(n):
        nq = rng.choice([2, 3, 4])
        q = cirq.LineQubit.range(nq)
        syms = rng.sample(GEN_SYMS, rng.choice([1, 2, 3]))
        flips = [rng.random() < 0.5 for _ in range(nq)]
        prefix = [cirq.X(q[k]) for k in range(nq) if flips[k]]
        forms = [lambda s: s, lambda s: 1 - s, lambda s: s * s, lambda s: s + 2, lambda s: 3 * s]
        targets = [(rng.randrange(nq), rng.choice(syms), rng.randrange(len(forms))) for _ in range(rng.choice([1, 2, 3, 4]))]
        ops = [cirq.X(q[k]) ** forms[f](sympy.Symbol(s)) for k, s, f in targets]
        cs = cirq.Circuit(prefix, ops, cirq.measure(*q, key='m'))
        t = ('X' if rng.random() < 0.5 else 'Z', [('P', s, [float(rng.randint(0, 1)) for _ in range(rng.choice([1, 2, 3]))]) for s in syms])
        sweep = build_sweep(cirq, t)
        if len(sweep) == 0:
            continue
        rep = dict(kind='run_sweep', circuit=repr(cs), tree=t)
        ctx.count('run_sweep', [repr(cs), sweep_term(t)], len(sweep) >= 2, sample=dict(circuit=safe_str(cs), sweep=repr(sweep)))
        try:
            results = cirq.Simulator(seed=1).run_sweep(cs, sweep, repetitions=3)
        except Exception as ex:
            ctx.violation('run_sweep:raises', f'run_sweep of\n{safe_str(cs)}\nover {sweep!r} raised {type(ex).__name__}: {ex}'[:500], rep)
            continue
        ok = len(results) == len(sweep)
        for r, pr in zip(results, sweep):
            vals = dict(dict_items(pr))
            bits = list(flips)
            for k, s, f in targets:
                if int(round(float(forms[f](vals[s])))) % 2 == 1:
                    bits[k] = not bits[k]
            got = r.measurements['m']
            ok = ok and r.params == pr and got.shape == (3, nq) and all(list(map(bool, row)) == bits for row in got)
        if not ok:
            ctx.violation('run_sweep:point', f'run_sweep of\n{safe_str(cs)}\nover {sweep!r} does not give the outcomes its parameters determine', rep)


# ---- flatten ------------------------------------------------------------------------------------------
def flatten_stream(ctx, cirq, n):
    """cirq.flatten / flatten_with_sweep / flatten_with_params: every operation of the flattened circuit, resolved with the
    transformed assignment, has the value of the original operation resolved with the original assignment."""
    import numpy as np, sympy
    rng = ctx.rng
    for i in range(n):
        case = make_circuit_case(ctx, cirq, rng)
        if case is None:
            continue
        cs, q = case['sym'], case['q']
        kinds = spec_kinds(case['specs'])
        rep = circuit_replay_record(case)
        rep['kind'] = 'flatten'
        exprs = [e for s in case['specs'] for e in s['exprs']]
        ctx.count('flatten', [repr(cs)], any(isinstance(e, sympy.Basic) and e.args for e in exprs), sample=dict(circuit=safe_str(cs)))
        try:
            cf, em = cirq.flatten(cs)
            params = em.transform_params(cirq.ParamResolver(dict(case['entries'])))
            rf = eval_constants(cirq, cirq.resolve_parameters(cf, params))
            bad = None
            if cirq.is_parameterized(rf):
                bad = f'flattened circuit resolved with transform_params is still parameterized by {sorted(cirq.parameter_names(rf))}'
            elif not ops_match(cirq, rf, case['num'], q):
                bad = 'an operation of the flattened circuit has a different value'
            # numeric sweep over the symbols of the circuit
            t = gen_numeric_sweep(rng, case['syms'])
            try:
                sweep = build_sweep(cirq, t)
            except ValueError:
                sweep = []
            if bad is None and 0 < len(sweep) <= 6:
                cf2, sw2 = cirq.flatten_with_sweep(cs, sweep)
                if len(sw2) != len(sweep):
                    bad = f'flatten_with_sweep changed the sweep length {len(sweep)} -> {len(sw2)}'
                for pr, pr2 in zip(sweep, sw2):
                    if bad:
                        break
                    try:
                        twin = twin_circuit(cirq, [], case['specs'], q, dict_items(pr))
                    except ValueError:
                        continue                 # ordinary algebra gives no real parameter at this point
                    a = eval_constants(cirq, cirq.resolve_parameters(cf2, pr2))
                    if cirq.is_parameterized(a):
                        bad = f'flatten_with_sweep: resolved flattened circuit is still parameterized by {sorted(cirq.parameter_names(a))}'
                    elif not ops_match(cirq, a, twin, q):
                        bad = f'flatten_with_sweep: an operation has a different value at {dict(dict_items(pr))}'
        except Exception as ex:
            bad = f'raised {type(ex).__name__}: {ex}'[:300]
        if bad:
            # is plain resolution of this circuit already wrong?  then it is not a flattening problem
            try:
                if check_circuit_resolution(ctx, cirq, case, exprs) is None:
                    continue
            except Exception as ex:
                explain_exception(ctx, cirq, 'flatten', case['specs'], case['entries'], ex, rep)
                continue
            blame = 'sub' if any(k.startswith('sub') for k in kinds) and flatten_ok_without_subs(cirq, case) else 'circuit'
            ctx.disagree('differential:flatten', bad, f'flatten:{blame}', f'cirq.flatten of\n{safe_str(cs)}\n{bad}', rep)


def flatten_sweep_grid(ctx, cirq):
    """flatten_with_sweep / flatten_with_params on a fixed grid (every seed): values without any symbol (a number, a gate with numeric
    exponents, an unparameterized circuit), with one symbol, with expressions, with a symbol-free sympy constant, crossed with sweeps of 1, 3
    and 4 points (Points, Linspace, a product, a sweep over a symbol the value does not mention): the sweep keeps its length, and
    every flattened value resolved at point k is the original resolved at point k."""
    import sympy
    import numpy as np
    q = cirq.LineQubit.range(2)
    a, b = sympy.Symbol('a'), sympy.Symbol('b')
    values = [('a number-only circuit', cirq.Circuit(cirq.X(q[0]) ** 0.25, cirq.CZ(q[0], q[1]) ** 0.5)),
              ('an unparameterized gate operation', cirq.Circuit(cirq.H(q[0]))),
              ('one symbol', cirq.Circuit(cirq.X(q[0]) ** a)),
              ('an expression of one symbol', cirq.Circuit(cirq.X(q[0]) ** (a / 4 + 0.5), cirq.Z(q[1]) ** 0.5)),
              ('expressions of two symbols', cirq.Circuit(cirq.X(q[0]) ** (a * b), cirq.CZ(q[0], q[1]) ** (a + b))),
              ('a numeric exponent next to a symbol', cirq.Circuit(cirq.Y(q[0]) ** 0.3, cirq.X(q[1]) ** b)),
              ('an empty circuit', cirq.Circuit())]
    sweeps = [('Points a x1', cirq.Points('a', [0.25])), ('Points a x3', cirq.Points('a', [0.0, 0.5, 1.5])), ('Linspace b x4', cirq.Linspace('b', 0, 1, 4)),
              ('Points a x Points b', cirq.Points('a', [0.5, 1.0]) * cirq.Points('b', [0.25, 0.75])), ('Zip a b', cirq.Zip(cirq.Points('a', [0.1, 0.2, 0.3]), cirq.Points('b', [1, 2, 3]))),
              ('the unit sweep', cirq.UnitSweep)]
    for vname, val in values:
        for sname, sw in sweeps:
            ctx.count('flatten_sweep_grid', [vname, sname], True, sample=dict(value=vname, sweep=sname))
            rep = dict(kind='flatten_grid', value=vname, sweep=sname)
            try:
                flat, sw2 = cirq.flatten_with_sweep(val, sw)
                pts, pts2 = list(sw), list(sw2)
                bad = None
                if len(pts2) != len(pts) or len(sw2) != len(sw):
                    bad = f'the sweep had {len(pts)} points, the transformed sweep has {len(pts2)} (len() says {len(sw2)})'
                else:
                    for k, (r, r2) in enumerate(zip(pts, pts2)):
                        want = cirq.resolve_parameters(val, r)
                        got = cirq.resolve_parameters(flat, r2)
                        missing = set(cirq.parameter_names(val)) - set(r.param_dict)
                        if missing:
                            continue            # the sweep does not bind every symbol: nothing numeric to compare at this point
                        if cirq.is_parameterized(got) and cirq.parameter_names(got):
                            bad = f'point {k}: the flattened value is still parameterized by {sorted(cirq.parameter_names(got))}'
                            break
                        if not np.allclose(cirq.unitary(eval_constants(cirq, got)) if len(got) else 1, cirq.unitary(eval_constants(cirq, want)) if len(want) else 1, atol=1e-8):
                            bad = f'point {k} ({dict(r.param_dict)}): the flattened value resolved with the transformed point differs from the original resolved with the point'
                            break
                if bad is None and isinstance(sw, cirq.Points) and len(pts) == 1 and not (set(cirq.parameter_names(val)) - set(pts[0].param_dict)):
                    flat3, r3 = cirq.flatten_with_params(val, pts[0])
                    if not np.allclose(cirq.unitary(eval_constants(cirq, cirq.resolve_parameters(flat3, r3))) if len(val) else 1,
                                       cirq.unitary(eval_constants(cirq, cirq.resolve_parameters(val, pts[0]))) if len(val) else 1, atol=1e-8) and \
                            not (set(cirq.parameter_names(val)) - set(pts[0].param_dict)):
                        bad = 'flatten_with_params: the flattened value resolved with the transformed assignment differs'
            except Exception as ex:
                bad = f'raised {type(ex).__name__}: {ex}'[:300]
            if bad:
                ctx.violation(f'flatten_grid:{"symbol-free" if not cirq.parameter_names(val) else "symbolic"}',
                              f'cirq.flatten_with_sweep({vname}, {sname}): {bad}', rep)


def eval_constants(cirq, circuit):
    """flatten leaves numbers alone, sympy constants included, and resolving with an empty assignment is the identity; a
    symbol-free sympy parameter is evaluated by any non-empty resolution, so do one (it changes no value)."""
    if cirq.is_parameterized(circuit) and not cirq.parameter_names(circuit):
        return cirq.resolve_parameters(circuit, {'c10_unused_symbol': 0.0})
    return circuit


def flatten_ok_without_subs(cirq, case):
    """True when the same check passes once the sub-circuit operations are dropped (so the sub-circuits are to blame)."""
    specs = [s for s in case['specs'] if not isinstance(s['wrap'], tuple)]
    q = case['q']
    try:
        cs = cirq.Circuit(build_ops(cirq, specs, 'sym', q))
        cn = cirq.Circuit(build_ops(cirq, specs, 'num', q))
        cf, em = cirq.flatten(cs)
        rf = eval_constants(cirq, cirq.resolve_parameters(cf, em.transform_params(cirq.ParamResolver(dict(case['entries'])))))
        return not cirq.is_parameterized(rf) and ops_match(cirq, rf, cn, q)
    except Exception:
        return False


def ops_match(cirq, a, b, q):
    xs, ys = list(a.all_operations()), list(b.all_operations())
    if len(xs) != len(ys):
        return False
    for x, y in zip(xs, ys):
        if x.qubits != y.qubits or not mats_close(cirq.Circuit(x).unitary(qubit_order=q), cirq.Circuit(y).unitary(qubit_order=q)):
            return False
    return True


# ---- composition of resolvers -------------------------------------------------------------------------
def reintroduces(r1, r2):
    """True when a value of r2 mentions a symbol that r1 binds (to something else than itself)."""
    sd1 = sym_dict(r1)
    bound1 = {k.name for k, v in sd1.items() if v != k}
    return any(s.name in bound1 for v in sym_dict(r2).values() for s in v.free_symbols)


def has_cycle(entries):
    import sympy
    return any(depends_on_cycle(entries, sympy.Symbol(k)) for k, _ in entries)


def compose_stream(ctx, cirq, n):
    """cirq.resolve_parameters(r1, r2) (a ParamResolver resolved by a ParamResolver): the composed dictionary against the model
    of _resolve_parameters_, and the law resolve(resolve(x, r1), r2) = resolve(x, r1 then r2) on the real code."""
    import sympy
    rng = ctx.rng
    a, b = sympy.Symbol('a'), sympy.Symbol('b')
    corner = [([('a', 1)], [('b', a)]), ([('a', b)], [('b', sympy.Symbol('c') + sympy.Symbol('d'))]), ([('a', b + 1)], [('b', 2 * a)]),
              ([], [('b', a)]), ([('a', 1)], []), ([('a', b)], [('a', 3), ('b', a)]), ([('a', 1.0)], [('a', 2.0)])]
    cases, terms = [], []
    for i in range(n):
        if i < len(corner):
            r1, r2 = corner[i]
        else:
            r1, c1 = gen_resolver(rng)
            r2, c2 = gen_resolver(rng)
            r1 = [kv for kv in r1 if rng.random() < 0.6]
            if rng.random() < 0.75:                       # the usual order of use: r2 does not bring back what r1 resolved
                dom1 = {k for k, _ in r1}
                r2 = [(k, v) for k, v in r2 if not (isinstance(v, sympy.Basic) and {s.name for s in v.free_symbols} & dom1) and not (isinstance(v, str) and v in dom1)]
        try:
            t1, t2 = resolver_term(r1), resolver_term(r2)
        except Unsupported:
            continue
        R1, R2 = make_resolver(cirq, r1), make_resolver(cirq, r2)
        try:
            comp = with_timeout(20, lambda: cirq.resolve_parameters(R1, R2))
            got = [((k.name if isinstance(k, sympy.Symbol) else k), to_tree(v)) for k, v in comp.param_dict.items()]
            gterm = '(Some ' + llit(got, lambda kv: f'({slit(kv[0])}, {expr_term(kv[1])})') + ')'
        except RecursionError:
            comp, got, gterm = None, None, 'None'
        except Unsupported:
            continue
        except Exception as ex:
            if isinstance(ex, Timeout) and (has_cycle(r1) or has_cycle(r2)):
                continue            # a cyclic dictionary: no answer is owed (a cycle through a function head grows until Python gives up)
            # composing evaluates r1's and r2's own entries with value_of: is it a value_of failure on one of them?
            res = [spec_value_of(ctx, cirq, r1, sympy.Symbol(k), True, None, 'compose') for k, _ in r1]
            res += [spec_value_of(ctx, cirq, r2, sympy.Symbol(k), True, None, 'compose') for k, _ in r2]
            for k, _ in r1:               # ... or of r2 on what r1 makes of a symbol
                try:
                    v1 = make_resolver(cirq, r1).value_of(k)
                except Exception:
                    continue
                if isinstance(v1, sympy.Basic) and not v1.is_Number:
                    res.append(spec_value_of(ctx, cirq, r2, v1, True, None, 'compose'))
            if worst(res) is None:
                sig = 'compose:reintroduced-symbol' if reintroduces(r1, r2) and not (has_cycle(r1) or has_cycle(r2)) else f'compose:raises:{type(ex).__name__}'
                ctx.disagree('differential:compose', f'{dict(r1)} then {dict(r2)}', sig,
                             f'cirq.resolve_parameters(ParamResolver({dict(r1)!r}), ParamResolver({dict(r2)!r})) raised {type(ex).__name__}: {ex}'[:500],
                             dict(kind='compose', r1=[[k, repr_value(v)] for k, v in r1], r2=[[k, repr_value(v)] for k, v in r2]))
            elif worst(res) == 'new':
                ctx.mark_broken('differential:compose', f'{dict(r1)} then {dict(r2)}: {type(ex).__name__}')
            continue
        envs = gen_envs(rng)
        cases.append((r1, r2, comp, got, envs))
        terms.append(f'({qlit(REL_TOL)}, {llit(envs, env_term)}, {t1}, {t2}, {gterm})')
        ctx.count('compose', [t1, t2], bool(r1) and bool(r2), sample=dict(r1=str(dict(r1)), r2=str(dict(r2)), composed=repr(comp)))
        # the law, on the real code, for a few expressions.  Composing evaluates every entry, so a resolver that is cyclic
        # somewhere makes the composition raise (as value_of does on the cyclic symbols); the law is about acyclic resolvers.
        if comp is None and (has_cycle(r1) or has_cycle(r2)):
            continue
        xs = [sympy.Symbol(s) for s in GEN_SYMS[:3]] + [gen_expr(rng, 2, GEN_SYMS, allow_fn=False)]
        for x in xs:
            if not isinstance(x, sympy.Basic) or x.is_Number:
                continue
            try:
                seq = with_timeout(20, lambda: make_resolver(cirq, r2).value_of(make_resolver(cirq, r1).value_of(x)))
            except Exception:
                continue          # sequential resolution itself fails (cyclic resolver or a value_of finding): the law says nothing
            try:
                one = None if comp is None else comp.value_of(x)
                ok = one is not None and values_agree(one, seq, envs) and {s.name for s in sympy.sympify(one).free_symbols} == {s.name for s in sympy.sympify(seq).free_symbols}
                shown = repr(one) if comp is not None else 'RecursionError while composing'
            except Exception as ex:
                ok, shown = False, f'{type(ex).__name__}'
            if not ok:
                kind = 'reintroduced-symbol' if reintroduces(r1, r2) else 'law'
                ctx.disagree('differential:compose', f'{dict(r1)} then {dict(r2)} on {x}', f'compose:{kind}',
                             f'resolving {x} with {dict(r1)!r} and then with {dict(r2)!r} gives {seq!r}; with cirq.resolve_parameters(r1, r2) it gives {shown}',
                             dict(kind='compose', r1=[[k, repr_value(v)] for k, v in r1], r2=[[k, repr_value(v)] for k, v in r2], expr=sympy_srepr(x)))
                break
    header = ('From Coq Require Import String ZArith QArith List Bool.\nFrom VF Require Import Base.Harness Codec.Resolver Codec.ResolverHarness.\n'
              'Import ListNotations.\nLocal Open Scope nat_scope.\n')
    text = header + ('Definition cases : list (Q * list (list (string * Q)) * resolver * resolver * option (list (string * expr))) := [\n'
                     + ';\n'.join(terms) + '].\n')
    text += ('Eval vm_compute in failing (fun c => match c with (tol, envs, r1, r2, got) => Nat.eqb (check_compose tol envs r1 r2 got) 0 end) cases.\n')
    for idx in coq.parse_nat_list(coq.parse_evals(coq.coq_eval(f'c10_compose_{ctx.seed}', text))[0]):
        r1, r2, comp, got, envs = cases[idx]
        # a composed dictionary that differs from the model's: it only matters if the law fails, which was checked above for four
        # expressions; check every bound symbol here
        explained = False
        for k in {k for k, _ in r1} | {k for k, _ in r2}:
            x = sympy.Symbol(k)
            try:
                seq = make_resolver(cirq, r2).value_of(make_resolver(cirq, r1).value_of(x))
            except Exception:
                explained = True            # sequential resolution fails: cyclic or a value_of finding, reported by its own stream
                continue
            try:
                one = comp.value_of(x) if comp is not None else None
                ok = one is not None and values_agree(one, seq, envs)
            except Exception:
                ok = False
            if not ok:
                kind = 'reintroduced-symbol' if reintroduces(r1, r2) else 'law'
                r = ctx.violation(f'compose:{kind}', f'resolving {x} with {dict(r1)!r} and then with {dict(r2)!r} gives {seq!r}; the composed resolver is {comp!r}',
                                  dict(kind='compose', r1=[[k, repr_value(v)] for k, v in r1], r2=[[k, repr_value(v)] for k, v in r2], expr=sympy_srepr(x)))
                explained = explained or r == 'known'
                if r != 'known':
                    ctx.mark_broken('correspondence:compose', f'{dict(r1)} then {dict(r2)}: composed {got}')
                break
        else:
            if not explained and reintroduces(r1, r2):
                # the law holds on every bound symbol, yet the merged dictionary is cyclic for the model: the cycle runs through a
                # function head that sympy's simplifier collapses (Abs(Abs(b)) = Abs(b)); outside the model, judged by the law only
                d = ctx.cov.setdefault('distribution', {}).setdefault('compose', {})
                d['outside_model_judged_by_law'] = d.get('outside_model_judged_by_law', 0) + 1
            elif not explained and not r2 and comp is not None and dict(comp.param_dict) == dict(make_resolver(cirq, r1).param_dict):
                # cirq.resolve_parameters(value, <empty resolver>) returns the value itself: the composed resolver is r1 as given, while the
                # model writes r1's values resolved once more; the two dictionaries resolve every bound symbol alike (the law was just
                # checked on each of them), so there is nothing to report
                d = ctx.cov.setdefault('distribution', {}).setdefault('compose', {})
                d['empty_second_resolver_identity'] = d.get('empty_second_resolver_identity', 0) + 1
            elif not explained:
                ctx.mark_broken('correspondence:compose', f'model and implementation differ on the composition of {dict(r1)} and {dict(r2)}: implementation {got}')


# ---- flatten on tuples of expressions, against the model (names included) ---------------------------------
def flatten_model_stream(ctx, cirq, n):
    import sympy
    rng = ctx.rng
    a, b = sympy.Symbol('a'), sympy.Symbol('b')
    corner = [(a + 1, sympy.Symbol('<a + 1>')), (sympy.Symbol('<a + 1>'), a + 1, a + 1), (a + 1, sympy.Symbol('<a + 1>'), sympy.Symbol('<a + 1>_1'), 2 * a),
              (a, a, 2.0, b * 2, a), (sympy.Symbol('<2*b>_1'), sympy.Symbol('<2*b>'), b * 2)]
    rows, terms = [], []
    for i in range(n):
        if i < len(corner):
            tup = corner[i]
        else:
            pool = [gen_expr(rng, rng.choice([0, 1, 2]), GEN_SYMS[:3]) for _ in range(3)]
            tup = []
            for _ in range(rng.choice([2, 3, 4, 5, 6])):
                r = rng.random()
                if r < 0.5:
                    tup.append(rng.choice(pool))
                elif r < 0.65:
                    e = rng.choice(pool)
                    tup.append(sympy.Symbol('<%s>' % e if rng.random() < 0.7 else '<%s>_1' % e))      # a symbol that collides with a generated name
                elif r < 0.8:
                    tup.append(float(dyadic(rng)))
                else:
                    tup.append(gen_expr(rng, 2, GEN_SYMS[:3]))
            tup = tuple(tup)
        try:
            flat, em = cirq.flatten(tup)
            trees = [to_tree(x) for x in tup]
            ftrees = [to_tree(x) for x in flat]
            emap = [(to_tree(k), v.name) for k, v in em.items()]
        except Unsupported:
            continue
        except Exception as ex:
            ctx.violation('flatten:tuple:raises', f'cirq.flatten({tup!r}) raised {type(ex).__name__}: {ex}', dict(kind='flatten_tuple', exprs=[sympy_srepr(x) for x in tup]))
            continue
        names = {}
        for x in tup:
            if isinstance(x, sympy.Basic):
                names[expr_term(to_tree(x))] = x.name if isinstance(x, sympy.Symbol) else f'<{x!s}>'
        tbl = llit(sorted(names.items()), lambda kv: f'({kv[0]}, {slit(kv[1])})')
        rows.append((tup, flat, em))
        terms.append(f'({tbl}, {llit(trees, expr_term)}, ({llit(ftrees, expr_term)}, {llit(emap, lambda kv: f"({expr_term(kv[0])}, {slit(kv[1])})")}))')
        ctx.count('flatten_model', [str(tup)], len(set(map(str, tup))) >= 2 and any(isinstance(x, sympy.Basic) and x.args for x in tup),
                  sample=dict(input=str(tup), flattened=str(flat), expression_map=str(dict(em))))
    header = ('From Coq Require Import String ZArith QArith List Bool.\nFrom VF Require Import Base.Harness Codec.Resolver Codec.ResolverHarness.\n'
              'Import ListNotations.\nLocal Open Scope nat_scope.\n')
    text = header + 'Definition cases : list (list (expr * string) * list expr * (list expr * fmap)) := [\n' + ';\n'.join(terms) + '].\n'
    text += 'Eval vm_compute in failing (fun c => match c with (tbl, es, got) => check_flatten tbl es got end) cases.\n'
    for idx in coq.parse_nat_list(coq.parse_evals(coq.coq_eval(f'c10_flatten_{ctx.seed}', text))[0]):
        tup, flat, em = rows[idx]
        ctx.mark_broken('correspondence:flatten', f'cirq.flatten({tup!r}) = {flat!r}, {em!r} differs from the model')
        # property level: distinct expressions must get distinct symbols, equal ones the same, numbers stay; values preserved
        bad = None
        seen = {}
        for x, y in zip(tup, flat):
            if not isinstance(x, sympy.Basic):
                if x != y:
                    bad = f'number {x} became {y}'
                continue
            if not isinstance(y, sympy.Symbol):
                bad = f'{x} was not replaced by a symbol ({y})'
            elif seen.setdefault(y, x) != x:
                bad = f'{x} and {seen[y]} share the symbol {y}'
        env = {s: float(dyadic(rng)) for s in {z.name for x in tup if isinstance(x, sympy.Basic) for z in x.free_symbols}}
        if bad is None and env:
            new = em.transform_params(env)
            for x, y in zip(tup, flat):
                if isinstance(x, sympy.Basic) and not values_agree(cirq.resolve_parameters(y, new), cirq.resolve_parameters(x, env), [{}]):
                    bad = f'{x} has value {cirq.resolve_parameters(x, env)} at {env}, its flattened form {y} has {cirq.resolve_parameters(y, new)}'
        if bad:
            ctx.violation('flatten:tuple', f'cirq.flatten({tup!r}): {bad}', dict(kind='flatten_tuple', exprs=[sympy_srepr(x) if isinstance(x, sympy.Basic) else x for x in tup]))


# ---- to_resolvers / to_sweeps on mixed sweepables -------------------------------------------------------
def sweepable_stream(ctx, cirq, n):
    """cirq.to_resolvers of nested lists of sweeps, dictionaries, resolvers and None = the concatenation of what each part
    enumerates (spec-level comparison with the reference semantics of the parts)."""
    rng = ctx.rng

    def gen(depth):
        r = rng.random()
        if depth > 0 and r < 0.25:
            parts = [gen(depth - 1) for _ in range(rng.choice([0, 1, 2, 3]))]
            return [p[0] for p in parts], [x for p in parts for x in p[1]]
        if r < 0.45:
            d = {k: draw_value(rng) for k in rng.sample(KEYS[:4], rng.choice([0, 1, 2]))}
            return (cirq.ParamResolver(d) if rng.random() < 0.5 else d), [list(d.items())]
        if r < 0.55:
            return None, [[]]
        for _ in range(20):
            t = gen_sweep(rng, rng.choice([0, 1, 2]), rng.sample(KEYS[:4], rng.choice([1, 2])), allow_invalid=False)
            try:
                return build_sweep(cirq, t), [[(k, v) for k, v in row] for row in ref_iter(t)]
            except ValueError:
                continue
        return None, [[]]
    for _ in range(n):
        parts = [gen(2) for _ in range(rng.choice([1, 2, 3]))]
        obj = [p[0] for p in parts]
        want = [x for p in parts for x in p[1]]
        if rng.random() < 0.2 and len(parts) == 1:
            obj = obj[0]
        try:
            got = [dict_items(r) for r in cirq.to_resolvers(obj)]
            ok = rows_equal(got, want, LIN_TOL)
        except Exception as ex:
            got, ok = f'{type(ex).__name__}: {ex}', False
        ctx.count('to_resolvers', repr(obj), len(want) >= 2, sample=dict(sweepable=repr(obj)[:300], resolvers=len(want)))
        if not ok:
            ctx.disagree('differential:to_resolvers', repr(obj)[:300], 'sweepable:to_resolvers',
                         f'cirq.to_resolvers({obj!r}) = {got}, its parts enumerate {want}'[:900], dict(kind='sweepable', sweepable=repr(obj)))


def run(ctx):
    cirq = env.import_cirq()
    ctx.rule = ('sweep: random trees over Unit/Points/Linspace/ListSweep leaves and Product/Zip/ZipLongest/Concat nodes, nesting <= 3, empty, '
                'single-point and constructor-rejected sweeps included; per sweep len, keys, param_tuples, list(), to_resolvers, every index in '
                '[-n-2, n+2), four random slices (non-trivial = composite with >= 2 assignments). value_of: random dictionaries (numbers, aliases, '
                'expressions of later symbols, self-maps, 12% with a cycle) and sympy trees of depth <= 5 over Add/Mul/Pow/Abs/Max/Min/floor/sign with '
                'exact dyadic leaves, 2-4 queries on one resolver object, recursive and single-step, parameter_names/is_parameterized '
                '(non-trivial = compound expression mentioning a bound symbol). resolve_via: the same dictionaries and expressions, the expression carried by '
                'an object (bare / tagged / controlled+tagged operation, symbolic tag value, moment, circuit, parameter map of a sub-circuit) and resolved '
                'through cirq.resolve_parameters(obj, r, recursive) recursively and as a single step, parameter read back and compared with the same '
                'model; 12 fixed dictionaries (renaming onto a bound symbol, swap, alias cycle, chains, flat) through every entry point on every seed. compose: pairs of dictionaries, 25% re-introducing symbols. '
                'flatten_model: tuples of expressions with repeated expressions and symbols named like generated names. value_of_float: '
                'fractional powers, division, sin/cos/exp, pi, complex values against sympy substitution. gate_unitary: every parameterised gate '
                'family, one-shot and two-stage resolution against the numerically built gate. circuit_unitary / simulate_sweep / run_sweep / flatten: '
                '2-3 qubit circuits with tags, controlled operations, nested sub-circuits with and without param_resolver, unparameterised moments '
                'and prefixes. simulate_sweep: Simulator and DensityMatrixSimulator, both judged against the state given by the matrix of the '
                'numerically substituted circuit; half of the random circuits and a fixed grid of 21 circuits carry gates whose parameter is a '
                'symbolic constant (sympy expression without free symbols: pi/4, 1/3, sqrt(2)/2, cos(pi/5)) before / beside / after the swept gate, '
                'bare, tagged and controlled; a sweep that raises is judged by simulating each assignment separately. distinct by canonical input')
    ctx.assumptions += ['vf/checks/c10.py adapters building Cirq sweeps/expressions/gates/circuits and canonicalising outputs',
                        'Python float/int <-> exact rational (Fraction) <-> Coq Q literal printing; sympy tree <-> model tree conversion',
                        'sympy substitution as the reference for ordinary algebra (differential streams and the spec-level oracles)',
                        'Linspace values compared with tolerance 2^-40, expression values with relative tolerance 1e-9, unitaries 1e-7, state vectors 1e-6']
    ctx.set_obligations(coq.compile_props('C10'))
    quick = ctx.tier == 'quick'
    sweep_stream(ctx, cirq, 400 if quick else 4000)
    sweepable_stream(ctx, cirq, 100 if quick else 1000)
    resolver_stream(ctx, cirq, 300 if quick else 3000)
    resolver_stream(ctx, cirq, 180 if quick else 2400, vias=VIAS)
    compose_stream(ctx, cirq, 120 if quick else 1500)
    flatten_model_stream(ctx, cirq, 120 if quick else 1500)
    float_stream(ctx, cirq, 150 if quick else 2000)
    gate_stream(ctx, cirq, 120 if quick else 1500)
    circuit_stream(ctx, cirq, 60 if quick else 800)
    simulate_stream(ctx, cirq, 25 if quick else 300)
    run_sweep_stream(ctx, cirq, 25 if quick else 300)
    flatten_stream(ctx, cirq, 40 if quick else 500)
    flatten_sweep_grid(ctx, cirq)


def eval_ns(cirq):
    import sympy, numpy as np
    ns = {k: getattr(sympy, k) for k in dir(sympy) if not k.startswith('_')}
    ns.update(cirq=cirq, sympy=sympy, np=np, numpy=np)
    return ns


def load_entries(cirq, rows):
    ns = eval_ns(cirq)
    return [(k, eval(v['sympy'], ns) if isinstance(v, dict) else v) for k, v in rows]


def replay(ctx, data):
    """Re-run the single case of a replay file on the implementation; True iff the property holds on it."""
    try:
        return _replay(ctx, data)
    except Exception as ex:
        print(f'the implementation raised {type(ex).__name__}: {ex}')
        return False


def _replay(ctx, data):
    import sympy, numpy as np
    cirq = env.import_cirq()
    k = data.get('kind')
    ns = eval_ns(cirq)
    before = lambda: len(ctx.violations) + len(ctx.known_hits)
    if k == 'sweep':
        t = totuple(data['tree'])
        obs = observe_sweep(cirq, t, ctx.rng)
        n0 = before()
        if obs is not None:
            if 'slice' in data:
                sl = tuple(data['slice'])
                try:
                    got = [dict_items(r) for r in obs['sweep'][slice(*sl)]]
                except ValueError:
                    got = None
                obs['slices'] = [(sl, got, 'ListSweep')]
            spec_sweep(ctx, cirq, t, obs, 0)
        print('sweep:', obs and repr(obs['sweep']), 'len', obs and obs['len'], 'tuples', obs and obs['tuples'][:8])
        return before() == n0
    if k == 'value_of':
        entries = load_entries(cirq, data['entries'])
        e = eval(data['expr'], ns)
        v = judge_value_of(cirq, entries, e, data.get('recursive', True), via=data.get('via'))
        where = f' read through {VIA_DESC[data["via"]]}' if data.get('via') else ''
        print(f'ParamResolver({dict(entries)!r}).value_of({e}, recursive={data.get("recursive", True)}){where}:', v or 'agrees with substitution')
        return v is None
    if k == 'value_of_seq':
        entries = load_entries(cirq, data['entries'])
        exprs = [eval(x, ns) for x in data['exprs']]
        res = make_resolver(cirq, entries)
        for q in exprs:
            seq = impl_value_of(res, q, True)
        fresh = impl_value_of(make_resolver(cirq, entries), exprs[-1], True)
        print('after earlier queries:', seq[1:], 'fresh:', fresh[1:])
        return seq[0] == fresh[0] and (seq[0] != 'val' or values_agree(seq[2], fresh[2], [{}]))
    if k == 'names':
        e = eval(data['expr'], ns)
        carrier = via_object(cirq, e, data['via'])[0] if data.get('via') else e
        return sorted(cirq.parameter_names(carrier)) == sorted(s.name for s in e.free_symbols) and cirq.is_parameterized(carrier)
    if k == 'gate':
        entries = load_entries(cirq, data['entries'])
        p = {}
        for name, v in data['params'].items():
            v = eval(v, ns) if isinstance(v, str) and not name in ('fixed',) else v
            if name.startswith('angles['):
                p.setdefault('angles', []).append(v)
            else:
                p[name] = v
        gs = _gates.G(data['fam'], p, data['shape'])
        num = {}
        for name, v in flat_params(gs).items():
            if isinstance(v, sympy.Basic):
                key = ('angles', int(name[7:-1])) if name.startswith('angles[') else name
                num[key] = ref_number(entries, v)
        sg, ng = build_gate(cirq, gs), build_gate(cirq, with_params(gs, num))
        names_want = set().union(*[{s.name for s in v.free_symbols} for v in flat_params(gs).values() if isinstance(v, sympy.Basic)] or [set()])
        print('parameter_names:', sorted(cirq.parameter_names(sg)), 'expected', sorted(names_want))
        r = cirq.resolve_parameters(sg, dict(entries))
        print('resolved:', repr(r), 'numeric twin:', repr(ng))
        return set(cirq.parameter_names(sg)) == names_want and not cirq.is_parameterized(r) and mats_close(cirq.unitary(r), cirq.unitary(ng))
    if k in ('circuit', 'flatten'):
        entries = load_entries(cirq, data['entries'])
        cs, cn = eval(data['circuit'], ns), eval(data['numeric'], ns)
        q = sorted(cs.all_qubits() | cn.all_qubits())
        if k == 'circuit':
            r = cirq.resolve_parameters(cs, dict(entries))
            print('still parameterized:', cirq.is_parameterized(r), sorted(cirq.parameter_names(r)))
            return not cirq.is_parameterized(r) and mats_close(r.unitary(qubit_order=q), cn.unitary(qubit_order=q))
        cf, em = cirq.flatten(cs)
        rf = cirq.resolve_parameters(cf, em.transform_params(cirq.ParamResolver(dict(entries))))
        print('expression map:', em, 'still parameterized:', cirq.is_parameterized(rf))
        return not cirq.is_parameterized(rf) and ops_match(cirq, rf, cn, q)
    if k in ('simulate_sweep', 'run_sweep'):
        cs = eval(data['circuit'], ns)
        sweep = build_sweep(cirq, totuple(data['tree']))
        q = sorted(cs.all_qubits())
        if k == 'simulate_sweep':
            name, sim, kind = [x for x in simulators(cirq) if x[0] == data.get('simulator', 'Simulator')][0]
            res = sim.simulate_sweep(cs, sweep, qubit_order=q)
            return len(res) == len(sweep) and all(
                a.params == pr and mats_close(sim_state(kind, a), sim_state(kind, sim.simulate(cirq.resolve_parameters(cs, pr), qubit_order=q)), 1e-6)
                for a, pr in zip(res, sweep))
        res = cirq.Simulator(seed=1).run_sweep(cs, sweep, repetitions=3)
        return len(res) == len(sweep) and all(
            a.params == pr and np.array_equal(a.measurements['m'], cirq.Simulator(seed=1).run(cirq.resolve_parameters(cs, pr), repetitions=3).measurements['m'])
            for a, pr in zip(res, sweep))
    if k == 'flatten_tuple':
        tup = tuple(eval(x, ns) if isinstance(x, str) else x for x in data['exprs'])
        flat, em = cirq.flatten(tup)
        print('flattened:', flat, em)
        seen = {}
        for x, y in zip(tup, flat):
            if isinstance(x, sympy.Basic) and (not isinstance(y, sympy.Symbol) or seen.setdefault(y, x) != x):
                return False
        return True
    if k == 'compose':
        r1, r2 = load_entries(cirq, data['r1']), load_entries(cirq, data['r2'])
        comp = cirq.resolve_parameters(make_resolver(cirq, r1), make_resolver(cirq, r2))
        print('composed:', comp)
        xs = [eval(data['expr'], ns)] if 'expr' in data else [sympy.Symbol(k) for k, _ in r1 + r2]
        ok = True
        for x in xs:
            seq = make_resolver(cirq, r2).value_of(make_resolver(cirq, r1).value_of(x))
            one = comp.value_of(x)
            print(f'{x}: sequential {seq!r}, composed {one!r}')
            ok = ok and values_agree(one, seq, [{}]) and sympy.sympify(one).free_symbols == sympy.sympify(seq).free_symbols
        return ok
    print('nothing to replay for kind', k)
    return False


def totuple(x):
    if isinstance(x, list) and x and isinstance(x[0], str) and x[0] in ('U', 'P', 'L', 'X', 'Z', 'ZL', 'C', 'LS'):
        tag = x[0]
        if tag in ('X', 'Z', 'ZL', 'C'):
            return (tag, [totuple(c) for c in x[1]])
        if tag == 'LS':
            return ('LS', [[tuple(p) for p in row] for row in x[1]], x[2])
        return tuple(x)
    return x
