"""C02 — measurement outcomes follow the Born rule exactly, incl. feed-forward (DESIGN 5/C02)."""
import math
import numpy as np
from .. import env, coq, runner, gates, tables, opsem, mcircuits
from ..scripted import enumerate_runs, BranchExplosion

LEVEL = 'proof'
META = dict(
    text='Coq theorems about the reference ensemble semantics (projective measurement splits a branch into projections whose masses add up to the mass of the branch, projections on the same axes are idempotent and orthogonal, unitary-free steps preserve total mass; measuring inside one factor of a product state projects that factor only and squared norms multiply) and, on every run, an exact comparison: a scripted seed object enumerates EVERY random branch of a Cirq run together with the probability Cirq assigned to it, and the resulting joint distribution over all recorded results (and the branch states) is compared with the model evaluated inside Coq, for the state-vector, density-matrix and Clifford simulators, terminal (fast path) and mid-circuit measurements, invert masks, confusion maps, repeated keys, qudits and classically controlled operations. Re-keying: renaming measurement keys injectively (key maps, key-path prefixes, sub-circuit scoping) preserves the ensemble and the distribution of the recorded digits (refuted when keys are merged), compared on circuits re-keyed through eight public routes; an integer seed must give bit for bit the samples of numpy.random.RandomState(seed) at 27 sampling entry points.',
    note='Trusted: Coq kernel; float instance (tolerance 2e-6); the scripted seed (vf/scripted.py) stands for numpy.random: the claim is about the probabilities handed to the sampler, not about the sampler; gate matrices enter through cirq.unitary (tied to the documented matrices by C03). Branch enumeration uses repetitions=1.',
    technique='Rocq/Coq proof over an executable ensemble semantics + exact branch enumeration of the simulators through a scripted seed, compared by vm_compute',
)

TOL = '0x1p-19'
PRE = gates.COQ_HEADER + 'From VF Require Import Sim.Ref Sim.Measure.\n' + '''
Definition rec_ok (tol : float) (bs : list (branch (K:=FC))) (rp : list nat * float) : bool :=
  f_close tol (fst (rec_mass FOps bs (fst rp))) (snd rp).
Definition dist_ok (tol : float) (bs : list (branch (K:=FC))) (l : list (list nat * float)) : bool :=
  forallb (rec_ok tol bs) l && f_close tol (fst (total_mass FOps bs)) 1.
(* the same through the density semantics (channels do not branch): mass of a branch = weight * trace *)
Definition dtrace (n : nat) (rho : list FC) : FC := ksum FOps (map (fun k => nth (k * n + k) rho (k0 FOps)) (seq 0 n)).
Definition dmass (n : nat) (b : dbranch (K:=FC)) : FC := kmul FOps (dw b) (dtrace n (drho b)).
Definition drec_mass (n : nat) (bs : list (dbranch (K:=FC))) (r : list nat) : FC :=
  ksum FOps (map (dmass n) (filter (fun b => list_eqb_nat (flat_rec (drec b)) r) bs)).
Definition ddist_ok (tol : float) (n : nat) (bs : list (dbranch (K:=FC))) (l : list (list nat * float)) : bool :=
  forallb (fun rp => f_close tol (fst (drec_mass n bs (fst rp))) (snd rp)) l
  && f_close tol (fst (ksum FOps (map (dmass n) bs))) 1.
'''


def run(ctx):
    cirq = env.import_cirq()
    ctx.rule = ('random circuits (1-3 wires, qubits/qutrits, 2-9 ops, <=4 measured digits) with terminal and mid-circuit measurements, '
                'invert masks, confusion maps, repeated keys, KeyCondition/BitMask/sympy classical controls, resets; every random branch '
                'enumerated through a scripted seed; entry points Simulator.run/simulate, DensityMatrixSimulator.run/simulate, '
                'CliffordSimulator.run, StepResult.sample (state unchanged; integer seeds); non-trivial = >=1 measurement with >=2 outcomes of '
                'non-zero probability; distinct by circuit text + entry point')
    ctx.assumptions += ['numpy.random replaced by a scripted seed: probabilities are those Cirq computes', 'float tolerance 2e-6']
    ctx.set_obligations(coq.compile_props('C02'))
    n = 1 if ctx.tier == 'quick' else 8
    checks = []
    for i in range(210 * n):
        mode = ctx.rng.choice(['terminal', 'terminal', 'mid', 'mid', 'mid', 'clifford', 'clifford'])
        c, qs = mcircuits.random_mcircuit(cirq, ctx.rng, qudits=(mode != 'clifford' and ctx.rng.random() < 0.4), mid=(mode != 'terminal'),
                                          cc=(mode != 'terminal'), clifford=(mode == 'clifford'),
                                          wires=(ctx.rng.randint(2, 4) if mode == 'clifford' else None),
                                          max_ops=(16 if mode == 'clifford' else 9), max_digits=(6 if mode == 'clifford' else 4))
        case_checks(ctx, cirq, c, qs, mode, checks)
        if mode != 'terminal' and i % 4 == 0:
            repetition_checks(ctx, cirq, c, qs, mode, checks)
        if i % 5 == 2:
            rekeyed_checks(ctx, cirq, c, qs, mode, checks, REKEY_ROUTES[(i // 5) % len(REKEY_ROUTES)])
    for i in range(70 * n):
        c, qs = mcircuits.clifford_deep(cirq, ctx.rng)
        case_checks(ctx, cirq, c, qs, 'clifford', checks)
        if i % 2 == 0:
            repetition_checks(ctx, cirq, c, qs, 'clifford', checks)
    for i in range(40 * n):
        c, qs = mcircuits.pauli_measure_circuit(cirq, ctx.rng)
        case_checks(ctx, cirq, c, qs, 'pauli', checks)
    terminal_order_grid(ctx, cirq, checks)
    rekeyed_stream(ctx, cirq, checks, 5 * n)
    noisy_terminal_checks(ctx, cirq, checks, 24 * n)
    sample_stream(ctx, cirq, 25 * n)
    seed_grid(ctx, cirq)
    evaluate(ctx, checks)


def dist_literal(dist):
    return '[' + '; '.join(f'({gates.nlist(r)}, {gates.fl(p)})' for r, p in sorted(dist.items())) + ']'


def aggregate(branches, meas):
    dist = {}
    for p, rec, _ in branches:
        dist[tuple(rec)] = dist.get(tuple(rec), 0.0) + p
    return dist


def case_checks(ctx, cirq, c, qs, mode, checks):
    rng = ctx.rng
    try:
        mops, meas, _ = opsem.circuit_to_mops(cirq, c, qs)
    except opsem.Unsupported as e:
        return
    shape = gates.nlist([q.dimension for q in qs])
    dim = int(np.prod([q.dimension for q in qs]))
    init = gates.fvec(np.eye(dim)[0])
    model = f'(exec FOps {shape} {mops} {init})'
    desc = str(c).replace('\n', ' | ')[:400]
    entries = ['Simulator.run', rng.choice(['Simulator.simulate', 'DensityMatrixSimulator.run', 'DensityMatrixSimulator.simulate'])]
    if mode == 'pauli':
        entries = ['Simulator.run', 'DensityMatrixSimulator.run', rng.choice(['Simulator.simulate', 'DensityMatrixSimulator.simulate'])]
    if mode == 'clifford':
        entries += ['CliffordSimulator.run', 'StabilizerSampler.run']
    for entry in entries:
        try:
            if entry.endswith('.run'):
                mk = {'Simulator.run': lambda s: cirq.Simulator(seed=s, split_untangled_states=rng_split),
                      'DensityMatrixSimulator.run': lambda s: cirq.DensityMatrixSimulator(seed=s, split_untangled_states=rng_split),
                      'CliffordSimulator.run': lambda s: cirq.CliffordSimulator(seed=s),
                      'StabilizerSampler.run': lambda s: cirq.StabilizerSampler(seed=s)}[entry]
                rng_split = rng.random() < 0.5
                br = enumerate_runs(lambda s: opsem.flat_record(mk(s).run(c, repetitions=1).records, meas))
                branches = [(p, r, None) for p, r, _ in br]
            else:
                rng_split = rng.random() < 0.5
                Sim = cirq.Simulator if entry.startswith('Simulator') else cirq.DensityMatrixSimulator

                def f(s):
                    r = Sim(seed=s, split_untangled_states=rng_split, dtype=np.complex128).simulate(c, qubit_order=qs)
                    st = r.final_state_vector if Sim is cirq.Simulator else r.final_density_matrix
                    return np.array(st)
                br = enumerate_runs(f)
                branches = [(p, None, st) for p, st, _ in br]
        except BranchExplosion:
            ctx.count(entry + ':skipped-too-many-branches', [desc, entry], False)
            continue
        except Exception as e:
            import traceback
            ctx.violation(f'{entry}:raises:{type(e).__name__}', f'{entry} raised {type(e).__name__}: {e} on {desc}',
                          dict(kind='mcircuit', entry=entry, circuit=repr(c), error=traceback.format_exc()[-1200:]))
            continue
        total = sum(p for p, _, _ in branches)
        nontrivial = len([1 for p, _, _ in branches if p > 1e-9]) >= 2
        ctx.count(entry + ('[terminal]' if mode == 'terminal' else ''), [desc, entry, rng_split], nontrivial,
                  sample=dict(circuit=desc, entry=entry, branches=len(branches), total_probability=total))
        if abs(total - 1) > 1e-6:
            ctx.violation(f'{entry}:total', f'{entry}: branch probabilities sum to {total} on {desc}', dict(kind='mcircuit', entry=entry, circuit=repr(c)))
            continue
        if entry.endswith('.run'):
            dist = aggregate(branches, meas)
            expr = f'dist_ok {TOL} {model} {dist_literal(dist)}'
            what = f'{entry}: joint distribution of the recorded results differs from the Born-rule semantics on {desc} (got {sorted(dist.items())})'
        else:
            rho = np.zeros((dim, dim), dtype=complex)
            for p, _, st in branches:
                rho += p * (np.outer(st, st.conj()) if st.ndim == 1 else st.reshape(dim, dim))
            expr = f'fcll_close {TOL} (ensemble_rho FOps {dim}%nat {model}) {gates.fmat(rho)}'
            what = f'{entry}: the probability-weighted mixture of the branch states differs from the reference ensemble on {desc}'
        checks.append((entry, expr, what, dict(signature=f'{entry}:{mode}:{features(cirq, c)}', entry=entry, circuit=repr(c), mode=mode)))



def rekeyed_checks(ctx, cirq, c, qs, mode, checks, route):
    """The same circuit after its measurement keys were renamed / prefixed / scoped through a public route (key-mapping and key-path
    protocols, a CircuitOperation wrapper with repetition ids, a key map or a parent path) or its measured bits were flipped: the
    recorded results, read under the new key names, must still have the distribution of the reference semantics of the ORIGINAL
    circuit (everything a measurement gate carries - qid shape, invert mask, confusion map - survives the re-keying; a flipped bit
    is flipped in the record and nothing else changes)."""
    try:
        mops, meas, _ = opsem.circuit_to_mops(cirq, c, qs)
    except opsem.Unsupported:
        return
    names = sorted({k for k, _ in meas})
    flip = None
    if route == 'key_map':
        ren = {k: k + '_r' for k in names}
        c2 = cirq.with_measurement_key_mapping(c, ren)
    elif route == 'key_map_swap' and len(names) >= 2:
        ren = dict(zip(names, names[1:] + names[:1]))
        c2 = cirq.with_measurement_key_mapping(c, ren)
    elif route == 'path_prefix':
        ren = {k: 'p:' + k for k in names}
        c2 = cirq.with_key_path_prefix(c, ('p',))
    elif route == 'subcircuit_ids':
        ren = {k: 'r0:' + k for k in names}
        c2 = cirq.Circuit(cirq.CircuitOperation(c.freeze(), repetitions=1, repetition_ids=['r0'], use_repetition_ids=True))
    elif route == 'subcircuit_key_map':
        ren = {k: 'z' + k for k in names}
        c2 = cirq.Circuit(cirq.CircuitOperation(c.freeze(), measurement_key_map=ren))
    elif route == 'subcircuit_parent_path':
        ren = {k: 'pp:' + k for k in names}
        c2 = cirq.Circuit(cirq.CircuitOperation(c.freeze()).with_key_path(('pp',)))
    elif route == 'nested_ids':
        ren = {k: 'o:i:' + k for k in names}
        inner = cirq.CircuitOperation(c.freeze(), repetitions=1, repetition_ids=['i'], use_repetition_ids=True)
        c2 = cirq.Circuit(cirq.CircuitOperation(cirq.FrozenCircuit(inner), repetitions=1, repetition_ids=['o'], use_repetition_ids=True))
    elif route == 'bits_flipped':
        if any(cirq.control_keys(op) for op in c.all_operations()):
            return
        ren = {k: k for k in names}
        flip, pos, ops2 = [], 0, []
        for op in c.all_operations():
            if isinstance(op.gate, cirq.MeasurementGate):
                b = ctx.rng.randrange(len(op.qubits))
                if op.qubits[b].dimension == 2:
                    op = op.gate.with_bits_flipped(b).on(*op.qubits)
                    flip.append((str(op.gate.key), b))
                else:
                    flip.append(None)
            ops2.append(op)
        c2 = cirq.Circuit(ops2)        # one operation per moment keeps the order of the original
        c2 = cirq.Circuit(cirq.Moment([o]) for o in ops2)
    else:
        return
    meas2 = [(ren[k], n) for k, n in meas]
    shape = gates.nlist([q.dimension for q in qs])
    dim = int(np.prod([q.dimension for q in qs]))
    model = f'(exec FOps {shape} {mops} {gates.fvec(np.eye(dim)[0])})'
    desc = str(c).replace('\n', ' | ')[:400]
    entry = ctx.rng.choice(['Simulator.run', 'Simulator.run', 'DensityMatrixSimulator.run'] + (['CliffordSimulator.run'] if mode == 'clifford' else []))
    Sim = {'Simulator.run': cirq.Simulator, 'DensityMatrixSimulator.run': cirq.DensityMatrixSimulator, 'CliffordSimulator.run': cirq.CliffordSimulator}[entry]

    def rec(s):
        r = opsem.flat_record(Sim(seed=s).run(c2, repetitions=1).records, meas2)
        if flip:
            at, seen = 0, {}
            for (k, n), f in zip(meas, flip):
                if f is not None:
                    r[at + f[1]] ^= 1
                at += n
        return r
    try:
        br = enumerate_runs(rec)
    except BranchExplosion:
        ctx.count(f'rekeyed:{route}:skipped-too-many-branches', [desc, route], False)
        return
    except Exception as e:
        import traceback
        ctx.violation(f'rekeyed:{route}:raises:{type(e).__name__}', f'{entry} of the circuit re-keyed by {route} raised {type(e).__name__}: {e} on {desc}',
                      dict(kind='rekeyed', route=route, circuit=repr(c), error=traceback.format_exc()[-1200:]))
        return
    dist = aggregate([(p, r, None) for p, r, _ in br], meas2)
    ctx.count(f'rekeyed:{route}', [desc, route, entry], len([1 for v in dist.values() if v > 1e-9]) >= 2,
              sample=dict(circuit=desc, route=route, entry=entry, rekeyed=str(c2).replace('\n', ' | ')[:300]))
    if flip is None and route in ('key_map', 'key_map_swap', 'path_prefix'):
        # the model of the re-keyed circuit itself (theorem C02_rekey_preserves_distribution says it is the model of the original)
        try:
            mops2, meas_b, _ = opsem.circuit_to_mops(cirq, c2, qs)
            if [m[1] for m in meas_b] == [m[1] for m in meas2]:
                checks.append((f'rekeyed:{route}', f'dist_ok {TOL} (exec FOps {shape} {mops2} {gates.fvec(np.eye(dim)[0])}) {dist_literal(dist)}',
                               f'{entry} of the circuit re-keyed by {route} differs from the reference semantics of the re-keyed circuit itself ({desc})',
                               dict(signature=f'rekeyed-own-model:{route}:{features(cirq, c)}', route=route, entry=entry, circuit=repr(c), mode=mode)))
        except opsem.Unsupported:
            pass
    checks.append((f'rekeyed:{route}', f'dist_ok {TOL} {model} {dist_literal(dist)}',
                   f'{entry} of the circuit re-keyed by {route}: the recorded results (read under the new keys) do not have the distribution of the original circuit {desc} (got {sorted(dist.items())})',
                   dict(signature=f'rekeyed:{route}:{features(cirq, c)}', route=route, entry=entry, circuit=repr(c), mode=mode)))


REKEY_ROUTES = ['key_map', 'key_map_swap', 'path_prefix', 'subcircuit_ids', 'subcircuit_key_map', 'subcircuit_parent_path', 'nested_ids', 'bits_flipped']


def rekeyed_stream(ctx, cirq, checks, n):
    """Every route for circuits that are guaranteed to carry a confusion map, an invert mask and (except bits_flipped) a classical control."""
    rng = ctx.rng
    for route in REKEY_ROUTES:
        done = 0
        for _ in range(400):
            if done >= n:
                break
            mode = rng.choice(['mid', 'mid', 'terminal'])
            c, qs = mcircuits.random_mcircuit(cirq, rng, wires=rng.randint(1, 3), qudits=rng.random() < 0.3, mid=(mode == 'mid'),
                                              cc=(mode == 'mid' and route != 'bits_flipped'), max_ops=7, max_digits=3, resets=False)
            f = features(cirq, c)
            if 'confusion' not in str(f) or (route == 'key_map_swap' and len(cirq.measurement_key_names(c)) < 2):
                continue
            done += 1
            rekeyed_checks(ctx, cirq, c, qs, mode, checks, route)

def repetition_checks(ctx, cirq, c, qs, mode, checks):
    """Two repetitions of one run call: each repetition has the distribution of the reference semantics and the two are
    independent (a repetition must not see state left behind by the previous one)."""
    rng = ctx.rng
    try:
        mops, meas, _ = opsem.circuit_to_mops(cirq, c, qs)
    except opsem.Unsupported:
        return
    if sum(n for _, n in meas) > 3 or not meas:
        return
    shape = gates.nlist([q.dimension for q in qs])
    dim = int(np.prod([q.dimension for q in qs]))
    model = f'(exec FOps {shape} {mops} {gates.fvec(np.eye(dim)[0])})'
    desc = str(c).replace('\n', ' | ')[:400]
    entries = ['Simulator.run', 'DensityMatrixSimulator.run'] + (['CliffordSimulator.run', 'StabilizerSampler.run'] if mode == 'clifford' else [])
    for entry in entries:
        mk = {'Simulator.run': lambda s: cirq.Simulator(seed=s), 'DensityMatrixSimulator.run': lambda s: cirq.DensityMatrixSimulator(seed=s),
              'CliffordSimulator.run': lambda s: cirq.CliffordSimulator(seed=s), 'StabilizerSampler.run': lambda s: cirq.StabilizerSampler(seed=s)}[entry]

        def f(s):
            recs = mk(s).run(c, repetitions=2).records
            return (tuple(opsem.flat_record(recs, meas, 0)), tuple(opsem.flat_record(recs, meas, 1)))
        try:
            br = enumerate_runs(f)
        except BranchExplosion:
            ctx.count(entry + '[2 repetitions]:skipped-too-many-branches', [desc, entry], False)
            continue
        except Exception as e:
            import traceback
            ctx.violation(f'{entry}:raises:{type(e).__name__}', f'{entry} with repetitions=2 raised {type(e).__name__}: {e} on {desc}',
                          dict(kind='mcircuit', entry=entry, circuit=repr(c), error=traceback.format_exc()[-1200:]))
            continue
        joint, m1, m2 = {}, {}, {}
        for p, (r1, r2), _ in br:
            joint[(r1, r2)] = joint.get((r1, r2), 0.0) + p
            m1[r1] = m1.get(r1, 0.0) + p
            m2[r2] = m2.get(r2, 0.0) + p
        ctx.count(entry + '[2 repetitions]', [desc, entry], len([1 for v in m1.values() if v > 1e-9]) >= 2,
                  sample=dict(circuit=desc, entry=entry, branches=len(br), first=sorted(m1.items()), second=sorted(m2.items())))
        dep = max(abs(joint.get((a, b), 0.0) - m1[a] * m2[b]) for a in m1 for b in m2)
        rp = dict(signature=f'{entry}:repetitions:{mode}:{features(cirq, c)}', entry=entry + '[2 repetitions]', circuit=repr(c), mode=mode)
        if dep > 1e-6:
            checks.append((entry, 'false', f'{entry}: two repetitions of one run are not independent on {desc}: P(first, second) differs from '
                                           f'P(first) P(second) by {dep:.4f} (joint {sorted(joint.items())})', rp))
        for which, m in (('first', m1), ('second', m2)):
            checks.append((entry, f'dist_ok {TOL} {model} {dist_literal(m)}',
                           f'{entry}: the {which} of two repetitions does not have the Born-rule distribution on {desc} (got {sorted(m.items())})', rp))


def terminal_order_grid(ctx, cirq, checks):
    """Terminal measurements sampled from a product of independent sub-states (split_untangled_states=True), the measured qubits listed
    in EVERY order: separate qubits, an entangled pair plus a spectator, two pairs - in distinguishable states (fixed for every seed)."""
    import itertools
    qs3 = cirq.LineQubit.range(3)
    qs4 = cirq.LineQubit.range(4)
    preps = [
        ('separate', qs3, [cirq.X(qs3[0]), cirq.H(qs3[1]), cirq.Y(qs3[2]) ** 0.3]),
        ('pair+spectator', qs3, [cirq.H(qs3[0]), cirq.CNOT(qs3[0], qs3[2]), cirq.X(qs3[1])]),
        ('spectator+pair', qs3, [cirq.X(qs3[0]) ** 0.3, cirq.H(qs3[2]), cirq.CNOT(qs3[2], qs3[1]), cirq.X(qs3[1])]),
        ('two pairs', qs4, [cirq.H(qs4[0]), cirq.CNOT(qs4[0], qs4[3]), cirq.X(qs4[3]), cirq.Y(qs4[2]) ** 0.3, cirq.CNOT(qs4[2], qs4[1])]),
    ]
    for name, qs, prep in preps:
        perms = list(itertools.permutations(range(len(qs))))
        if len(qs) == 4:
            perms = perms[::3] if ctx.tier == 'quick' else perms
        for perm in perms:
            for joint in (True, False):
                c = cirq.Circuit(prep)
                if joint:
                    c.append(cirq.measure(*[qs[i] for i in perm], key='m'))
                else:
                    c.append([cirq.measure(qs[i], key=f'k{j}') for j, i in enumerate(perm)])
                try:
                    mops, meas, _ = opsem.circuit_to_mops(cirq, c, list(qs))
                except opsem.Unsupported:
                    continue
                shape = gates.nlist([2] * len(qs))
                model = f'(exec FOps {shape} {mops} {gates.fvec(np.eye(2 ** len(qs))[0])})'
                desc = f'{name}, measured in order {list(perm)} ({"one key" if joint else "one key per qubit"})'
                for entry, Sim in (('Simulator.run', cirq.Simulator), ('DensityMatrixSimulator.run', cirq.DensityMatrixSimulator)):
                    try:
                        br = enumerate_runs(lambda s: opsem.flat_record(Sim(seed=s, split_untangled_states=True).run(c, repetitions=1).records, meas))
                    except BranchExplosion:
                        continue
                    dist = {}
                    for p, r, _ in br:
                        dist[tuple(r)] = dist.get(tuple(r), 0.0) + p
                    ctx.count(entry + '[terminal order grid]', [name, list(perm), joint, entry], True, sample=dict(preparation=name, order=list(perm), joint=joint, entry=entry))
                    checks.append((entry, f'dist_ok {TOL} {model} {dist_literal(dist)}',
                                   f'{entry} (split_untangled_states=True): terminal measurement of {desc}: joint distribution differs from the Born-rule semantics (got {sorted(dist.items())})',
                                   dict(signature=f'{entry}:terminal-order:{name}', entry=entry, circuit=repr(c), mode='terminal-order')))


def noisy_terminal_checks(ctx, cirq, checks, n):
    """run() of a simulator built with a per-qubit noise model on circuits ending in one joint measurement (own moment): the records
    have the distribution of the circuit the noise model produces - the noise the model adds after the measurement must not leak
    into the sampled outcome (terminal-measurement fast path)."""
    rng = ctx.rng
    for i in range(n):
        k = rng.randint(2, 3)
        qs = cirq.LineQubit.range(k)
        # every qubit is touched in the first moment: the simulators hand the noise model the qubits of the measurement-free
        # prefix only (recorded defect of C09, split-before-noise), which must not be what this stream trips over
        c = cirq.Circuit(cirq.Moment(rng.choice([cirq.H, cirq.X, cirq.Y ** 0.5, cirq.I])(q) for q in qs))
        for _ in range(rng.randint(0, 3)):
            if rng.random() < 0.4:
                a, b = rng.sample(range(k), 2)
                c.append(rng.choice([cirq.CNOT, cirq.CZ])(qs[a], qs[b]))
            else:
                c.append(rng.choice([cirq.H, cirq.X, cirq.Y ** 0.5, cirq.rx(0.7)])(qs[rng.randrange(k)]))
        ws = rng.sample(range(k), rng.randint(1, k))
        c.append(cirq.Moment(cirq.measure(*[qs[w] for w in ws], key='m', invert_mask=tuple(rng.random() < 0.3 for _ in ws))))
        noise_gate = [cirq.X, cirq.bit_flip(0.2), cirq.depolarize(0.1), cirq.amplitude_damp(0.3)][i % 4]
        nm = cirq.ConstantQubitNoiseModel(noise_gate)
        try:
            mops, meas, _ = opsem.circuit_to_mops(cirq, c.with_noise(nm), qs)
        except opsem.Unsupported:
            continue
        shape = gates.nlist([2] * k)
        model = f'(dexec FOps {shape} {mops} {gates.fvec(np.eye(2 ** k)[0])})'
        desc = str(c).replace('\n', ' | ')[:300]
        for entry, Sim in (('Simulator.run', cirq.Simulator), ('DensityMatrixSimulator.run', cirq.DensityMatrixSimulator)):
            if Sim is cirq.Simulator and noise_gate is not cirq.X and not (k == 2 and len(c) <= 3 and noise_gate == cirq.bit_flip(0.2)):
                continue        # trajectories branch at every noise operation: only unitary noise, or two short bit-flip wires
            try:
                br = enumerate_runs(lambda s: opsem.flat_record(Sim(noise=nm, seed=s).run(c, repetitions=1).records, meas))
            except BranchExplosion:
                continue
            except Exception as e:
                import traceback
                ctx.violation(f'{entry}:noise:raises:{type(e).__name__}', f'{entry} with noise {noise_gate!r} raised {type(e).__name__}: {e} on {desc}',
                              dict(kind='mcircuit', entry=entry, circuit=repr(c), noise=repr(noise_gate), error=traceback.format_exc()[-1200:]))
                continue
            dist = {}
            for p, r, _ in br:
                dist[tuple(r)] = dist.get(tuple(r), 0.0) + p
            ctx.count(entry + '[noise, terminal joint measurement]', [desc, entry, repr(noise_gate)], True,
                      sample=dict(circuit=desc, entry=entry, noise=repr(noise_gate), distribution=sorted(dist.items())))
            checks.append((entry, f'ddist_ok {TOL} {2 ** k}%nat {model} {dist_literal(dist)}',
                           f'{entry}(noise={noise_gate!r}): the records of a terminal joint measurement do not have the distribution of the circuit the noise model produces on {desc} (got {sorted(dist.items())})',
                           dict(signature=f'{entry}:noise-terminal', entry=entry, circuit=repr(c), noise=repr(noise_gate), mode='noise-terminal')))


def features(cirq, c):
    f = set()
    for op in c.all_operations():
        g = op.gate
        if isinstance(op.untagged, cirq.ClassicallyControlledOperation):
            f.add('cc:' + '+'.join(sorted(type(x).__name__ for x in op.untagged.classical_controls)))
        if isinstance(g, cirq.MeasurementGate):
            if any(g.full_invert_mask()):
                f.add('invert')
            if g.confusion_map:
                f.add('confusion')
            if any(d != 2 for d in cirq.qid_shape(op)):
                f.add('qudit')
        if isinstance(g, cirq.ResetChannel):
            f.add('reset')
    keys = [str(op.gate.key) for op in c.all_operations() if isinstance(op.gate, cirq.MeasurementGate)]
    if len(keys) != len(set(keys)):
        f.add('repeated-key')
    return ','.join(sorted(f))


def sample_stream(ctx, cirq, n):
    """Sampling a state never changes it; independent sub-states are sampled independently for integer seeds too."""
    rng = ctx.rng
    for i in range(n):
        c, qs = mcircuits.random_mcircuit(cirq, rng, wires=rng.randint(2, 3), mid=False, cc=False, confusion=False, resets=False)
        uc = cirq.Circuit(op for op in c.all_operations() if not cirq.is_measurement(op))
        if not len(uc):
            continue
        for Sim in (cirq.Simulator, cirq.DensityMatrixSimulator):
            sim = Sim(split_untangled_states=rng.random() < 0.5, seed=5)
            for step in sim.simulate_moment_steps(uc, qubit_order=qs):
                before = np.array(step.state_vector(copy=True) if Sim is cirq.Simulator else step.density_matrix(copy=True))
                step.sample(list(qs), repetitions=3, seed=rng.randrange(100))
                step.sample_measurement_ops([cirq.measure(*qs, key='z')], repetitions=2, seed=rng.randrange(100))
                after = np.array(step.state_vector(copy=True) if Sim is cirq.Simulator else step.density_matrix(copy=True))
                ctx.count('sample-leaves-state', [str(uc), Sim.__name__], True, sample=dict(circuit=str(uc).replace('\n', ' | ')[:200], simulator=Sim.__name__))
                if not np.allclose(before, after, atol=1e-7):
                    ctx.violation(f'sample-changes-state:{Sim.__name__}', f'{Sim.__name__} step.sample changed the state on {uc!r}',
                                  dict(kind='sample', circuit=repr(uc), simulator=Sim.__name__))
    # integer seeds: two independent uniform bits must not come out equal in every one of 64 repetitions (probability 2^-64)
    q = cirq.LineQubit.range(2)
    hh = cirq.Circuit(cirq.H(q[0]), cirq.H(q[1]))
    for Sim in (cirq.Simulator, cirq.DensityMatrixSimulator):
        for seed in (1, 2, 3):
            for how in ('sample', 'sample_measurement_ops'):
                step = list(Sim(split_untangled_states=True).simulate_moment_steps(hh))[-1]
                if how == 'sample':
                    bits = np.asarray(step.sample(q, repetitions=64, seed=seed))
                else:
                    bits = np.asarray(step.sample_measurement_ops([cirq.measure(*q, key='m')], repetitions=64, seed=seed)['m'])
                ctx.count('int-seed-independence', [Sim.__name__, seed, how], True)
                if (bits[:, 0] == bits[:, 1]).all() or (bits[:, 0] != bits[:, 1]).all():
                    ctx.violation(f'int-seed-correlated:{how}', f'{Sim.__name__} step.{how}(..., repetitions=64, seed={seed}) on H(q0),H(q1) with '
                                  f'split_untangled_states=True returned perfectly correlated columns (probability 2^-63 for independent fair bits)',
                                  dict(kind='int-seed', simulator=Sim.__name__, seed=seed, how=how))


def seed_grid(ctx, cirq):
    """An integer seed means "a fresh numpy RandomState(seed)" (cirq.RANDOM_STATE_OR_SEED_LIKE): every sampling entry point must return
    bit for bit what it returns when handed np.random.RandomState(seed) itself, for several repetitions (an entry point that re-parses
    the integer per repetition or per qubit replays one random stream and fails this), and the repetitions of a uniform two-bit
    state must not be all equal / perfectly correlated (probability < 2^-60)."""
    q = cirq.LineQubit.range(3)
    prep = cirq.Circuit(cirq.H(q[0]), cirq.H(q[1]), cirq.CNOT(q[1], q[2]))
    v = cirq.final_state_vector(prep, qubit_order=q)
    rho = cirq.final_density_matrix(prep, qubit_order=q)
    mops = [cirq.measure(q[0], q[2], key='a'), cirq.measure(q[1], key='b')]
    R = 48

    def steps(Sim, **kw):
        return list(Sim(**kw).simulate_moment_steps(prep, qubit_order=q))[-1]

    def rep_state(kind):
        if kind == 'tableau':
            st = cirq.CliffordTableauSimulationState(cirq.CliffordTableau(3), qubits=q, prng=np.random.RandomState(0))
        else:
            st = cirq.StabilizerChFormSimulationState(qubits=q, prng=np.random.RandomState(0), initial_state=0)
        for op in prep.all_operations():
            cirq.act_on(op, st)
        return st
    entries = {}
    for name, Sim, kw in (('Simulator[split]', cirq.Simulator, dict(split_untangled_states=True)), ('Simulator[no split]', cirq.Simulator, dict(split_untangled_states=False)),
                          ('DensityMatrixSimulator[split]', cirq.DensityMatrixSimulator, dict(split_untangled_states=True)),
                          ('DensityMatrixSimulator[no split]', cirq.DensityMatrixSimulator, dict(split_untangled_states=False)),
                          ('CliffordSimulator[split]', cirq.CliffordSimulator, dict(split_untangled_states=True)),
                          ('CliffordSimulator[no split]', cirq.CliffordSimulator, dict(split_untangled_states=False))):
        entries[f'{name} step.sample'] = (lambda seed, Sim=Sim, kw=kw: np.asarray(steps(Sim, **kw).sample(q, repetitions=R, seed=seed)))
        entries[f'{name} step.sample_measurement_ops'] = (lambda seed, Sim=Sim, kw=kw: np.concatenate(
            [np.asarray(x).reshape(R, -1) for _, x in sorted(steps(Sim, **kw).sample_measurement_ops(mops, repetitions=R, seed=seed).items())], axis=1))
        entries[f'{name}(seed).run'] = (lambda seed, Sim=Sim, kw=kw: np.concatenate(
            [np.asarray(x).reshape(R, -1) for _, x in sorted(Sim(seed=seed, **kw).run(prep + cirq.Circuit(mops), repetitions=R).records.items())], axis=1))
    entries['sample_state_vector'] = lambda seed: np.asarray(cirq.sample_state_vector(v, [0, 1, 2], repetitions=R, seed=seed))
    entries['sample_density_matrix'] = lambda seed: np.asarray(cirq.sample_density_matrix(rho, [0, 1, 2], repetitions=R, seed=seed))
    entries['measure_state_vector x R'] = lambda seed: (lambda rs: np.asarray([cirq.measure_state_vector(v, [0, 1, 2], seed=rs)[0] for _ in range(R)]))(
        seed if not isinstance(seed, int) else np.random.RandomState(seed))
    entries['cirq.sample'] = lambda seed: np.concatenate([np.asarray(x).reshape(R, -1) for _, x in sorted(cirq.sample(prep + cirq.Circuit(mops), repetitions=R, seed=seed).records.items())], axis=1)
    entries['StabilizerSampler(seed).run'] = lambda seed: np.concatenate(
        [np.asarray(x).reshape(R, -1) for _, x in sorted(cirq.StabilizerSampler(seed=seed).run(prep + cirq.Circuit(mops), repetitions=R).records.items())], axis=1)
    for kind in ('tableau', 'ch-form'):
        entries[f'{kind} simulation state.sample'] = lambda seed, kind=kind: np.asarray(rep_state(kind).sample(q, repetitions=R, seed=seed))
        entries[f'{kind} representation.sample'] = lambda seed, kind=kind: np.asarray(rep_state(kind)._state.sample([0, 1, 2], repetitions=R, seed=seed))
    for name, f in entries.items():
        for seed in (0, 1, 7, 12345):
            try:
                a = f(seed)
                b = f(np.random.RandomState(seed))
            except Exception as e:
                ctx.violation(f'seed-grid:raises:{name}', f'{name} with seed={seed} raised {type(e).__name__}: {e}', dict(kind='seed-grid', entry=name, seed=seed))
                break
            ctx.count('seed-grid', [name, seed], True, sample=dict(entry=name, seed=seed, first_rows=a[:3].tolist()))
            if a.shape != b.shape or not (a == b).all():
                ctx.violation(f'seed-grid:int-seed-is-not-RandomState(seed):{name}',
                              f'{name}: the integer seed {seed} does not give the samples of np.random.RandomState({seed}) (first rows {a[:4].tolist()} vs {b[:4].tolist()})',
                              dict(kind='seed-grid', entry=name, seed=seed))
                break
            bits = a.reshape(R, -1)
            if (bits == bits[0]).all() or (bits[:, 0] == bits[:, 1]).all() or (bits[:, 0] != bits[:, 1]).all():
                ctx.violation(f'seed-grid:repetitions-not-independent:{name}',
                              f'{name} with seed={seed}: {R} repetitions of two independent fair bits came out all equal or perfectly correlated (rows {bits[:4].tolist()} ...)',
                              dict(kind='seed-grid', entry=name, seed=seed))
                break


def evaluate(ctx, checks):
    SH = 30
    shards = []
    for s0 in range(0, len(checks), SH):
        part = checks[s0:s0 + SH]
        text = PRE + 'Definition checks : list bool := [\n' + ';\n'.join(c[1] for c in part) + '].\nEval vm_compute in failing (fun b => b) checks.\n'
        shards.append((f'c02_{ctx.seed}_{s0 // SH}', text))
    outs = coq.coq_eval_many(shards, workers=12)
    for si, out in enumerate(outs):
        for idx in coq.parse_nat_list(coq.parse_evals(out)[0]):
            stream, _, desc, rep = checks[si * SH + idx]
            ctx.disagree(f'correspondence:{stream}', desc, rep.pop('signature'), desc, dict(kind=stream, **rep))


def replay(ctx, data):
    """Re-runs the generating stream with the recorded seed/tier and looks for the recorded signature."""
    import sys
    return runner.replay_by_rerun(sys.modules[__name__], ctx, data)
