"""C19 — exported OpenQASM describes the same computation as the circuit (DESIGN 5/C19)."""
import cmath, itertools, math, re, warnings
import numpy as np
from .. import env, coq, runner, gates, tables, circuits, opsem

LEVEL = 'translation_validation'
META = dict(
    text='Translation validation with proven components. Per generated program: the text produced by Circuit.to_qasm / cirq.qasm / QasmOutput (versions 2.0 and 3.0, several precisions and qubit orders) is read by an independent fail-closed reader, every instruction is given the matrix its standard library (qelib1.inc / stdgates.inc, transcribed gate by gate in coq/Vendor/Qasm.v) defines, and inside Coq (i) the unitary of the parsed program is compared up to global phase with the reference unitary of the circuit built from the documented gate matrices, (ii) measured qubits, register sizes, bit order and the key<->register map are compared with the proven layout model, (iii) the conditional statements are matched with the classically controlled operations - every statement of the body an operation exports alone (several for H**t, CCZ, CCY, decomposed operations; none for a global phase) must appear under the conditions of that operation - and each conjunction of conditions is compared with the conditions of the circuit as a truth table over the register bits, (iv) for circuits with measurements and controls the outcome distribution and the per-outcome states of the parsed program (qexec) equal those of the circuit (exec of Sim/Measure.v). Coq theorems (generic ring, all exponents of each guard): what every `_qasm_` rule emits, read with the standard library, is the documented matrix up to an explicit unit factor; the regenerated mnemonic table equals the (version-aware) emission model; no key of the model uses a gate its include file does not define.',
    note='Trusted: Coq kernel; the transcription of qelib1.inc / stdgates.inc in coq/Vendor/Qasm.v (OpenQASM 2.0 paper + the qelib1.inc shipped with Qiskit for sx/sxdg; OpenQASM 3.0 spec standard library); the Python reader (tokeniser, expression evaluator, cos/sin of the parsed angles); the docstring transcription coq/Gates/GateSpecs.v; the float instance (PrimFloat) with tolerance 10^(1-precision) (scaled by the number of rounded angles beyond 10) + 1e-9. The quantifier over programs is sampled; the KAK/one-qubit numeric fallbacks are validated per program, not proved.',
    technique='Rocq/Coq proofs about the standard-library matrices + per-program translation validation evaluated by vm_compute inside Coq',
)

PRE = (gates.COQ_HEADER + 'From VF Require Import Sim.Ref Sim.Measure Vendor.Qasm Vendor.QasmRegs Vendor.QasmHarness.\n')


# ======================================================================================================
# The reader: the subset of OpenQASM 2.0 / 3.0 that Cirq emits.  Fail closed:
#   Malformed   - the text is not OpenQASM (of the declared version) at a place whose grammar the reader knows
#                 completely (header, declarations, argument lists, conditions, expressions, names not in the
#                 included library, undeclared registers, indices out of range)  -> the export is wrong
#   Unsupported - a construct of the language the reader does not implement         -> harness gap
# ======================================================================================================
class Malformed(Exception):
    pass


class Unsupported(Exception):
    pass


TOKEN = re.compile(r'\s*(?:(?P<num>(?:\d+\.\d*|\.\d+|\d+)(?:[eE][+-]?\d+)?)|(?P<id>[A-Za-z_][A-Za-z0-9_]*)|(?P<str>"[^"\n]*")|'
                   r'(?P<sym>->|==|!=|&&|\|\||<=|>=|[()\[\]{},;+\-*/=^<>!&|]))')

# mnemonic -> (constructor, number of angle parameters, number of qubit arguments)
GATES = {
    'u3': ('QU3', 3, 1), 'u2': ('QU2', 2, 1), 'u1': ('QU1', 1, 1), 'p': ('QU1', 1, 1),
    'id': ('QId', 0, 1), 'x': ('QX', 0, 1), 'y': ('QY', 0, 1), 'z': ('QZ', 0, 1), 'h': ('QH', 0, 1), 's': ('QS', 0, 1),
    'sdg': ('QSdg', 0, 1), 't': ('QT', 0, 1), 'tdg': ('QTdg', 0, 1), 'sx': ('QSx', 0, 1), 'sxdg': ('QSxdg', 0, 1),
    'rx': ('QRx', 1, 1), 'ry': ('QRy', 1, 1), 'rz': ('QRz', 1, 1),
    'cx': ('QCx', 0, 2), 'CX': ('QCx', 0, 2), 'cy': ('QCy', 0, 2), 'cz': ('QCz', 0, 2), 'ch': ('QCh', 0, 2), 'swap': ('QSwap', 0, 2),
    'ccx': ('QCcx', 0, 3), 'cswap': ('QCswap', 0, 3), 'crz': ('QCrz', 1, 2), 'cu1': ('QCu1', 1, 2), 'cu3': ('QCu3', 3, 2),
}
# mirrors Vendor/Qasm.v qdefined (which is evaluated inside Coq for every program as well)
NOT_IN_STDGATES = {'sxdg', 'cu1', 'cu3'}
NOT_IN_QELIB1 = set()
OTHER_KEYWORDS = {'gate', 'opaque', 'barrier', 'for', 'while', 'def', 'let', 'const', 'int', 'uint', 'float', 'angle', 'bool',
                  'input', 'output', 'box', 'delay', 'defcal', 'cal', 'extern', 'return', 'break', 'continue', 'end', 'else',
                  'ctrl', 'negctrl', 'inv', 'pow', 'gphase', 'U', 'duration', 'stretch', 'array', 'switch', 'pragma'}


class Program:
    def __init__(self):
        self.version = None
        self.nqubits = 0
        self.qreg = None
        self.cregs = []          # (name, size, comment or None)
        self.stmts = []          # ('gate', name, [angles], [qubits]) | ('measure', q, reg, bit) | ('reset', q) | ('if', [(reg, op, val)], stmt)
        self.nparams = 0
        self.undefined = []      # mnemonics outside the included library that were read leniently

    def creg_index(self, name):
        for i, (n, _, _) in enumerate(self.cregs):
            if n == name:
                return i
        raise Malformed(f'classical register {name!r} is not declared')


def read_qasm(text, lenient=()):
    """text -> Program.  Comments are removed first; the comment on a register declaration line is kept with it."""
    toks, decl_comment = [], {}
    for ln, line in enumerate(text.split('\n')):
        code, _, comment = line.partition('//')
        pos = 0
        code = code.rstrip()
        first = len(toks)
        while pos < len(code):
            m = TOKEN.match(code, pos)
            if not m or m.end() == pos:
                if code[pos:].strip() == '':
                    break
                raise Malformed(f'line {ln + 1}: cannot tokenise {code[pos:]!r}')
            kind = m.lastgroup
            toks.append((kind, m.group(kind), ln + 1))
            pos = m.end()
        if comment and len(toks) > first:
            decl_comment[ln + 1] = comment.strip()
    P = Program()
    i = [0]

    def peek(k=0):
        return toks[i[0] + k] if i[0] + k < len(toks) else ('eof', '', -1)

    def take(kind=None, val=None):
        t = peek()
        if (kind is not None and t[0] != kind) or (val is not None and t[1] != val):
            raise Malformed(f'line {t[2]}: expected {val or kind}, found {t[1]!r}')
        i[0] += 1
        return t

    def intlit():
        t = take('num')
        if not t[1].isdigit():
            raise Malformed(f'line {t[2]}: integer expected, found {t[1]!r}')
        return int(t[1])

    # ---- header ----
    take('id', 'OPENQASM')
    v = take('num')[1]
    if v not in ('2.0', '3.0'):
        raise Unsupported(f'OPENQASM version {v}')
    P.version = v
    take('sym', ';')
    take('id', 'include')
    inc = take('str')[1]
    want = '"qelib1.inc"' if v == '2.0' else '"stdgates.inc"'
    if inc != want:
        raise Malformed(f'include {inc} with OPENQASM {v} (the standard library of this version is {want})')
    take('sym', ';')
    v3 = v == '3.0'

    # ---- expressions: + - * / ^ unary minus, parentheses, numbers, pi ----
    def expr():
        x = term()
        while peek()[1] in ('+', '-') and peek()[0] == 'sym':
            op = take()[1]
            y = term()
            x = x + y if op == '+' else x - y
        return x

    def term():
        x = factor()
        while peek()[1] in ('*', '/') and peek()[0] == 'sym':
            op = take()[1]
            y = factor()
            if op == '/':
                if y == 0:
                    raise Malformed('division by zero in an angle expression')
                x = x / y
            else:
                x = x * y
        return x

    def factor():
        t = peek()
        if t[0] == 'sym' and t[1] == '-':
            take()
            return -factor()
        if t[0] == 'sym' and t[1] == '+':
            take()
            return factor()
        b = atom()
        if peek()[0] == 'sym' and peek()[1] == '^':
            raise Unsupported('power operator in an angle expression')
        return b

    def atom():
        t = peek()
        if t[0] == 'num':
            take()
            return float(t[1])
        if t[0] == 'id' and t[1] in ('pi', 'π'):
            take()
            return math.pi
        if t[0] == 'sym' and t[1] == '(':
            take()
            x = expr()
            take('sym', ')')
            return x
        if t[0] == 'id':
            raise Unsupported(f'line {t[2]}: identifier {t[1]!r} in an angle expression')
        raise Malformed(f'line {t[2]}: expression expected, found {t[1]!r}')

    def qarg():
        t = take('id')
        if P.qreg is None or t[1] != P.qreg:
            raise Malformed(f'line {t[2]}: quantum register {t[1]!r} is not declared')
        if not (peek()[0] == 'sym' and peek()[1] == '['):
            raise Unsupported(f'line {t[2]}: whole-register argument {t[1]!r}')
        take('sym', '[')
        k = intlit()
        take('sym', ']')
        if k >= P.nqubits:
            raise Malformed(f'line {t[2]}: {t[1]}[{k}] is outside the declared register of {P.nqubits} qubits')
        return k

    def carg():
        t = take('id')
        r = P.creg_index(t[1])
        take('sym', '[')
        k = intlit()
        take('sym', ']')
        if k >= P.cregs[r][1]:
            raise Malformed(f'line {t[2]}: {t[1]}[{k}] is outside the declared register of {P.cregs[r][1]} bits')
        return r, k

    def condition():
        t = take('id')
        r = P.creg_index(t[1])
        if peek()[0] == 'sym' and peek()[1] == '[':
            raise Unsupported('indexed bit in a condition')
        op = take('sym')
        if op[1] not in ('==', '!='):
            raise Malformed(f'line {op[2]}: comparison expected in a condition, found {op[1]!r}')
        if op[1] == '!=' and not v3:
            raise Malformed(f'line {op[2]}: OpenQASM 2.0 conditions are of the form creg==int')
        val = intlit()
        return (r, op[1], val)

    def statement(in_if=False):
        t = peek()
        if t[0] == 'eof':
            raise Malformed('statement expected at the end of the text')
        if t[0] != 'id':
            raise Malformed(f'line {t[2]}: statement expected, found {t[1]!r}')
        name = t[1]
        if name in ('qreg', 'creg', 'qubit', 'bit') and in_if:
            raise Malformed(f'line {t[2]}: declaration inside if')
        if name == 'qreg' and not v3:
            take()
            n = take('id')
            take('sym', '[')
            k = intlit()
            take('sym', ']')
            take('sym', ';')
            if P.qreg is not None:
                raise Unsupported('several quantum registers')
            P.qreg, P.nqubits = n[1], k
            return None
        if name == 'qubit' and v3:
            take()
            take('sym', '[')
            k = intlit()
            take('sym', ']')
            n = take('id')
            take('sym', ';')
            if P.qreg is not None:
                raise Unsupported('several quantum registers')
            P.qreg, P.nqubits = n[1], k
            return None
        if (name == 'creg' and not v3) or (name == 'bit' and v3):
            take()
            if v3:
                take('sym', '[')
                k = intlit()
                take('sym', ']')
                n = take('id')
            else:
                n = take('id')
                take('sym', '[')
                k = intlit()
                take('sym', ']')
            end = take('sym', ';')
            if any(c[0] == n[1] for c in P.cregs) or n[1] == P.qreg:
                raise Malformed(f'line {n[2]}: register {n[1]!r} declared twice')
            P.cregs.append((n[1], k, decl_comment.get(end[2])))
            return None
        if name in ('qreg', 'creg', 'qubit', 'bit'):
            raise Malformed(f'line {t[2]}: {name!r} is not a declaration of OpenQASM {v}')
        if name == 'measure' and not v3:
            take()
            q = qarg()
            take('sym', '->')
            r, k = carg()
            take('sym', ';')
            return ('measure', q, r, k)
        if name == 'measure':
            raise Unsupported('measure statement without assignment in OpenQASM 3.0')
        if name == 'reset':
            take()
            q = qarg()
            take('sym', ';')
            return ('reset', q)
        if name == 'if':
            take()
            take('sym', '(')
            conds = [condition()]
            while peek()[0] == 'sym' and peek()[1] == '&&':
                if not v3:
                    raise Malformed('OpenQASM 2.0 has no && in conditions')
                take()
                conds.append(condition())
            take('sym', ')')
            if peek()[0] == 'sym' and peek()[1] == '{':
                raise Unsupported('block body of an if statement')
            if peek()[0] == 'eof':
                raise Malformed('statement expected at the end of the text (an `if` without a body)')
            body = statement(in_if=True)
            if body is None:
                raise Malformed('declaration inside if')
            if body[0] == 'if' and not v3:
                raise Malformed(f'line {t[2]}: the body of an OpenQASM 2.0 `if` is one quantum operation, found another `if`')
            return ('if', conds, body)
        if v3 and any(c[0] == name for c in P.cregs) and name not in GATES:
            # OpenQASM 3.0 assignment  c[k] = measure q[j];
            r, k = carg()
            take('sym', '=')
            take('id', 'measure')
            q = qarg()
            take('sym', ';')
            return ('measure', q, r, k)
        if name in GATES:
            take()
            ctor, npar, nq = GATES[name]
            if v3 and name in lenient:
                P.undefined.append(name)      # reported by the caller; read on with the qelib1.inc meaning
            elif (v3 and name in NOT_IN_STDGATES) or (not v3 and name in NOT_IN_QELIB1):
                raise Malformed(f'line {t[2]}: gate {name!r} is not defined by the standard library of OpenQASM {v} '
                                f'({"stdgates.inc" if v3 else "qelib1.inc"})|undefined-gate:{v}:{name}')
            angles = []
            if peek()[0] == 'sym' and peek()[1] == '(':
                take()
                if not (peek()[0] == 'sym' and peek()[1] == ')'):
                    angles.append(expr())
                    while peek()[0] == 'sym' and peek()[1] == ',':
                        take()
                        angles.append(expr())
                take('sym', ')')
            if len(angles) != npar:
                raise Malformed(f'line {t[2]}: gate {name} takes {npar} parameters, {len(angles)} given')
            qs = [qarg()]
            while peek()[0] == 'sym' and peek()[1] == ',':
                take()
                qs.append(qarg())
            take('sym', ';')
            if len(qs) != nq:
                raise Malformed(f'line {t[2]}: gate {name} takes {nq} qubits, {len(qs)} given')
            if len(set(qs)) != len(qs):
                raise Malformed(f'line {t[2]}: gate {name} applied to a repeated qubit')
            P.nparams += npar
            return ('gate', name, angles, qs)
        if name in OTHER_KEYWORDS:
            raise Unsupported(f'line {t[2]}: statement {name!r}')
        if peek(1)[0] == 'id':
            raise Malformed(f'line {t[2]}: {name!r} followed by {peek(1)[1]!r} is not a statement')
        raise Malformed(f'line {t[2]}: {name!r} is neither declared nor a gate of the standard library|undefined-gate:{v}:{name}')

    while peek()[0] != 'eof':
        s = statement()
        if s is not None:
            P.stmts.append(s)
    return P


# ---- parsed program -> Gallina ----
def hu(theta):
    """the half-angle unit exp(i theta/2) and its inverse, as two FC literals"""
    u = cmath.exp(1j * theta / 2)
    return f'{gates.fc(u)} {gates.fc(u.conjugate())}'


def gate_term(name, angles):
    ctor, npar, nq = GATES[name]
    if npar == 0:
        return ctor
    return '(' + ctor + ' ' + ' '.join(hu(a) for a in angles) + ')' if name != 'cu3' else \
        '(' + ctor + ' ' + hu(angles[0] / 2) + ' ' + hu(angles[1]) + ' ' + hu(angles[2]) + ')'


def stmt_term(s, v3):
    b = 'true' if v3 else 'false'
    if s[0] == 'gate' and v3 and s[1] in NOT_IN_STDGATES:
        b = 'false'           # lenient reading (the finding is reported separately)
    if s[0] == 'gate':
        return f'(QSGate (qgop FOps {b} {gate_term(s[1], s[2])} {gates.nlist(s[3])}))'
    if s[0] == 'measure':
        return f'(QSMeasure {s[1]} {s[2]} {s[3]})'
    if s[0] == 'reset':
        return f'(QSReset {s[1]})'
    if s[0] == 'if':
        return f'(QSIf [{"; ".join(c for c in s[1])}] {stmt_term(s[2], v3)})'
    raise KeyError(s[0])


def program_term(P):
    v3 = P.version == '3.0'

    def conv(s):
        if s[0] == 'if':
            return ('if', [f'(QCond {r} {P.cregs[r][1]} {val} {"true" if op == "==" else "false"})' for (r, op, val) in s[1]], conv(s[2]))
        return s
    return '[' + ';\n '.join(stmt_term(conv(s), v3) for s in P.stmts) + ']'


def tolerance(precision, nparams):
    t = 10.0 ** (1 - precision) * max(1.0, nparams / 10.0) + 1e-9
    return gates.fl(t)


# ======================================================================================================
# exporting
# ======================================================================================================
APIS = ['to_qasm', 'to_qasm', 'cirq.qasm', 'QasmOutput']
LENIENT = ('sxdg',)


def export(cirq, circuit, order, api, version, precision):
    """Returns (text, None) or (None, exception)."""
    try:
        with warnings.catch_warnings():
            warnings.simplefilter('ignore')
            if api == 'to_qasm':
                return circuit.to_qasm(precision=precision, qubit_order=order, version=version), None
            if api == 'cirq.qasm':
                # no qubit order argument: the default (sorted) order; with the default configuration also without args
                if precision == 10 and version == '2.0':
                    return cirq.qasm(circuit), None
                return cirq.qasm(circuit, args=cirq.QasmArgs(precision=precision, version=version)), None
            return str(cirq.QasmOutput(circuit.all_operations(), tuple(order), precision=precision, version=version)), None
    except Exception as e:       # noqa
        return None, e


def draw_config(rng, qs):
    version = rng.choice(['2.0', '2.0', '3.0'])
    precision = rng.choice([10, 10, 10, 7, 5, 3])
    api = rng.choice(APIS)
    order = list(qs)
    r = rng.random()
    if api == 'cirq.qasm':
        order = sorted(qs)
    elif r < 0.3:
        order = list(reversed(order))
    elif r < 0.6:
        rng.shuffle(order)
    return dict(version=version, precision=precision, api=api, order=order)


def cfg_json(cfg):
    return {k: (v if k != 'order' else [q.x for q in v]) for k, v in cfg.items()}


REFUSALS = ('QASM is defined only for', 'QASM 2.0 does not support multiple conditions', 'Cannot output operation as QASM')


def classify_export_error(cirq, circuit, exc):
    """'refused' (an explicit statement that the operation has no QASM form) or a violation tag."""
    msg = str(exc)
    if isinstance(exc, NotImplementedError) and any(isinstance(c, cirq.BitMaskKeyCondition) for op in circuit.all_operations()
                                                    for c in getattr(op.untagged, 'classical_controls', ())):
        return 'refused'
    if isinstance(exc, ValueError) and any(m in msg for m in REFUSALS):
        return 'refused'
    if isinstance(exc, KeyError):
        top = {str(op.gate.key) for op in circuit.all_operations() if isinstance(op.gate, cirq.MeasurementGate)}
        if str(exc).strip("'\"") not in top and any(cirq.is_measurement(op) for op in circuit.all_operations()):
            return 'export-raises:KeyError:measurement-not-at-top-level'
    if isinstance(exc, TypeError):
        for op in circuit.all_operations():
            u = op.untagged
            if isinstance(u, cirq.ClassicallyControlledOperation) and u.classical_controls:
                sub = u.without_classical_controls()
                try:
                    q = cirq.qasm(sub, args=cirq.QasmArgs(qubit_id_map={q: 'q' for q in circuit.all_qubits()}), default=None)
                except Exception:       # noqa
                    q = ''
                if q is None:
                    return 'export-raises:TypeError:classically-controlled-op-without-qasm-form'
    return f'export-raises:{type(exc).__name__}'


# ======================================================================================================
# one program: export -> read -> the Gallina checks
# ======================================================================================================
def valid_id(s):
    return re.match(r'[a-z][a-zA-Z0-9_]*\Z', s) is not None


def analyse(cirq, circuit, order):
    """measurements [(key, axes, full invert mask)], controlled ops [(conditions, sub-operation)] in operation order."""
    axis_of = {q: i for i, q in enumerate(order)}
    meas, ctrls, other = [], [], 0
    for op in circuit.all_operations():
        u = op.untagged
        if isinstance(u, cirq.ClassicallyControlledOperation) and u.classical_controls:
            ctrls.append((list(u.classical_controls), u.without_classical_controls(), len(meas)))
        elif isinstance(op.gate, cirq.MeasurementGate):
            meas.append((str(op.gate.key), [axis_of[q] for q in op.qubits], list(op.gate.full_invert_mask())))
        elif isinstance(op.gate, cirq.ResetChannel):
            other += 1
    return meas, ctrls, other


def cond_key(cirq, c):
    import sympy
    if isinstance(c, (cirq.KeyCondition, cirq.BitMaskKeyCondition)):
        return str(c.key)
    if isinstance(c, cirq.SympyCondition):
        syms = [s for s in c.expr.free_symbols if isinstance(s, sympy.Symbol)]
        if len(syms) == 1:
            return str(syms[0])
    raise opsem.Unsupported(f'condition {c!r}')


def standalone_body(cirq, sub, cfg):
    """The statements of an operation exported alone (same qubit order, version and precision): its QASM body.  When the
    operation is classically controlled, every one of these statements has to appear under the condition.  None when the
    operation alone cannot be exported or read."""
    text, exc = export(cirq, cirq.Circuit(sub), cfg['order'], 'QasmOutput', cfg['version'], cfg['precision'])
    if exc is not None:
        return None
    try:
        return read_qasm(text, lenient=LENIENT).stmts
    except (Malformed, Unsupported):
        return None


def same_stmt(a, b):
    if a[0] != b[0]:
        return False
    if a[0] == 'gate':
        return a[1] == b[1] and a[3] == b[3] and len(a[2]) == len(b[2]) and all(abs(x - y) <= 1e-12 for x, y in zip(a[2], b[2]))
    if a[0] == 'reset':
        return a[1] == b[1]
    return False


def partition_ifs(ifs, ctrls, bodies):
    """The conditional statements of the text against the classically controlled operations of the circuit, in order:
    operation j owns the next len(body_j) conditional statements (none for an empty body such as a global phase), each
    of them `if (<conditions>) <statement k of the body>`; the conditions themselves are compared as a conjunction by the
    caller (Cirq keeps them as a set, so a repeated condition may appear twice in the text).  Returns the groups or None."""
    pos, groups = 0, []
    for (conds, sub, nbefore), body in zip(ctrls, bodies):
        if body is None:
            return None
        grp = ifs[pos:pos + len(body)]
        if len(grp) != len(body) or any(not same_stmt(st[2], b) for st, b in zip(grp, body)):
            return None
        groups.append(grp)
        pos += len(body)
    return groups if pos == len(ifs) else None


def count_ifs(P):
    """(number of top-level `if` statements, is any `if` nested in another)"""
    ifs = [st for st in P.stmts if st[0] == 'if']
    return len(ifs), any(st[2][0] == 'if' for st in ifs)


def diagnose(cirq, circuit, cfg, P, text, malformed='', labels=()):
    """Names the feature of the input that explains a disagreement (signature of the finding)."""
    import sympy
    order = cfg['order']
    meas, ctrls, _ = analyse(cirq, circuit, order)
    keys = []
    for k, _, _ in meas:
        if k not in keys:
            keys.append(k)
    # conditional statements that do not cover exactly the bodies of the classically controlled operations
    bodies = [standalone_body(cirq, sub, cfg) for _, sub, _ in ctrls]
    if ctrls and all(b is not None for b in bodies):
        expected = sum(len(b) for b in bodies)
        empty = any(len(b) == 0 for b in bodies)
        if P is None:
            if empty and 'statement expected at the end of the text' in malformed:
                return 'if:empty-body:global-phase'
            if empty and 'found another `if`' in malformed:
                return 'if:empty-body:global-phase'
        else:
            nifs, nested = count_ifs(P)
            if empty and (nested or nifs > expected):
                return 'if:empty-body:global-phase'
            if nifs < expected and any(len(b) > 1 for b in bodies):
                return 'if:multi-statement-body'
    for conds, sub, nbefore in ctrls:
        for c in conds:
            if isinstance(c, cirq.SympyCondition) and isinstance(c.expr, sympy.Eq):
                k = cond_key(cirq, c)
                if not valid_id('m_' + k):
                    return 'cond:sympy-eq:register-name'
                sizes = [len(a) for kk, a, _ in meas[:nbefore] if kk == k]
                if sizes and sizes[-1] > 1:
                    return 'cond:sympy-eq:bit-order'
            if isinstance(c, (cirq.KeyCondition,)) and c.index != -1:
                return 'cond:index-ignored'
    for k in set(kk for kk, _, _ in meas):
        sizes = [len(a) for kk, a, _ in meas if kk == k]
        if len(set(sizes)) > 1:
            return 'registers:key-with-several-sizes'
    return None


def program_checks(cirq, circuit, cfg, text, ref=None):
    """Returns (P, [(label, gallina bool expr)], info) for a parsed text; raises Malformed / Unsupported / opsem.Unsupported."""
    order = cfg['order']
    P = read_qasm(text, lenient=LENIENT)
    n = len(order)
    meas, ctrls, resets = analyse(cirq, circuit, order)
    tol = tolerance(cfg['precision'], P.nparams)
    prog = program_term(P)
    out = []
    out.append(('layout:qubits', 'true' if P.nqubits == n else 'false'))
    if not meas and not ctrls and not resets:
        if ref is None:
            terms, _, _ = opsem.circuit_to_mops(cirq, circuit, order)
            # all MGate: strip to gop list
            sh = gates.nlist([2] * n)
            expr = (f'match qunitary FOps {n} {prog} with\n | Some u => fcll_close_phase {tol} u (unitary_tab FOps {sh} '
                    f'(flat_map (fun o => match o with MGate g => [rop_of FOps false g] | _ => [] end) {terms}))\n | None => false end')
        else:
            sh, ops = ref
            expr = (f'match qunitary FOps {n} {prog} with\n | Some u => fcll_close_phase {tol} u (circ_unitary FOps {sh} {ops})\n | None => false end')
        out.append(('unitary', ('true' if not P.cregs else 'false') + ' && ' + expr))
        return P, out, dict(tol=tol, nbits=0)
    # ---- (ii) registers and measure statements against the layout model ----
    keyid = opsem.KeyIds()
    ms = '[' + '; '.join(f'({keyid(k)}%nat, {gates.nlist(ax)}, {coq.blist(inv)})' for k, ax, inv in meas) + ']'
    stmts = []

    def walk(s):
        if s[0] == 'measure':
            stmts.append(s[1:])
        elif s[0] == 'if':
            walk(s[2])
    for s in P.stmts:
        walk(s)
    sizes = gates.nlist([c[1] for c in P.cregs])
    st = '[' + '; '.join(f'({q}%nat, {r}%nat, {b}%nat)' for q, r, b in stmts) + ']'
    out.append(('registers', f'layout_ok {ms} {sizes} {st}'))
    keys = list(keyid.ids)
    keys_in_order = list(keys)       # register r belongs to the r-th key in first-measurement order (layout model)
    names_ok = len(keys) == len(P.cregs)
    for k, (name, size, comment) in zip(keys, P.cregs):
        if valid_id('m_' + k):
            names_ok = names_ok and name == 'm_' + k
        else:
            names_ok = names_ok and re.match(r'm\d+\Z', name) is not None and comment == 'Measurement: ' + ' '.join(k.split('\n'))
    out.append(('registers:key-names', 'true' if names_ok else 'false'))
    # ---- (iii) conditions as truth tables over the register bits ----
    # A classically controlled operation runs as a whole iff its conditions hold: every statement of its QASM body (the
    # statements it exports alone; several for H**t, CCZ, CCY, multi-qubit identity, decomposed operations; none for a
    # global phase) carries the operation's condition, and each such condition is compared with the circuit's condition.
    # A key measured with different numbers of qubits has no Cirq semantics: every simulator refuses such a circuit
    # ('Measurement shape (2,) does not match (2, 2)').  For these circuits only what is well defined is judged: the
    # register declarations and measure statements (ii), the bodies of the conditional statements, and conditions on
    # other keys; conditions on such a key and the outcome statistics are not compared.
    widths = {}
    for k, ax, _ in meas:
        widths.setdefault(k, set()).add(len(ax))
    mixed = {k for k, w in widths.items() if len(w) > 1}
    kinds = []
    ifs = [s for s in P.stmts if s[0] == 'if']
    groups = partition_ifs(ifs, ctrls, [standalone_body(cirq, sub, cfg) for _, sub, _ in ctrls])
    if groups is None:
        out.append(('conditions:bodies', 'false'))
    else:
        for j, (grp, (conds, sub, nbefore)) in enumerate(zip(groups, ctrls)):
            seen = set()
            for s in grp:
                if tuple(s[1]) in seen:      # the same condition text on a later statement of the body
                    continue
                seen.add(tuple(s[1]))
                # the conditions of an operation are a conjunction (Cirq keeps them as a set): the operation runs iff all hold;
                # compared as one truth table over the histories (last three measurements) of every key involved
                if any(cond_key(cirq, c) in mixed for c in conds):
                    continue                 # no Cirq semantics to compare with (see `mixed` above)
                ks, regs = [], {}
                for c in conds:
                    k = cond_key(cirq, c)
                    if k in regs:
                        continue
                    lens = [len(a) for kk, a, _ in meas[:nbefore] if kk == k][-3:]
                    if not lens:
                        raise opsem.Unsupported('condition on a key that is not measured before')
                    if k not in keys_in_order:
                        raise opsem.Unsupported('condition on a key without a register')
                    regs[k] = keys_in_order.index(k)
                    ks.append(f'({keyid(k)}%nat, {regs[k]}%nat, {gates.nlist(lens)})')
                qcs = [f'(QCond {reg} {P.cregs[reg][1]} {val} {"true" if op == "==" else "false"})' for reg, op, val in s[1]]
                out.append((f'condition[{j}]', f'conds_same {opsem.cond_terms(cirq, conds, keyid)} [{"; ".join(qcs)}] [{"; ".join(ks)}]'))
        qargs = cirq.QasmArgs(version=cfg['version'], qubit_id_map={q: f'q[{i}]' for i, q in enumerate(order)})
        for grp, (conds, sub, nbefore) in zip(groups, ctrls):
            try:
                direct = cirq.qasm(sub, args=qargs, default=None) is not None
            except Exception:       # noqa
                direct = True
            kinds.append('empty (global phase)' if not grp else 'decomposed (no QASM form of its own)' if not direct else
                         'one statement' if len(grp) == 1 else 'several statements')
    # ---- (iv) outcome distribution and per-outcome states ----
    nbits = sum(len(a) for _, a, _ in meas)
    if nbits <= 5 and n <= 4 and not mixed:
        terms, _, _ = opsem.circuit_to_mops(cirq, circuit, order, keyid)
        sh = gates.nlist([2] * n)
        out.append(('distribution', f'ensembles_close {tol} {2 ** n} {nbits} (exec FOps {sh} {terms} (zero_state {n})) '
                                    f'(qexec FOps {sh} {prog} (zero_state {n}))'))
    return P, out, dict(tol=tol, nbits=nbits, bodies=kinds, mixed=bool(mixed))


class Batch:
    """Collects the Gallina checks of many programs, evaluates them in shards, reports per program."""

    def __init__(self, ctx, cirq):
        self.ctx, self.cirq = ctx, cirq
        self.items = []        # (program index, label, expr)
        self.programs = []

    def add(self, stream, circuit, cfg, fams, nontrivial, ref=None, sample=None, case=None, count=True, store=None, key=None):
        ctx, cirq = self.ctx, self.cirq
        cj = cfg_json(cfg)
        if store is None and case is not None and any(isinstance(o.g, FallbackG) for o in case.ops):
            store, key = dict(fallback_case=case_to_json(case)), [case.key(), cj]
        if store is None:         # `store`: what replay rebuilds the circuit from when it holds gates cirq.to_json cannot write
            key = [cirq.to_json(circuit), cj]
            rep = dict(circuit_json=cirq.to_json(circuit), config=cj)
        else:
            rep = dict(store, config=cj)
        desc = (f'{cfg["api"]}(version={cfg["version"]}, precision={cfg["precision"]}, qubit_order={cj["order"]}) of '
                + (' '.join(repr(circuit).split()) if store is None or case is None else describe_case(cirq, case)))[:700]
        text, exc = export(cirq, circuit, cfg['order'], cfg['api'], cfg['version'], cfg['precision'])
        if exc is None and any(q.dimension != 2 for q in circuit.all_qubits()):
            ctx.count(stream, key, True)
            ctx.disagree(f'correspondence:{stream}', 'qudit circuit exported', 'qudit:exported-as-qubit-program',
                         f'{desc}: the circuit acts on qudits of dimension {sorted({q.dimension for q in circuit.all_qubits()})} but is exported as a '
                         f'program on a qubit register with qubit gates: {" ".join(l for l in text.splitlines() if l and not l.startswith("//"))[:200]}',
                         dict(kind=stream, qasm=text, **rep))
            return 'qudit'
        if exc is not None:
            tag = classify_export_error(cirq, circuit, exc)
            ctx.count(stream, key, False)
            if tag == 'refused':
                r = ctx.cov.setdefault('refused_exports', {})
                why = (re.sub(r'[^A-Za-z .=]', '', str(exc).split(':')[0])[:60] or type(exc).__name__ + ' (BitMaskKeyCondition has no QASM form)')
                r[why] = r.get(why, 0) + 1
            if tag != 'refused':
                ctx.disagree(f'correspondence:{stream}', f'{type(exc).__name__}: {exc}', tag if ('controlled' in tag or 'top-level' in tag) else tag + ':' + '+'.join(fams),
                             f'{desc} raises {type(exc).__name__}: {str(exc)[:160]} (not an explicit refusal; every operation here has a unitary or is a measurement and can be decomposed)',
                             dict(kind=stream, **rep))
            return 'refused' if tag == 'refused' else 'raised'
        rep['qasm'] = text
        try:
            P, exprs, info = program_checks(cirq, circuit, cfg, text, ref)
        except Malformed as e:
            msg = str(e)
            ctx.count(stream, key, nontrivial)
            tag = msg.split('|')[1] if '|' in msg else (diagnose(cirq, circuit, cfg, None, text, malformed=msg) or 'malformed:' + '+'.join(fams))
            ctx.disagree(f'correspondence:{stream}', msg, tag, f'{desc}: the emitted text is not OpenQASM {cfg["version"]}: {msg.split("|")[0]}',
                         dict(kind=stream, **rep))
            return 'malformed'
        except Unsupported as e:
            ctx.mark_broken('reader:unsupported', f'{e}\n{text[:1500]}')
            return 'gap'
        except opsem.Unsupported as e:
            ctx.count(stream, key, False)
            return 'skipped'
        for name in sorted(set(P.undefined)):
            ctx.disagree(f'correspondence:{stream}', f'{name} is not in stdgates.inc', f'undefined-gate:{cfg["version"]}:{name}',
                         f'{desc}: gate {name!r} is not defined by the standard library of OpenQASM {cfg["version"]}', dict(kind=stream, **rep))
        if count:
            ctx.count(stream, key, nontrivial, sample=sample if sample is not None else
                      dict(circuit=' '.join(repr(circuit).split())[:300], config=cj, instructions=len(P.stmts), checks=[l for l, _ in exprs]))
        if info.get('mixed'):
            ctx.cov['keys_with_several_widths_layout_only'] = ctx.cov.get('keys_with_several_widths_layout_only', 0) + 1
        cb = ctx.cov.setdefault('conditional_bodies', {})
        for kind in info.get('bodies', ()):
            cb[kind] = cb.get(kind, 0) + 1
        idx = len(self.programs)
        self.programs.append(dict(stream=stream, desc=desc, rep=rep, fams=fams, circuit=circuit, cfg=cfg, P=P, text=text, tol=info['tol'], case=case))
        for label, expr in exprs:
            self.items.append((idx, label, expr))
        return 'ok'

    def failing(self, tag):
        ctx = self.ctx
        SH = 40
        shards = []
        for s0 in range(0, len(self.items), SH):
            part = self.items[s0:s0 + SH]
            text = PRE + 'Definition checks : list bool := [\n' + ';\n'.join('(' + c[2] + ')' for c in part) + '].\nEval vm_compute in failing (fun b => b) checks.\n'
            shards.append((f'c19_{tag}_{ctx.seed}_{s0 // SH}', text))
        outs = coq.coq_eval_many(shards, workers=12)
        failing = {}
        for si, out in enumerate(outs):
            for idx in coq.parse_nat_list(coq.parse_evals(out)[0]):
                pi, label, _ = self.items[si * SH + idx]
                failing.setdefault(pi, []).append(label)
        return failing

    def shrink(self, failing):
        """For a failing unitary comparison of a generated case: which single operation, exported alone on the same
        qubits in the same order, already fails?  Returns {program index: tag}."""
        sub = Batch(self.ctx, self.cirq)
        owner = []
        for pi, labels in failing.items():
            pr = self.programs[pi]
            if pr['case'] is None or 'unitary' not in labels or len(pr['case'].ops) < 2:
                continue
            case = pr['case']
            for o in case.ops:
                one = circuits.Case(case.dims, [o], ['E'])
                circuit, qs = one.circuit(self.cirq)
                cfg = dict(pr['cfg'])
                order_idx = [q.x for q in cfg['order']]
                st = sub.add('shrink', circuit, cfg, [o.g.fam], True, ref=(one.coq_shape(order_idx), one.coq_ops(order_idx)), case=one, count=False)
                if st == 'ok':
                    owner.append((len(sub.programs) - 1, pi, o))
        if not sub.items:
            return {}
        bad = sub.failing('shrink')
        tags = {}
        for si, pi, o in owner:
            if si in bad and pi not in tags:
                tags[pi] = 'unitary:op:' + op_tag(self.cirq, o, sub.programs[si])
                self.programs[pi]['min'] = sub.programs[si]
        return tags

    def evaluate(self, tag):
        ctx = self.ctx
        failing = self.failing(tag)
        shrunk = self.shrink(failing)
        for pi, labels in sorted(failing.items()):
            pr = self.programs[pi]
            diag = diagnose(self.cirq, pr['circuit'], pr['cfg'], pr['P'], pr['text'], labels=labels)
            if pr['case'] is not None and len(pr['case'].ops) == 1 and 'unitary' in labels:
                diag = diag or 'unitary:op:' + op_tag(self.cirq, pr['case'].ops[0], pr)
            diag = diag or shrunk.get(pi)
            sig = diag or (labels[0].split('[')[0] + ':' + '+'.join(pr['fams']))
            what = {'unitary': f'the parsed text does not perform the circuit unitary up to global phase within {float.fromhex(pr["tol"].strip("()")):.3g}',
                    'distribution': 'the parsed program and the circuit have different outcome distributions / per-outcome states',
                    'registers': 'registers or measure statements differ from one bit per measured qubit in operation order',
                    'registers:key-names': 'the register names do not correspond to the measurement keys',
                    'conditions:bodies': 'the conditional statements of the text are not, in order, the statements of each classically controlled operation\'s QASM body, every one under that operation\'s conditions (a statement of a body left unconditional, a condition without a body, or a different body)',
                    'layout:qubits': 'the declared quantum register does not have one qubit per circuit qubit'}
            detail = '; '.join(what.get(l, f'{l} of the text differs from the circuit condition (as a predicate on the measured bits)') for l in labels)
            m = pr.get('min')
            rep = dict(pr['rep'])
            desc = pr['desc']
            if m is not None:       # report the minimised input
                rep = dict(m['rep'], shrunk_from=pr['rep'].get('circuit_json', pr['rep'].get('fallback_case')))
                desc = m['desc']
            ctx.disagree(f'correspondence:{pr["stream"]}', f'{labels}', sig, f'{desc}: {detail}' + (f' [{diag}]' if diag else ''),
                         dict(kind=pr['stream'], failing=labels, **rep))
        return failing


def op_tag(cirq, o, pr):
    """family of the failing single operation, refined by the feature of the input that selects a code path"""
    g = o.g
    tag = g.fam
    if g.fam == 'Diagonal' and len(g.shape) == 3 and g.p.get('fixed'):
        qs = {q.x: q for q in pr['circuit'].all_qubits()}
        a, b, c = [cirq.LineQubit(w) for w in o.wires]
        if not b.is_adjacent(a) or not b.is_adjacent(c):
            tag += ':ThreeQubitDiagonalGate:non-adjacent-qubits'
    if g.fam == 'Ctrl':
        tag += ':' + g.p['sub'].fam
    return tag


QASM_FAMILIES = ['XPow', 'YPow', 'ZPow', 'HPow', 'CZPow', 'CXPow', 'CYPow', 'SwapPow', 'ISwapPow', 'XXPow', 'YYPow', 'ZZPow',
                 'CCZPow', 'CCXPow', 'CCYPow', 'PI', 'Rx', 'Ry', 'Rz', 'MS', 'FSim', 'PhasedFSim', 'PhasedX', 'PhasedXZ',
                 'PhasedISwap', 'Givens', 'CSwap', 'GlobalPhase', 'Diagonal', 'QFT', 'PhaseGrad', 'Matrix', 'Matrix', 'Identity', 'Perm',
                 'Ctrl']


def run(ctx):
    cirq = env.import_cirq()
    ctx.rule = ('programs = (generated circuit over the gate vocabulary incl. 1-3 qubit MatrixGates, controlled gates, every family '
                'with a _qasm_ rule at its special and at generic exponents; circuits with measurements, invert masks, repeated and '
                'non-identifier keys, classical controls of every condition kind on operations whose QASM body has one statement, several (H**t, CCZ, CCY, '
                'multi-qubit identity, operations without a QASM form that are decomposed) or none (global phase), resets) x (API: Circuit.to_qasm / cirq.qasm / QasmOutput) x '
                '(version 2.0 / 3.0) x (precision 3,5,7,10) x (qubit order: given, reversed, shuffled); fallback: one- and two-qubit operations known by their matrix only '
                '(a gate class defining nothing but _unitary_; QasmTwoQubitGate.from_matrix placed directly) whose matrix is a tensor product of one-qubit unitaries, '
                'a special point of the Weyl chamber (CNOT / iSWAP / SWAP classes and roots, one or two vanishing coefficients, nearly separable, boundary) bare or dressed with '
                'local unitaries, or generic - a fixed list for every seed plus random ones, alone and between neighbours sharing the qubits; non-trivial = >= 2 operations '
                'sharing a qubit and >= 1 non-diagonal gate (unitary streams), >= 1 measurement and >= 1 gate (measurement streams); '
                'exports that refuse with an explicit "no QASM form" error are counted as trivial; for a circuit that measures one key with different widths (no Cirq simulator runs it) only registers, measure statements and conditional bodies are judged; distinct by canonical (circuit, configuration)')
    ctx.assumptions += ['transcription of qelib1.inc / stdgates.inc in coq/Vendor/Qasm.v', 'the Python reader of the emitted subset',
                        'docstring transcription in coq/Gates/GateSpecs.v', 'float tolerance 10^(1-precision) * max(1, angles/10) + 1e-9',
                        'an undefined mnemonic of 3.0 (sxdg) is reported and then read with its qelib1.inc meaning so that the rest of the program is still compared']
    err = tables.regenerate(['EigenTables', 'QasmMnemonics'])
    for name, e in err.items():
        if e:
            ctx.mark_broken('table:' + name, e)
    res = coq.compile_props('C19')
    if not res['ok']:            # the build tree is shared with other checks: one retry before believing a failure
        import time
        time.sleep(5)
        res = coq.compile_props('C19')
    ctx.set_obligations(res)
    k = 1 if ctx.tier == 'quick' else 10
    b = Batch(ctx, cirq)
    rules_stream(ctx, cirq, b, k)
    unitary_stream(ctx, cirq, b, 260 * k)
    wrappers_stream(ctx, cirq, b, 60 * k)
    directed_stream(ctx, cirq, b)
    fallback_stream(ctx, cirq, b, k)
    measure_stream(ctx, cirq, b, 320 * k)
    b.evaluate('all')
    ctx.cov['programs'] = len(b.programs)


def unitary_stream(ctx, cirq, b, n):
    rng = ctx.rng
    for _ in range(n):
        case = circuits.random_case(rng, max_wires=4, max_ops=7, qudits=False, families=QASM_FAMILIES)
        if any(d != 2 for o in case.ops for d in o.g.shape) or not case.ops:
            continue
        circuit, qs = case.circuit(cirq)
        cfg = draw_config(rng, qs)
        order_idx = [q.x for q in cfg['order']]
        fams = sorted({o.g.fam for o in case.ops})
        b.add('unitary', circuit, cfg, fams, case.nontrivial(), ref=(case.coq_shape(order_idx), case.coq_ops(order_idx)), case=case)


def wrappers_stream(ctx, cirq, b, n):
    """The same generated cases seen through wrappers: tags, ParallelGate, CircuitOperation (with repetitions); the reference is
    the unrolled list of documented gate matrices."""
    rng = ctx.rng
    for _ in range(n):
        case = circuits.random_case(rng, max_wires=4, max_ops=6, qudits=False, families=QASM_FAMILIES, min_wires=2)
        if any(d != 2 for o in case.ops for d in o.g.shape) or len(case.ops) < 2:
            continue
        qs = case.qids(cirq)
        i = rng.randrange(len(case.ops))
        j = rng.randint(i + 1, len(case.ops))
        reps = rng.choice([1, 2])
        mk = lambda o: o.g.cirq_gate(cirq).on(*[qs[w] for w in o.wires])
        ops = [mk(o).with_tags('t') if rng.random() < 0.3 else mk(o) for o in case.ops[:i]]
        ops.append(cirq.CircuitOperation(cirq.FrozenCircuit(mk(o) for o in case.ops[i:j]), repetitions=reps))
        ops += [mk(o) for o in case.ops[j:]]
        ref_ops = case.ops[:i] + case.ops[i:j] * reps + case.ops[j:]
        par = None
        if rng.random() < 0.4:
            g = gates.draw(rng, rng.choice(['XPow', 'HPow', 'ZPow', 'PhasedX']))
            ws = rng.sample(range(len(case.dims)), 2)
            ops.append(cirq.ParallelGate(g.cirq_gate(cirq), 2).on(*[qs[w] for w in ws]))
            ref_ops = ref_ops + [circuits.Op(g, [ws[0]]), circuits.Op(g, [ws[1]])]
        circuit = cirq.Circuit(ops)
        idle = [q for q in qs if q not in circuit.all_qubits()]
        if idle:
            circuit.append(cirq.Moment(cirq.I(q) for q in idle))
        ref = circuits.Case(case.dims, ref_ops, ['E'] * len(ref_ops))
        cfg = draw_config(rng, qs)
        order_idx = [q.x for q in cfg['order']]
        b.add('wrappers', circuit, cfg, sorted({o.g.fam for o in ref_ops}), ref.nontrivial(), ref=(ref.coq_shape(order_idx), ref.coq_ops(order_idx)))


def rules_stream(ctx, cirq, b, k):
    """Every family with a `_qasm_` rule, at each special exponent / shift of its guard and at generic ones, alone on shuffled qubits."""
    rng = ctx.rng
    G = gates.G
    rows = []
    for fam in ['XPow', 'YPow', 'ZPow', 'HPow']:
        for e in [1.0, 0.5, -0.5, 0.25, -0.25, 0.0, -1.0, 2.0, 3.0, 1.5, round(rng.uniform(-2, 2), 4), round(rng.uniform(-9, 9), 3)]:
            for s in [0.0, -0.5, 0.25]:
                rows.append(G(fam, dict(e=e, s=s), (2,)))
    for fam in ['CZPow', 'CXPow', 'CYPow', 'SwapPow']:
        for e in [1.0, -1.0, 3.0, 0.5, 2.0, 0.0, round(rng.uniform(-2, 2), 4)]:
            for s in [0.0, 0.5]:
                rows.append(G(fam, dict(e=e, s=s), (2, 2)))
    for fam in ['CCZPow', 'CCXPow', 'CCYPow']:
        for e in [1.0, -1.0, 0.5, round(rng.uniform(-2, 2), 4)]:
            for s in [0.0, 0.25]:
                rows.append(G(fam, dict(e=e, s=s), (2, 2, 2)))
    rows += [G('CSwap', {}, (2, 2, 2)), G('Identity', {}, (2,)), G('Identity', {}, (2, 2)), G('Identity', {}, (2, 2, 2))]
    for fam in ['Rx', 'Ry', 'Rz']:
        for a in [0.0, math.pi / 2, math.pi, -math.pi / 4, round(rng.uniform(-7, 7), 4)]:
            rows.append(G(fam, dict(rads=a), (2,)))
    for e in [0.5, -0.5, 1.5, 0.5 + 1e-12, 1.0, 0.0, 2.5, round(rng.uniform(-2, 2), 4)]:
        for p in [0.0, 0.25, round(rng.uniform(-1, 1), 4)]:
            rows.append(G('PhasedX', dict(p=p, e=e, s=rng.choice([0.0, -0.5])), (2,)))
    for _ in range(6 * k):
        rows.append(gates.draw(rng, 'PhasedXZ'))
        rows.append(G('Matrix', dict(m=gates.random_unitary(rng, 2)), (2,)))
        rows.append(G('Matrix', dict(m=gates.random_unitary(rng, 4)), (2, 2)))
    rows.append(G('Matrix', dict(m=gates.random_unitary(rng, 8)), (2, 2, 2)))
    # ControlledOperation rules: one qubit control on X, Y, Z, H (cx, cy, cz, ch) and what falls outside the guard
    for sub in ['XPow', 'YPow', 'ZPow', 'HPow']:
        for e, s, cv in [(1.0, 0.0, [1]), (1.0, 0.0, [0]), (0.5, 0.0, [1]), (1.0, 0.5, [1])]:
            rows.append(G('Ctrl', dict(sub=G(sub, dict(e=e, s=s), (2,)), cdims=[2], cv=('pos', [cv])), (2, 2)))
    for g in rows:
        nq = max(len(g.shape), 1) + rng.choice([0, 1])
        wires = rng.sample(range(nq), len(g.shape))
        case = circuits.Case([2] * nq, [circuits.Op(g, wires)], ['E'])
        circuit, qs = case.circuit(cirq)
        cfg = draw_config(rng, qs)
        cfg['precision'] = 10
        order_idx = [q.x for q in cfg['order']]
        b.add('rules', circuit, cfg, [g.fam], True, ref=(case.coq_shape(order_idx), case.coq_ops(order_idx)), case=case)


# ======================================================================================================
# operations the exporter knows only through their matrix (the numeric fallbacks of QasmOutput)
# ======================================================================================================
_FALLBACK_CLASSES = {}


def fallback_classes(cirq):
    """Gate classes that reach the matrix fallbacks: a user-defined gate with nothing but `_unitary_` (one or two qubits), and
    QasmTwoQubitGate.from_matrix(m) placed in the circuit directly."""
    if cirq in _FALLBACK_CLASSES:
        return _FALLBACK_CLASSES[cirq]
    from cirq.circuits.qasm_output import QasmTwoQubitGate

    class UnitaryOnlyGate(cirq.Gate):
        """No `_qasm_`, no `_decompose_`: QasmOutput has only the matrix to go by."""

        def __init__(self, matrix, label):
            self._matrix, self._label = np.array(matrix, dtype=complex), label

        def _num_qubits_(self):
            return {2: 1, 4: 2}[self._matrix.shape[0]]

        def _unitary_(self):
            return self._matrix

        def __repr__(self):
            return f'UnitaryOnlyGate({self._label})'

    def direct(matrix, label):
        g = QasmTwoQubitGate.from_matrix(np.array(matrix, dtype=complex))
        g._vf_label = label
        return g
    _FALLBACK_CLASSES[cirq] = (UnitaryOnlyGate, direct, QasmTwoQubitGate)
    return _FALLBACK_CLASSES[cirq]


class FallbackG(gates.G):
    """A gate of the vocabulary given by its matrix alone.  form: 'unitary_only' (user-defined gate class with `_unitary_`),
    'from_matrix' (QasmTwoQubitGate.from_matrix used directly).  The reference is the matrix itself (GMat)."""

    def __init__(self, form, m, label):
        m = np.array(m, dtype=complex)
        super().__init__({'unitary_only': 'UnitaryOnly', 'from_matrix': 'QasmTwoQubitGate.from_matrix'}[form] + ('' if m.shape[0] == 4 else '1q'),
                         dict(m=m, form=form, label=label), (2,) * {2: 1, 4: 2}[m.shape[0]])

    def cirq_gate(self, cirq, mods=None):
        uo, direct, _ = fallback_classes(cirq)
        return uo(self.p['m'], self.p['label']) if self.p['form'] == 'unitary_only' else direct(self.p['m'], self.p['label'])

    def coq(self):
        return gates.G('Matrix', dict(m=self.p['m']), self.shape).coq()

    def to_json(self):
        return dict(form=self.p['form'], label=self.p['label'], m=[[[float(x.real), float(x.imag)] for x in row] for row in self.p['m']])

    @staticmethod
    def from_json(d):
        return FallbackG(d['form'], [[complex(a, b) for a, b in row] for row in d['m']], d['label'])


def describe_case(cirq, case):
    """The circuit of a case with matrix-only gates, written so that it can be typed in again."""
    def one(o):
        ws = ', '.join(f'q{w}' for w in o.wires)
        if isinstance(o.g, FallbackG):
            head = 'UnitaryOnlyGate' if o.g.p['form'] == 'unitary_only' else 'QasmTwoQubitGate.from_matrix'
            return f'{head}({o.g.p["label"]}).on({ws})'
        return f'{o.g.cirq_gate(cirq)!r}.on({ws})'
    return 'cirq.Circuit(' + ', '.join(one(o) for o in case.ops) + f') on LineQubits q0..q{len(case.dims) - 1} (UnitaryOnlyGate: a gate class defining only _unitary_)'


def case_to_json(case):
    return dict(dims=case.dims, strategies=case.strategies,
                ops=[dict(wires=o.wires, **(dict(fallback=o.g.to_json()) if isinstance(o.g, FallbackG) else dict(fam=o.g.fam, p=o.g.p, shape=list(o.g.shape)))) for o in case.ops])


def case_from_json(d):
    return circuits.Case(d['dims'], [circuits.Op(FallbackG.from_json(o['fallback']) if 'fallback' in o else gates.G(o['fam'], o['p'], o['shape']), o['wires'])
                                     for o in d['ops']], d['strategies'])


def kak_interaction_matrix(x, y, z):
    """exp(i (x XX + y YY + z ZZ)) = prod_P (cos c_P + i sin c_P P(x)P)  (the three terms commute)."""
    X, Y, Z = np.array([[0, 1], [1, 0]], dtype=complex), np.array([[0, -1j], [1j, 0]]), np.diag([1, -1]).astype(complex)
    out = np.eye(4, dtype=complex)
    for c, P in ((x, X), (y, Y), (z, Z)):
        out = out @ (math.cos(c) * np.eye(4) + 1j * math.sin(c) * np.kron(P, P))
    return out


def mat_label(m):
    return '[' + ', '.join('[' + ', '.join(f'{complex(x):.4g}' for x in row) + ']' for row in np.asarray(m)) + ']'


def fallback_matrices(cirq, rng):
    """(label, 4x4 unitary, class) for the two-qubit fallback.  A fixed part, the same for every VERIF_SEED: tensor products of
    one-qubit unitaries (KAK interaction 0) whose factors do / do not commute with what a decomposition may put before and after;
    special points of the Weyl chamber (CNOT, iSWAP, SWAP classes, their roots, one and two vanishing coefficients, nearly
    separable, the chamber's boundary) bare and dressed with local unitaries on both sides; then a random part."""
    U = lambda g: np.array(cirq.unitary(g))
    I2 = np.eye(2, dtype=complex)
    H, S, T, X, Y, Z = U(cirq.H), U(cirq.S), U(cirq.T), U(cirq.X), U(cirq.Y), U(cirq.Z)
    sx, y4, z3 = U(cirq.X ** 0.5), U(cirq.Y ** 0.25), U(cirq.Z ** 0.3)
    out = []
    prod = [('H', H, 'S', S), ('S', S, 'H', H), ('H', H, 'H', H), ('I', I2, 'I', I2), ('X', X, 'I', I2), ('I', I2, 'Z', Z), ('Y', Y, 'T', T),
            ('X**0.5 @ T', sx @ T, 'Y**0.25 @ Z**0.3', y4 @ z3), ('H @ T @ H', H @ T @ H, 'S @ H', S @ H), ('T', T, 'Z**0.3', z3)]
    for la, a, lb, b_ in prod:
        out.append((f'np.kron({la}, {lb})', np.kron(a, b_), 'product'))
    out.append(('1j * np.kron(H, S)', 1j * np.kron(H, S), 'product'))
    out.append(('exp(0.7j) * np.kron(X**0.5, Y**0.25)', cmath.exp(0.7j) * np.kron(sx, y4), 'product'))
    for _ in range(4):
        a, b_ = gates.random_unitary(rng, 2), gates.random_unitary(rng, 2)
        ph = cmath.exp(1j * rng.uniform(0, 2 * math.pi)) if rng.random() < 0.5 else 1.0
        out.append((f'{complex(ph):.4g} * np.kron({mat_label(a)}, {mat_label(b_)})', ph * np.kron(a, b_), 'product'))
    q = math.pi / 4
    weyl = [('CNOT class', (q, 0, 0)), ('iSWAP class', (q, q, 0)), ('SWAP class', (q, q, q)), ('SWAP class, z < 0', (q, q, -q)),
            ('sqrt-CNOT class', (q / 2, 0, 0)), ('sqrt-iSWAP class', (q / 2, q / 2, 0)), ('sqrt-SWAP class', (q / 2, q / 2, q / 2)),
            ('one coefficient', (0.3, 0, 0)), ('two coefficients', (0.5, 0.2, 0)), ('two equal coefficients', (0.4, 0.4, 0)),
            ('chamber boundary x = pi/4', (q, 0.3, -0.1)), ('nearly separable 1e-4', (1e-4, 0, 0)), ('nearly separable 1e-7', (1e-7, 1e-7, 0)),
            ('generic', (0.6, 0.35, -0.15))]
    for name, (x, y, z) in weyl:
        core = kak_interaction_matrix(x, y, z)
        out.append((f'exp(i({x:.4g} XX + {y:.4g} YY + {z:.4g} ZZ)) [{name}]', core, 'weyl'))
        out.append((f'np.kron(H, S) @ exp(i({x:.4g} XX + {y:.4g} YY + {z:.4g} ZZ)) @ np.kron(T, X**0.5) [{name}, dressed]',
                    np.kron(H, S) @ core @ np.kron(T, sx), 'weyl'))
    for g, name in ((cirq.CNOT, 'CNOT'), (cirq.CZ, 'CZ'), (cirq.SWAP, 'SWAP'), (cirq.ISWAP, 'ISWAP'), (cirq.CZ ** 0.5, 'CZ**0.5'), (cirq.SWAP ** 0.5, 'SWAP**0.5')):
        out.append((f'cirq.unitary(cirq.{name})', U(g), 'weyl'))
    for _ in range(3):
        x, y, z = sorted([rng.uniform(0, q), rng.uniform(0, q), rng.uniform(0, q)], reverse=True)
        if rng.random() < 0.5:
            z = 0.0
        a, b_, c, d = [gates.random_unitary(rng, 2) for _ in range(4)]
        out.append((f'np.kron({mat_label(a)}, {mat_label(b_)}) @ exp(i({x:.4g} XX + {y:.4g} YY + {z:.4g} ZZ)) @ np.kron({mat_label(c)}, {mat_label(d)})',
                    np.kron(a, b_) @ kak_interaction_matrix(x, y, z) @ np.kron(c, d), 'weyl'))
    for _ in range(3):
        m = gates.random_unitary(rng, 4)
        out.append((mat_label(m), m, 'generic'))
    return out


def fallback_stream(ctx, cirq, b, k):
    """Two-qubit (and one-qubit) operations that reach the matrix fallbacks of the exporter, in both forms, alone and between
    neighbours that share their qubits, on given / reversed qubits, in every language version; the reference is the matrix."""
    rng = ctx.rng
    G = gates.G
    mats = fallback_matrices(cirq, rng)
    H1 = G('HPow', dict(e=1.0, s=0.0), (2,))
    cases = []
    for i, (label, m, cls) in enumerate(mats):
        for form in ('unitary_only', 'from_matrix'):
            g = FallbackG(form, m, label)
            # alone, on the qubits as given or reversed
            wires = [0, 1] if (i + (form == 'from_matrix')) % 2 == 0 else [1, 0]
            cases.append((circuits.Case([2, 2], [circuits.Op(g, wires)], ['E']), dict(version='2.0' if i % 3 else '3.0', precision=10 if i % 2 else 7), cls))
        # between neighbours sharing its qubits, three qubits, shuffled register order
        g = FallbackG(['unitary_only', 'from_matrix'][i % 2], m, label)
        a, c = rng.sample(range(3), 2)
        nb = [circuits.Op(H1, [a]), circuits.Op(G('CXPow', dict(e=1.0, s=0.0), (2, 2)), [a, 3 - a - c]), circuits.Op(g, [c, a]),
              circuits.Op(G(rng.choice(['CZPow', 'CXPow']), dict(e=rng.choice([1.0, 0.3]), s=0.0), (2, 2)), [a, c]), circuits.Op(G('YPow', dict(e=0.25, s=0.0), (2,)), [c])]
        cases.append((circuits.Case([2, 2, 2], nb, ['E'] * len(nb)), dict(version=rng.choice(['2.0', '3.0']), precision=10), cls))
    # one-qubit operations known by their matrix only (QasmUGate.from_matrix): special and random
    U = lambda g_: np.array(cirq.unitary(g_))
    ones = [('H', U(cirq.H)), ('S', U(cirq.S)), ('I', np.eye(2)), ('X', U(cirq.X)), ('-1j * Y', -1j * U(cirq.Y)), ('X**0.5 @ T', U(cirq.X ** 0.5) @ U(cirq.T)),
            ('Z**0.3', U(cirq.Z ** 0.3))] + [(None, gates.random_unitary(rng, 2)) for _ in range(3 * k)]
    for label, m in ones:
        g = FallbackG('unitary_only', m, label or mat_label(m))
        cases.append((circuits.Case([2, 2], [circuits.Op(H1, [0]), circuits.Op(g, [0]), circuits.Op(G('CXPow', dict(e=1.0, s=0.0), (2, 2)), [0, 1])], ['E'] * 3),
                      dict(version=rng.choice(['2.0', '3.0']), precision=10), 'one-qubit'))
    # random part: products and special coefficients again with fresh local unitaries, any configuration
    for _ in range(24 * k):
        r = rng.random()
        locs = [gates.random_unitary(rng, 2) for _ in range(4)]
        if r < 0.5:
            m, cls = np.kron(locs[0], locs[1]), 'product'
            label = f'np.kron({mat_label(locs[0])}, {mat_label(locs[1])})'
        else:
            q = math.pi / 4
            x, y, z = rng.choice([(0.0, 0.0, 0.0), (q, 0, 0), (q, q, 0), (q, q, q), (rng.uniform(0, q), 0, 0), (q, rng.uniform(0, q), 0),
                                  tuple(sorted([rng.uniform(0, q) for _ in range(3)], reverse=True))])
            m, cls = np.kron(locs[0], locs[1]) @ kak_interaction_matrix(x, y, z) @ np.kron(locs[2], locs[3]), 'weyl'
            label = f'np.kron({mat_label(locs[0])}, {mat_label(locs[1])}) @ exp(i({x:.4g} XX + {y:.4g} YY + {z:.4g} ZZ)) @ np.kron({mat_label(locs[2])}, {mat_label(locs[3])})'
        g = FallbackG(rng.choice(['unitary_only', 'from_matrix']), m, label)
        n = rng.choice([2, 2, 3])
        ops = []
        for _ in range(rng.randint(0, 2)):
            ops.append(circuits.Op(gates.draw(rng, rng.choice(['XPow', 'HPow', 'ZPow'])), [rng.randrange(n)]))
        ops.append(circuits.Op(g, rng.sample(range(n), 2)))
        for _ in range(rng.randint(0, 2)):
            ops.append(circuits.Op(gates.draw(rng, rng.choice(['CZPow', 'CXPow', 'SwapPow'])), rng.sample(range(n), 2)))
        cases.append((circuits.Case([2] * n, ops, ['E'] * len(ops)), None, cls))
    for case, fixed, cls in cases:
        circuit, qs = case.circuit(cirq)
        cfg = draw_config(rng, qs)
        if fixed is not None:
            cfg.update(fixed)
            if cfg['api'] == 'cirq.qasm':
                cfg['api'] = 'to_qasm'
        order_idx = [q.x for q in cfg['order']]
        fams = sorted({o.g.fam for o in case.ops})
        b.add('fallback', circuit, cfg, fams, True, ref=(case.coq_shape(order_idx), case.coq_ops(order_idx)), case=case,
              store=dict(fallback_case=case_to_json(case)), key=[case.key(), cfg_json(cfg)])
        ctx.cov.setdefault('fallback_matrix_classes', {})
        ctx.cov['fallback_matrix_classes'][cls] = ctx.cov['fallback_matrix_classes'].get(cls, 0) + 1



def directed_circuits(cirq):
    """Hand-picked circuits with measurements and classical control (each is also reachable by the generator)."""
    import sympy
    q = cirq.LineQubit.range(4)
    a = sympy.Symbol('a')
    xy = sympy.Symbol('x y')
    K = cirq.MeasurementKey
    return [
        cirq.Circuit(cirq.H(q[0]), cirq.measure(q[0], key='a'), cirq.X(q[1]).with_classical_controls('a'), cirq.measure(q[1], key='b')),
        cirq.Circuit(cirq.H(q[0]), cirq.X(q[1]) ** 0.5, cirq.measure(q[0], q[1], key='a', invert_mask=(True, False)),
                     cirq.measure(q[2], key='x y'), cirq.X(q[3]).with_classical_controls('x y')),
        cirq.Circuit(cirq.H(q[0]), cirq.measure(q[0], key='a'), (cirq.H(q[1]) ** 0.5).with_classical_controls('a'), cirq.X(q[2])),
        cirq.Circuit(cirq.H(q[0]), cirq.measure(q[0], key='a'), (cirq.SWAP(q[1], q[2]) ** 0.5).with_classical_controls('a')),
        cirq.Circuit(cirq.H(q[0]), cirq.measure(q[0], key='a'), cirq.global_phase_operation(1j).with_classical_controls('a'), cirq.X(q[2])),
        cirq.Circuit(cirq.H(q[0]), cirq.H(q[1]), cirq.measure(q[0], q[1], key='a'), cirq.X(q[2]).with_classical_controls(sympy.Eq(a, 1))),
        cirq.Circuit(cirq.H(q[0]), cirq.H(q[1]), cirq.measure(q[0], q[1], key='a'), cirq.X(q[2]).with_classical_controls(sympy.Eq(a, 3))),
        cirq.Circuit(cirq.H(q[0]), cirq.measure(q[0], key='x y'), cirq.X(q[2]).with_classical_controls(sympy.Eq(xy, 1))),
        cirq.Circuit(cirq.H(q[0]), cirq.measure(q[0], key='a'), cirq.X(q[0]), cirq.measure(q[0], key='a'),
                     cirq.X(q[1]).with_classical_controls(cirq.KeyCondition(K('a'), index=0))),
        cirq.Circuit(cirq.H(q[0]), cirq.measure(q[0], key='a'), cirq.reset(q[0]), cirq.Y(q[1]).with_classical_controls('a'), cirq.measure(q[0], q[1], key='b')),
        cirq.Circuit(cirq.H(q[0]), cirq.H(q[1]), cirq.measure(q[0], key='a'), cirq.measure(q[1], key='b'),
                     cirq.X(q[2]).with_classical_controls('a', 'b'), cirq.measure(q[2], key='c')),
        cirq.Circuit(cirq.H(q[0]), cirq.measure(q[0], key='a'), cirq.measure(q[0], q[1], key='a')),
        cirq.Circuit(cirq.H(q[0]), cirq.measure(q[0], q[1], key='a'), cirq.measure(q[1], key='a')),
        # classically controlled operations whose QASM body has several statements, none, or comes from a decomposition
        cirq.Circuit(cirq.H(q[0]), cirq.measure(q[0], key='a'), cirq.CCZ(q[1], q[2], q[3]).with_classical_controls('a'), cirq.H(q[3])),
        cirq.Circuit(cirq.H(q[0]), cirq.H(q[1]), cirq.H(q[2]), cirq.measure(q[0], key='a'), cirq.CCYPowGate().on(q[1], q[2], q[3]).with_classical_controls('a')),
        cirq.Circuit(cirq.X(q[0]) ** 0.5, cirq.measure(q[0], key='x y'), cirq.IdentityGate(2).on(q[1], q[2]).with_classical_controls('x y'),
                     (cirq.H(q[1]) ** -0.3).with_classical_controls('x y'), cirq.Y(q[2]) ** 0.5),
        cirq.Circuit(cirq.H(q[0]), cirq.H(q[1]), cirq.measure(q[0], key='a'), cirq.measure(q[1], key='b'),
                     (cirq.H(q[2]) ** 0.5).with_classical_controls('a', 'b'), cirq.measure(q[2], key='c')),
        cirq.Circuit(cirq.H(q[0]), cirq.measure(q[0], key='a'), cirq.X(q[1]).with_classical_controls('a'),
                     cirq.global_phase_operation(-1).with_classical_controls('a'), cirq.Z(q[1]).with_classical_controls('a'), cirq.H(q[1])),
        cirq.Circuit(cirq.H(q[0]), cirq.measure(q[0], key='a'), cirq.H(q[1]), cirq.global_phase_operation(1j).with_classical_controls('a')),
        cirq.Circuit(cirq.H(q[0]), cirq.measure(q[0], key='a'), cirq.H(q[1]), cirq.ISWAP(q[1], q[2]).with_classical_controls('a')),
        cirq.Circuit(cirq.H(q[0]), cirq.measure(q[0], key='a'), cirq.H(q[1]), cirq.FSimGate(0.3, 0.7).on(q[1], q[2]).with_classical_controls('a')),
        cirq.Circuit(cirq.H(q[0]), cirq.measure(q[0], key='a'), (cirq.CZ(q[1], q[2]) ** 0.5).with_classical_controls('a')),
        cirq.Circuit(cirq.H(q[0]), cirq.measure(q[0], key='a'), cirq.H(q[1]), (cirq.CCZ(q[1], q[2], q[3]) ** 0.5).with_classical_controls('a')),
        # X**-0.5 (sxdg is a gate of qelib1.inc only), alone and inside the KAK fallback of a two-qubit matrix
        cirq.Circuit(cirq.X(q[0]) ** -0.5, cirq.H(q[1]), cirq.CNOT(q[1], q[0])),
        cirq.Circuit(cirq.MatrixGate(cirq.testing.random_unitary(4, random_state=7)).on(q[0], q[1])),
        cirq.Circuit(cirq.H(q[0]), cirq.measure(q[0], key='a'), (cirq.X(q[1]) ** -0.5).with_classical_controls('a')),
        # a key measured on two qubits and then on one (no Cirq simulator runs this: only registers and measure statements are judged)
        cirq.Circuit(cirq.H(q[0]), cirq.H(q[1]), cirq.measure(q[0], q[1], key='a'), cirq.measure(q[0], key='a'), cirq.X(q[2]).with_classical_controls('a')),
        cirq.Circuit(cirq.H(q[0]), cirq.H(q[1]), cirq.measure(q[0], q[1], key='a'), cirq.measure(q[0], key='a'),
                     cirq.X(q[2]).with_classical_controls(sympy.Eq(a, 0))),
        # measurements that only appear through decomposition
        cirq.Circuit(cirq.CircuitOperation(cirq.FrozenCircuit(cirq.H(q[0]), cirq.measure(q[0], key='a')))),
        cirq.Circuit(cirq.H(q[0]), cirq.measure_single_paulistring(cirq.X(q[0]) * cirq.Z(q[1]), key='p')),
        # wrappers
        cirq.Circuit(cirq.H(q[0]).with_tags('t'), cirq.measure(q[0], key='m').with_tags('x'), cirq.X(q[1]).with_classical_controls('m').with_tags('y')),
        cirq.Circuit(cirq.H(q[0]), cirq.CNOT(q[0], q[1]), cirq.measure(q[0], q[1], key='Key'), cirq.X(q[2]).with_classical_controls(sympy.Eq(sympy.Symbol('Key'), 3)),
                     cirq.measure(q[2], key='c')),
        # qudits
        cirq.Circuit(cirq.XPowGate(dimension=3).on(cirq.LineQid(0, 3))),
        cirq.Circuit(cirq.ZPowGate(dimension=3, exponent=0.5).on(cirq.LineQid(0, 3)), cirq.H(q[1])),
    ]


def directed_stream(ctx, cirq, b):
    for c in directed_circuits(cirq):
        qs = sorted(c.all_qubits())
        for version in ('2.0', '3.0'):
            cfg = dict(version=version, precision=10, api='to_qasm', order=list(qs))
            b.add('directed', c, cfg, ['directed'], True)


def random_qasm_mcircuit(cirq, rng):
    import sympy
    n = rng.randint(1, 3)
    qs = cirq.LineQubit.range(n)
    keys = ['a', 'b', 'Key', 'x y', 'c']
    c = cirq.Circuit()
    measured = []     # (key, nbits)
    bits = 0
    nops = rng.randint(2, 7)
    for i in range(nops):
        r = rng.random()
        if (r < 0.35 or (i >= nops - 2 and not measured)) and bits < 4:
            kq = rng.randint(1, min(2, n, 4 - bits))
            ws = rng.sample(range(n), kq)
            key = rng.choice(keys[:3]) if rng.random() < 0.85 else 'x y'
            prev = [m for m in measured if m[0] == key]
            if prev and prev[0][1] != kq and rng.random() < 0.8:
                key = next((kk for kk in keys if not any(m[0] == kk for m in measured)), key)
            inv = tuple(rng.random() < 0.5 for _ in ws) if rng.random() < 0.5 else ()
            c.append(cirq.measure(*[qs[w] for w in ws], key=key, invert_mask=inv),
                     strategy=cirq.InsertStrategy.NEW if rng.random() < 0.3 else cirq.InsertStrategy.EARLIEST)
            measured.append((key, kq))
            bits += kq
            continue
        if r > 0.95:
            c.append(cirq.reset(qs[rng.randrange(n)]))
            continue
        r3 = rng.random()
        if r3 < 0.07:
            # a global phase: no QASM statement at all, conditional or not
            op = cirq.global_phase_operation(cmath.exp(1j * gates.draw_angle(rng)))
        elif n == 3 and r3 < 0.22:
            # three-qubit gates: ccx / cswap (one statement), CCZ / CCY (h;ccx;h, sdg;ccx;s), generic exponents (decomposed)
            fam = rng.choice(['CCZPow', 'CCXPow', 'CCYPow', 'CSwap'])
            g = gates.draw(rng, fam)
            if fam != 'CSwap' and rng.random() < 0.7:
                g = gates.G(fam, dict(e=1.0, s=rng.choice([0.0, 0.0, 0.25])), (2, 2, 2))
            op = g.cirq_gate(cirq).on(*[qs[w] for w in rng.sample(range(n), 3)])
        elif n >= 2 and r3 < 0.27:
            op = cirq.IdentityGate(2).on(*[qs[w] for w in rng.sample(range(n), 2)])
        else:
            kq = 1 if (n == 1 or rng.random() < 0.65) else 2
            ws = rng.sample(range(n), kq)
            fams = (['XPow', 'YPow', 'ZPow', 'HPow', 'HPow', 'PhasedX', 'PhasedXZ', 'Rx', 'Ry'] if kq == 1 else
                    ['CZPow', 'CXPow', 'CYPow', 'SwapPow', 'ISwapPow', 'FSim', 'ZZPow'])
            g = gates.draw(rng, rng.choice(fams))
            op = g.cirq_gate(cirq).on(*[qs[w] for w in ws])
        if measured and rng.random() < 0.45:
            key, kb = rng.choice(measured)
            ninst = sum(1 for m in measured if m[0] == key)
            r2 = rng.random()
            if r2 < 0.55:
                cond = cirq.KeyCondition(cirq.MeasurementKey(key))
            elif r2 < 0.63:
                cond = cirq.KeyCondition(cirq.MeasurementKey(key), index=rng.choice([0, -1, -ninst]))
            elif r2 < 0.88:
                cond = sympy.Eq(sympy.Symbol(key), rng.randrange(2 ** kb))
            elif r2 < 0.94:
                cond = rng.choice([sympy.Symbol(key), sympy.Ne(sympy.Symbol(key), 0)])
            else:
                cond = cirq.BitMaskKeyCondition(key, bitmask=1, target_value=1, equal_target=True)
            conds = [cond]
            if len(measured) > 1 and rng.random() < 0.1:      # several conditions: `&&` in 3.0, refused for 2.0
                conds.append(cirq.KeyCondition(cirq.MeasurementKey(rng.choice(measured)[0])))
            op = op.with_classical_controls(*conds)
        c.append(op, strategy=cirq.InsertStrategy.NEW if rng.random() < 0.2 else cirq.InsertStrategy.EARLIEST)
    if not measured:
        c.append(cirq.measure(qs[rng.randrange(n)], key='a'))
    return c, sorted(c.all_qubits())


def measure_stream(ctx, cirq, b, n):
    rng = ctx.rng
    for _ in range(n):
        c, qs = random_qasm_mcircuit(cirq, rng)
        cfg = draw_config(rng, qs)
        nontrivial = any(not cirq.is_measurement(op) for op in c.all_operations())
        b.add('measure', c, cfg, ['measure'], nontrivial)


def replay(ctx, data):
    """Re-export the stored circuit with the stored configuration and evaluate every check of that program again."""
    cirq = env.import_cirq()
    if 'fallback_case' in data:
        circuit, _ = case_from_json(data['fallback_case']).circuit(cirq)
    else:
        circuit = cirq.read_json(json_text=data['circuit_json'])
    cj = data['config']
    qs = sorted(circuit.all_qubits())
    byx = {q.x: q for q in qs}
    order = [byx[x] for x in cj['order']]
    cfg = dict(version=cj['version'], precision=cj['precision'], api=cj['api'], order=order)
    text, exc = export(cirq, circuit, order, cfg['api'], cfg['version'], cfg['precision'])
    if exc is not None:
        print('export raises', type(exc).__name__, exc)
        return classify_export_error(cirq, circuit, exc) == 'refused'
    print(text)
    try:
        P, exprs, info = program_checks(cirq, circuit, cfg, text, None)
    except (Malformed, Unsupported) as e:
        print('reader:', e)
        return False
    if P.undefined:
        print('undefined in the standard library of this version:', sorted(set(P.undefined)))
    body = PRE + 'Definition checks : list bool := [\n' + ';\n'.join('(' + e + ')' for _, e in exprs) + '].\nEval vm_compute in failing (fun b => b) checks.\n'
    bad = coq.parse_nat_list(coq.parse_evals(coq.coq_eval('c19_replay', body))[0])
    for i in bad:
        print('FAILS:', exprs[i][0])
    return not bad and not P.undefined
