"""C19 — exported OpenQASM describes the same computation as the circuit (DESIGN 5/C19)."""
import cmath, math, re, warnings
import numpy as np
from .. import env, coq, runner, gates, tables, circuits, opsem

LEVEL = 'translation_validation'
META = dict(
    text='Translation validation with proven components. Per generated program: the text produced by Circuit.to_qasm / cirq.qasm / QasmOutput (versions 2.0 and 3.0, several precisions and qubit orders) is read by an independent fail-closed reader, every instruction is given the matrix its standard library (qelib1.inc / stdgates.inc, transcribed gate by gate in coq/Vendor/Qasm.v) defines, and inside Coq (i) the unitary of the parsed program is compared up to global phase with the reference unitary of the circuit built from the documented gate matrices, (ii) measured qubits, register sizes, bit order and the key<->register map are compared with the proven layout model, (iii) each classical condition is compared with the circuit condition as a truth table over the register bits, (iv) for circuits with measurements and controls the outcome distribution and the per-outcome states of the parsed program (qexec) equal those of the circuit (exec of Sim/Measure.v). Coq theorems (generic ring, all exponents of each guard): what every `_qasm_` rule emits, read with the standard library, is the documented matrix up to an explicit unit factor; the regenerated mnemonic table equals the emission model.',
    note='Trusted: Coq kernel; the transcription of qelib1.inc / stdgates.inc in coq/Vendor/Qasm.v (OpenQASM 2.0 paper + the qelib1.inc shipped with Qiskit for sx/sxdg; OpenQASM 3.0 spec standard library); the Python reader (tokeniser, expression evaluator, cos/sin of the parsed angles); the docstring transcription coq/Gates/GateSpecs.v; the float instance (PrimFloat) with tolerance 10^(1-precision) (scaled by the number of rounded angles beyond 10) + 1e-9. The quantifier over programs is sampled; the KAK/one-qubit numeric fallbacks are validated per program, not proved.',
    technique='Rocq/Coq proofs about the standard-library matrices + per-program translation validation evaluated by vm_compute inside Coq',
)

PRE = (gates.COQ_HEADER + 'From VF Require Import Sim.Ref Sim.Measure Vendor.Qasm Vendor.QasmRegs Vendor.QasmHarness.\n')


# ======================================================================================================
# The reader: the subset of OpenQASM 2.0 / 3.0 that Cirq emits.  Fail closed:
#   Malformed   - the text is not OpenQASM (of the declared version) at a place whose grammar the reader knows
#                 completely (header, declarations, argument lists, conditions, expressions, names not in the
#                 included library, undeclared registers, indices out of range)  -> the export is wrong
#   Unsupported - a construct of the language the reader does not implement         -> harness gap
# ======================================================================================================
class Malformed(Exception):
    pass


class Unsupported(Exception):
    pass


TOKEN = re.compile(r'\s*(?:(?P<num>(?:\d+\.\d*|\.\d+|\d+)(?:[eE][+-]?\d+)?)|(?P<id>[A-Za-z_][A-Za-z0-9_]*)|(?P<str>"[^"\n]*")|'
                   r'(?P<sym>->|==|!=|&&|\|\||<=|>=|[()\[\]{},;+\-*/=^<>!&|]))')

# mnemonic -> (constructor, number of angle parameters, number of qubit arguments)
GATES = {
    'u3': ('QU3', 3, 1), 'u2': ('QU2', 2, 1), 'u1': ('QU1', 1, 1), 'p': ('QU1', 1, 1),
    'id': ('QId', 0, 1), 'x': ('QX', 0, 1), 'y': ('QY', 0, 1), 'z': ('QZ', 0, 1), 'h': ('QH', 0, 1), 's': ('QS', 0, 1),
    'sdg': ('QSdg', 0, 1), 't': ('QT', 0, 1), 'tdg': ('QTdg', 0, 1), 'sx': ('QSx', 0, 1), 'sxdg': ('QSxdg', 0, 1),
    'rx': ('QRx', 1, 1), 'ry': ('QRy', 1, 1), 'rz': ('QRz', 1, 1),
    'cx': ('QCx', 0, 2), 'CX': ('QCx', 0, 2), 'cy': ('QCy', 0, 2), 'cz': ('QCz', 0, 2), 'ch': ('QCh', 0, 2), 'swap': ('QSwap', 0, 2),
    'ccx': ('QCcx', 0, 3), 'cswap': ('QCswap', 0, 3), 'crz': ('QCrz', 1, 2), 'cu1': ('QCu1', 1, 2), 'cu3': ('QCu3', 3, 2),
}
# mirrors Vendor/Qasm.v qdefined (which is evaluated inside Coq for every program as well)
NOT_IN_STDGATES = {'sxdg', 'cu1', 'cu3'}
NOT_IN_QELIB1 = set()
OTHER_KEYWORDS = {'gate', 'opaque', 'barrier', 'for', 'while', 'def', 'let', 'const', 'int', 'uint', 'float', 'angle', 'bool',
                  'input', 'output', 'box', 'delay', 'defcal', 'cal', 'extern', 'return', 'break', 'continue', 'end', 'else',
                  'ctrl', 'negctrl', 'inv', 'pow', 'gphase', 'U', 'duration', 'stretch', 'array', 'switch', 'pragma'}


class Program:
    def __init__(self):
        self.version = None
        self.nqubits = 0
        self.qreg = None
        self.cregs = []          # (name, size, comment or None)
        self.stmts = []          # ('gate', name, [angles], [qubits]) | ('measure', q, reg, bit) | ('reset', q) | ('if', [(reg, op, val)], stmt)
        self.nparams = 0
        self.undefined = []      # mnemonics outside the included library that were read leniently

    def creg_index(self, name):
        for i, (n, _, _) in enumerate(self.cregs):
            if n == name:
                return i
        raise Malformed(f'classical register {name!r} is not declared')


def read_qasm(text, lenient=()):
    """text -> Program.  Comments are removed first; the comment on a register declaration line is kept with it."""
    toks, decl_comment = [], {}
    for ln, line in enumerate(text.split('\n')):
        code, _, comment = line.partition('//')
        pos = 0
        code = code.rstrip()
        first = len(toks)
        while pos < len(code):
            m = TOKEN.match(code, pos)
            if not m or m.end() == pos:
                if code[pos:].strip() == '':
                    break
                raise Malformed(f'line {ln + 1}: cannot tokenise {code[pos:]!r}')
            kind = m.lastgroup
            toks.append((kind, m.group(kind), ln + 1))
            pos = m.end()
        if comment and len(toks) > first:
            decl_comment[ln + 1] = comment.strip()
    P = Program()
    i = [0]

    def peek(k=0):
        return toks[i[0] + k] if i[0] + k < len(toks) else ('eof', '', -1)

    def take(kind=None, val=None):
        t = peek()
        if (kind is not None and t[0] != kind) or (val is not None and t[1] != val):
            raise Malformed(f'line {t[2]}: expected {val or kind}, found {t[1]!r}')
        i[0] += 1
        return t

    def intlit():
        t = take('num')
        if not t[1].isdigit():
            raise Malformed(f'line {t[2]}: integer expected, found {t[1]!r}')
        return int(t[1])

    # ---- header ----
    take('id', 'OPENQASM')
    v = take('num')[1]
    if v not in ('2.0', '3.0'):
        raise Unsupported(f'OPENQASM version {v}')
    P.version = v
    take('sym', ';')
    take('id', 'include')
    inc = take('str')[1]
    want = '"qelib1.inc"' if v == '2.0' else '"stdgates.inc"'
    if inc != want:
        raise Malformed(f'include {inc} with OPENQASM {v} (the standard library of this version is {want})')
    take('sym', ';')
    v3 = v == '3.0'

    # ---- expressions: + - * / ^ unary minus, parentheses, numbers, pi ----
    def expr():
        x = term()
        while peek()[1] in ('+', '-') and peek()[0] == 'sym':
            op = take()[1]
            y = term()
            x = x + y if op == '+' else x - y
        return x

    def term():
        x = factor()
        while peek()[1] in ('*', '/') and peek()[0] == 'sym':
            op = take()[1]
            y = factor()
            if op == '/':
                if y == 0:
                    raise Malformed('division by zero in an angle expression')
                x = x / y
            else:
                x = x * y
        return x

    def factor():
        t = peek()
        if t[0] == 'sym' and t[1] == '-':
            take()
            return -factor()
        if t[0] == 'sym' and t[1] == '+':
            take()
            return factor()
        b = atom()
        if peek()[0] == 'sym' and peek()[1] == '^':
            raise Unsupported('power operator in an angle expression')
        return b

    def atom():
        t = peek()
        if t[0] == 'num':
            take()
            return float(t[1])
        if t[0] == 'id' and t[1] in ('pi', 'π'):
            take()
            return math.pi
        if t[0] == 'sym' and t[1] == '(':
            take()
            x = expr()
            take('sym', ')')
            return x
        if t[0] == 'id':
            raise Unsupported(f'line {t[2]}: identifier {t[1]!r} in an angle expression')
        raise Malformed(f'line {t[2]}: expression expected, found {t[1]!r}')

    def qarg():
        t = take('id')
        if P.qreg is None or t[1] != P.qreg:
            raise Malformed(f'line {t[2]}: quantum register {t[1]!r} is not declared')
        if not (peek()[0] == 'sym' and peek()[1] == '['):
            raise Unsupported(f'line {t[2]}: whole-register argument {t[1]!r}')
        take('sym', '[')
        k = intlit()
        take('sym', ']')
        if k >= P.nqubits:
            raise Malformed(f'line {t[2]}: {t[1]}[{k}] is outside the declared register of {P.nqubits} qubits')
        return k

    def carg():
        t = take('id')
        r = P.creg_index(t[1])
        take('sym', '[')
        k = intlit()
        take('sym', ']')
        if k >= P.cregs[r][1]:
            raise Malformed(f'line {t[2]}: {t[1]}[{k}] is outside the declared register of {P.cregs[r][1]} bits')
        return r, k

    def condition():
        t = take('id')
        r = P.creg_index(t[1])
        if peek()[0] == 'sym' and peek()[1] == '[':
            raise Unsupported('indexed bit in a condition')
        op = take('sym')
        if op[1] not in ('==', '!='):
            raise Malformed(f'line {op[2]}: comparison expected in a condition, found {op[1]!r}')
        if op[1] == '!=' and not v3:
            raise Malformed(f'line {op[2]}: OpenQASM 2.0 conditions are of the form creg==int')
        val = intlit()
        return (r, op[1], val)

    def statement(in_if=False):
        t = peek()
        if t[0] == 'eof':
            raise Malformed('statement expected at the end of the text')
        if t[0] != 'id':
            raise Malformed(f'line {t[2]}: statement expected, found {t[1]!r}')
        name = t[1]
        if name in ('qreg', 'creg', 'qubit', 'bit') and in_if:
            raise Malformed(f'line {t[2]}: declaration inside if')
        if name == 'qreg' and not v3:
            take()
            n = take('id')
            take('sym', '[')
            k = intlit()
            take('sym', ']')
            take('sym', ';')
            if P.qreg is not None:
                raise Unsupported('several quantum registers')
            P.qreg, P.nqubits = n[1], k
            return None
        if name == 'qubit' and v3:
            take()
            take('sym', '[')
            k = intlit()
            take('sym', ']')
            n = take('id')
            take('sym', ';')
            if P.qreg is not None:
                raise Unsupported('several quantum registers')
            P.qreg, P.nqubits = n[1], k
            return None
        if (name == 'creg' and not v3) or (name == 'bit' and v3):
            take()
            if v3:
                take('sym', '[')
                k = intlit()
                take('sym', ']')
                n = take('id')
            else:
                n = take('id')
                take('sym', '[')
                k = intlit()
                take('sym', ']')
            end = take('sym', ';')
            if any(c[0] == n[1] for c in P.cregs) or n[1] == P.qreg:
                raise Malformed(f'line {n[2]}: register {n[1]!r} declared twice')
            P.cregs.append((n[1], k, decl_comment.get(end[2])))
            return None
        if name in ('qreg', 'creg', 'qubit', 'bit'):
            raise Malformed(f'line {t[2]}: {name!r} is not a declaration of OpenQASM {v}')
        if name == 'measure' and not v3:
            take()
            q = qarg()
            take('sym', '->')
            r, k = carg()
            take('sym', ';')
            return ('measure', q, r, k)
        if name == 'measure':
            raise Unsupported('measure statement without assignment in OpenQASM 3.0')
        if name == 'reset':
            take()
            q = qarg()
            take('sym', ';')
            return ('reset', q)
        if name == 'if':
            take()
            take('sym', '(')
            conds = [condition()]
            while peek()[0] == 'sym' and peek()[1] == '&&':
                if not v3:
                    raise Malformed('OpenQASM 2.0 has no && in conditions')
                take()
                conds.append(condition())
            take('sym', ')')
            if peek()[0] == 'sym' and peek()[1] == '{':
                raise Unsupported('block body of an if statement')
            body = statement(in_if=True)
            if body is None:
                raise Malformed('declaration inside if')
            return ('if', conds, body)
        if v3 and any(c[0] == name for c in P.cregs) and name not in GATES:
            # OpenQASM 3.0 assignment  c[k] = measure q[j];
            r, k = carg()
            take('sym', '=')
            take('id', 'measure')
            q = qarg()
            take('sym', ';')
            return ('measure', q, r, k)
        if name in GATES:
            take()
            ctor, npar, nq = GATES[name]
            if v3 and name in lenient:
                P.undefined.append(name)      # reported by the caller; read on with the qelib1.inc meaning
            elif (v3 and name in NOT_IN_STDGATES) or (not v3 and name in NOT_IN_QELIB1):
                raise Malformed(f'line {t[2]}: gate {name!r} is not defined by the standard library of OpenQASM {v} '
                                f'({"stdgates.inc" if v3 else "qelib1.inc"})|undefined-gate:{v}:{name}')
            angles = []
            if peek()[0] == 'sym' and peek()[1] == '(':
                take()
                if not (peek()[0] == 'sym' and peek()[1] == ')'):
                    angles.append(expr())
                    while peek()[0] == 'sym' and peek()[1] == ',':
                        take()
                        angles.append(expr())
                take('sym', ')')
            if len(angles) != npar:
                raise Malformed(f'line {t[2]}: gate {name} takes {npar} parameters, {len(angles)} given')
            qs = [qarg()]
            while peek()[0] == 'sym' and peek()[1] == ',':
                take()
                qs.append(qarg())
            take('sym', ';')
            if len(qs) != nq:
                raise Malformed(f'line {t[2]}: gate {name} takes {nq} qubits, {len(qs)} given')
            if len(set(qs)) != len(qs):
                raise Malformed(f'line {t[2]}: gate {name} applied to a repeated qubit')
            P.nparams += npar
            return ('gate', name, angles, qs)
        if name in OTHER_KEYWORDS:
            raise Unsupported(f'line {t[2]}: statement {name!r}')
        if peek(1)[0] == 'id':
            raise Malformed(f'line {t[2]}: {name!r} followed by {peek(1)[1]!r} is not a statement')
        raise Malformed(f'line {t[2]}: {name!r} is neither declared nor a gate of the standard library|undefined-gate:{v}:{name}')

    while peek()[0] != 'eof':
        s = statement()
        if s is not None:
            P.stmts.append(s)
    return P


# ---- parsed program -> Gallina ----
def hu(theta):
    """the half-angle unit exp(i theta/2) and its inverse, as two FC literals"""
    u = cmath.exp(1j * theta / 2)
    return f'{gates.fc(u)} {gates.fc(u.conjugate())}'


def gate_term(name, angles):
    ctor, npar, nq = GATES[name]
    if npar == 0:
        return ctor
    return '(' + ctor + ' ' + ' '.join(hu(a) for a in angles) + ')' if name != 'cu3' else \
        '(' + ctor + ' ' + hu(angles[0] / 2) + ' ' + hu(angles[1]) + ' ' + hu(angles[2]) + ')'


def stmt_term(s, v3):
    b = 'true' if v3 else 'false'
    if s[0] == 'gate' and v3 and s[1] in NOT_IN_STDGATES:
        b = 'false'           # lenient reading (the finding is reported separately)
    if s[0] == 'gate':
        return f'(QSGate (qgop FOps {b} {gate_term(s[1], s[2])} {gates.nlist(s[3])}))'
    if s[0] == 'measure':
        return f'(QSMeasure {s[1]} {s[2]} {s[3]})'
    if s[0] == 'reset':
        return f'(QSReset {s[1]})'
    if s[0] == 'if':
        return f'(QSIf [{"; ".join(c for c in s[1])}] {stmt_term(s[2], v3)})'
    raise KeyError(s[0])


def program_term(P):
    v3 = P.version == '3.0'
    out = []
    for s in P.stmts:
        if s[0] == 'if':
            cs = []
            for (r, op, val) in s[1]:
                cs.append(f'(QCond {r} {P.cregs[r][1]} {val} {"true" if op == "==" else "false"})')
            s = ('if', cs, s[2])
        out.append(stmt_term(s, v3))
    return '[' + ';\n '.join(out) + ']'


def tolerance(precision, nparams):
    t = 10.0 ** (1 - precision) * max(1.0, nparams / 10.0) + 1e-9
    return gates.fl(t)


