"""C15 — analytical decompositions rebuild their input within documented bounds (DESIGN 5/C15)."""
import cmath, itertools, math, os
from fractions import Fraction
import numpy as np
from .. import env, coq, runner, gates

LEVEL = 'translation_validation'
META = dict(
    text='Coq theorems: a model of the control flow of kak_canonicalize_vector on exact coefficients (any rational multiple of pi/4, any atol) reaches the canonical Weyl chamber for every input, its trace of shifts/negations/swaps replays to the returned vector and each step keeps the implied two-qubit matrix (generic ring), and the validators (reconstructs, count_2q, kak_canonical) are sound; the minimal CNOT/CZ count is modelled as a function of the canonical coefficients (cz_class: 0 at the origin, 1 at (pi/4,0,0), 2 on the rest of the face z=0, 3 elsewhere) with its tolerance-aware validator proved exact at zero tolerance, witness circuits for one and two CNOTs, and the quantity num_cnots_required looks at (trace of u YY u^T YY) proved to be 4(cos2x cos2y cos2z + i sin2x sin2y sin2z) on exp(i(xXX+yYY+zZZ)) and blind to single-qubit gates; on every run the model is compared with cirq.kak_canonicalize_vector by vm_compute (coefficients, phase and the four single-qubit corrections, exactly), and every routine of a frozen list of decomposition / synthesis routines is run on a special-case corpus (identity, local gates, CNOT/iSWAP/SWAP classes, Weyl-chamber vertices/edges/faces, degenerate eigenvalues, +-1e-10..1e-8 perturbations of each boundary) and on seeded random unitaries x option flags; the returned factors / operations are recomposed inside Coq (float instance of the reference semantics) and must reproduce the input within the documented tolerance, with the promised factor forms and gate counts; num_cnots_required, kak_vector, extract_right_diag and two_qubit_matrix_to_cz_isometry are judged on the same corpus against the coefficients each point was built from or against kak_decomposition coefficients validated in the same Coq expression; a frozen set of structured two-qubit unitaries (diagonal incl. one-qubit phase gates on either qubit, tensor products, permutation and phased permutation matrices, singly controlled gates with either control, block-diagonal multiplexers) plus seeded random members of each class meets every two-qubit routine (theorems: with the first qubit in |0> a diagonal diag(a,b,c,d) acts on the columns |00>, |01> as I (x) diag(a,b), the other half diag(a,c) agrees only when b = c); cirq_google.known_2q_op_to_sycamore_operations is exercised gate by gate (CZ/CNOT/ZZ/SWAP/ISWAP/XX/YY powers at exponents +-1, +-0.5, +-0.25, +-1.5, +-2, +-3, 0, 1e-9, +-1 +- 1e-10 and random ones, PhasedISwap, SWAP+ZZ circuit operations, either qubit order, global shifts, tags) against the gate of the shared vocabulary evaluated inside Coq, and the same operations go as matrices through two_qubit_matrix_to_sycamore_operations (theorems: SWAP**-1 = SWAP, ISWAP**-1 is the inverse of ISWAP and no phase multiple of it); the n-qubit routines are also run with the qubits handed over in non-sorted orders; the heuristic tabulation decomposition (two_qubit_gate_product_tabulation / TwoQubitGateTabulation.compile_two_qubit_gate, and the Sycamore gateset built on it) is run on frozen tabulations (SYC, FSim(pi/4,pi/24), sqrt-iSWAP, CZ) and a seeded one, on the gate of every tabulated KAK vector (one, two and three base gates, equal and distinct inner layers) and on the corpus: the returned local layers interleaved with the base gate are recomposed in the reference semantics and must equal the reported actual_gate up to phase and, when success is True, lie within the tabulation infidelity bound of the target (theorems: the returned list (kR, k_1..k_n, kL) multiplies out in the documented order to kL.(A.k_n...A.k_1.A).kR for any number of layers; equal inner layers may be reversed, distinct ones may not; tr(U^dagger gV) = g tr(U^dagger V)); real matrices are also handed over as float64 / int64 arrays (rotations, reflections, (signed) permutations, SO(n) / O(n), skew-symmetric and other real normal matrices of size 1..8) to the eigendecomposition routines (unitary_eig, map_eigenvalues, single_qubit_op_to_framed_phase_form, to_special) and to every one-, two-, three-qubit and multi-controlled routine; cirq.parameterized_2q_op_to_sqrt_iswap_operations is judged through its resolutions on a fixed grid of exponents / angles (odd integers, 0, +-0.5, +-0.25, 1 +- 1e-10 ...) against the gate evaluated inside Coq; decompose_multi_controlled_x / _rotation are run on every shape (controls, borrowed qubits) of at most 9 qubits and selected ones on 10 and 11 (rotations with up to 9, thorough 10, controls), each returned operation list being run on every basis state in a sparse state-vector semantics (Xform/CtrlSynth.v) and compared with the column of the controlled gate; shapes of at most 5 qubits also in the dense reference semantics, and there the two semantics are compared (theorems: a one-qubit gate, CNOT and CCNOT act on the amplitudes of a sparse vector by the textbook rule on bit indices; merging keeps the meaning and pruning drops exactly the complement; the validator is sound in exact arithmetic; Barenco Lemma 7.2 with exact Toffolis is C^m X (x) I on all basis states for m = 3..6 when the ladder of borrowed qubits is traversed from the target downwards, and a different gate from two rungs on (m >= 5) when traversed the other way).',
    note='Translation validation: the quantifier over unitaries is sampled (corpus + seeded random), the evidence says how. Trusted: Coq kernel; the float instance (binary64 inside vm_compute, no proof about rounding); numpy/scipy/LAPACK inside Cirq; the Python adapters (operation -> Gallina term through the shared gate vocabulary; gates outside it enter through cirq.unitary, counted in the evidence). Where a docstring states no tolerance the routine\'s own atol x 10 is used (listed per routine in ROUTINES).',
    technique='Rocq/Coq proof (lia, ring) of the canonicaliser model and of the validators + vm_compute translation validation of every returned decomposition',
)

PRE = gates.COQ_HEADER + 'From VF Require Import Sim.Ref Xform.KakCanon Xform.KakCanonFloat Xform.CtrlSynth Xform.CtrlSynthFloat.\n'
PI4 = math.pi / 4

# The frozen list of routines with the contract taken from each docstring.
ROUTINES = {
    'kak_canonicalize_vector': 'docstring: output (x2,y2,z2) with 0<=|z2|<=y2<=x2<=pi/4, z2>=0 if x2=pi/4 (atol = "how close x2 must be to pi/4 to guarantee z2>=0"); implied matrix approximately equal to the input interaction. Compared EXACTLY with the Coq model; oracle tolerance for the implied matrix 1e-8.',
    'kak_decomposition': 'docstring: U = g (a1 x a0) exp(i(xXX+yYY+zZZ)) (b1 x b0) as evaluated by KakDecomposition._unitary_ / _decompose_ (after[0]/before[0] act on the first qubit), canonical coefficients as above. No reconstruction tolerance stated: atol(1e-8) x 10 = 1e-7.',
}


def fl(x):
    return gates.fl(x)


def drop_case_files(shards):
    """vf.coq.coq_eval gives every case file a per-process name (so concurrent runs do not collide); this check writes ~100 MB of
    them per run, so they are removed after evaluation (a failing case is reproducible from its replay file)."""
    for name, _ in shards:
        for cand in (name + '.v', f'{name}_p{os.getpid()}.v'):
            try:
                os.remove(os.path.join(env.BUILD, 'cases', cand))
            except OSError:
                pass


def tol_of(atol):
    return fl(atol)


# =====================================================================================================
# Stream 1: kak_canonicalize_vector vs the exact model (Xform/KakCanon.v)
# =====================================================================================================
D_UNITS = 785398163400          # (pi/4)/D ~ 1e-12; divisible by 8; atol = A * (pi/4)/D, A = 1000 -> 1e-9 (to 1e-19)
EXACT_Q = [Fraction(x) for x in (0, 1, -1, 2, -2, 4, -4)] + [Fraction(1, 2), Fraction(-1, 2), Fraction(1, 4), Fraction(-1, 4)]
OTHER_Q = [Fraction(x, 8) for x in (3, -3, 5, -5, 6, -6, 7, -7, 9, -9, 12, -12, 20, -20, 24, -24, 40, -40, 56, -56, 72, -72)]
PERT_T = [Fraction(x, 2) for x in (1, -1, 4, -4, 20, -20, 2, -2)]


class Val:
    """A coordinate during the model run in Python: exact integer value + a tag saying which other values it is
    bit-identical to (up to sign) as a float inside the implementation."""
    __slots__ = ('n', 'tag')

    def __init__(self, n, tag):
        self.n, self.tag = n, tag


def coord_tag(q, t, idx):
    if t == 0 and q in EXACT_Q:
        return 'E'                       # q*(pi/4) is exact in binary64 and stays exact under the shifts it needs
    if abs(q) == 1 and t == -q:
        return 'T'                       # +-(pi/4 - atol): the very float the code compares with
    return ('G', abs(q), t if q >= 0 else -t) if True else idx


class Knife(Exception):
    pass


def py_canon(D, A, coords):
    """The model in Python, used ONLY to reject inputs on which binary64 rounding could take a different branch
    than exact arithmetic (a comparison of two quantities that are equal, or closer than A/4, without being the
    same float).  The deciding comparison is made in Coq."""
    v = [Val(q * D + t * A, coord_tag(q, t, i)) for i, (q, t) in enumerate(coords)]
    for x in v:
        if x.n.denominator != 1:
            raise Knife('non-integer')
        x.n = int(x.n)

    def cmp(a_n, a_tag, b_n, b_tag):
        if a_n == b_n:
            if not (a_tag == b_tag or (a_tag == 'E' and b_tag == 'E')):
                raise Knife('equal values that are different floats')
        elif abs(a_n - b_n) < max(A // 4, 1):
            raise Knife('closer than atol/4')

    def cshift(k):
        x = v[k]
        while True:
            cmp(x.n, x.tag, -D, 'E')
            if x.n <= -D:
                x.n += 2 * D
            else:
                break
        while True:
            cmp(x.n, x.tag, D, 'E')
            if x.n > D:
                x.n -= 2 * D
            else:
                break

    def srt(i, j):
        cmp(abs(v[i].n), v[i].tag, abs(v[j].n), v[j].tag)
        if abs(v[i].n) < abs(v[j].n):
            v[i], v[j] = v[j], v[i]

    for k in range(3):
        cshift(k)
    srt(0, 1), srt(1, 2), srt(0, 1)
    for k in (0, 1):
        cmp(v[k].n, v[k].tag, 0, 'E')
        if v[k].n < 0:
            v[k].n, v[2].n = -v[k].n, -v[2].n
    cshift(2)
    cmp(v[0].n, v[0].tag, D - A, 'T')
    cmp(v[2].n, v[2].tag, 0, 'E')
    if v[0].n > D - A and v[2].n < 0:
        v[0].n, v[2].n = 2 * D - v[0].n, -v[2].n
    return [x.n for x in v]


def k8(z):
    from ..tables_gates import recog_entry
    a, b, c, d, e = recog_entry(z)
    zl = coq.zlit
    return f'(kcx K8Ops {zl(a)} {zl(b)} {zl(c)} {zl(d)} {e})'


def k8mat(m):
    return '[' + '; '.join('[' + '; '.join(k8(x) for x in row) + ']' for row in np.asarray(m)) + ']'


def interaction_matrix(x, y, z):
    X = np.array([[0, 1], [1, 0]], dtype=complex)
    Y = np.array([[0, -1j], [1j, 0]])
    Z = np.diag([1, -1]).astype(complex)
    out = np.eye(4, dtype=complex)
    for c, P in ((x, X), (y, Y), (z, Z)):
        PP = np.kron(P, P)
        out = out @ (math.cos(c) * np.eye(4) + 1j * math.sin(c) * PP)
    return out


def draw_coord(rng):
    r = rng.random()
    if r < 0.30:
        return rng.choice(EXACT_Q), Fraction(0)
    if r < 0.42:
        q = rng.choice([Fraction(1), Fraction(-1)])
        return q, -q
    if r < 0.72:
        return rng.choice(EXACT_Q + OTHER_Q), rng.choice(PERT_T)
    return Fraction(rng.randint(-72, 72), 8) + Fraction(rng.randint(-3, 3), 64), rng.choice(PERT_T + [Fraction(0)])


def canon_oracle(cirq, xyz, atol, res):
    """Spec-level oracle on the real code: the documented guarantees of kak_canonicalize_vector."""
    x2, y2, z2 = res.interaction_coefficients
    bad = []
    if not (abs(z2) <= y2 <= x2 <= PI4 + atol):
        bad.append(f'coefficients {res.interaction_coefficients} are not ordered 0<=|z|<=y<=x<=pi/4')
    if x2 > PI4 - atol and z2 < 0:
        bad.append(f'x2 is within atol of pi/4 but z2={z2} is negative')
    err = float(np.max(np.abs(cirq.unitary(res) - interaction_matrix(*xyz))))
    if err > 1e-8:
        bad.append(f'implied matrix differs from the input interaction by {err:.3g}')
    return bad


def canon_stream(ctx, cirq, n):
    rng = ctx.rng
    D = D_UNITS
    cases, rejected = [], 0
    fixed = [[(Fraction(1), Fraction(0)), (Fraction(3, 8), Fraction(0)), (Fraction(-3, 8), Fraction(0))],      # CZ-class edge, z<0
             [(Fraction(1), Fraction(-1, 2)), (Fraction(3, 8), Fraction(0)), (Fraction(-3, 8), Fraction(0))],  # the refuted-bound witness
             [(Fraction(1), Fraction(-1)), (Fraction(3, 8), Fraction(0)), (Fraction(-3, 8), Fraction(0))],     # exactly at the threshold
             [(Fraction(-1), Fraction(0))] * 3, [(Fraction(1), Fraction(0))] * 3, [(Fraction(0), Fraction(0))] * 3,
             [(Fraction(-1), Fraction(0)), (Fraction(1), Fraction(0)), (Fraction(-1), Fraction(0))],
             [(Fraction(2), Fraction(0)), (Fraction(-2), Fraction(0)), (Fraction(4), Fraction(0))]]
    while len(cases) < n:
        A = rng.choice([1000, 1000, 1000, 10000, 100, 8])
        coords = fixed.pop() if fixed else [draw_coord(rng) for _ in range(3)]
        try:
            py_canon(D, A, coords)
        except Knife:
            rejected += 1
            continue
        atol = A * PI4 / D
        xyz = [float(q) * PI4 + float(t) * atol for q, t in coords]
        nv = [int(q * D + t * A) for q, t in coords]
        try:
            res = cirq.kak_canonicalize_vector(*xyz, atol=atol)
        except Exception as e:
            ctx.violation('kak_canonicalize_vector:raises', f'kak_canonicalize_vector{tuple(xyz)} raised {type(e).__name__}: {e}',
                          dict(kind='canon', xyz=xyz, atol=atol))
            continue
        out = [float(c) for c in res.interaction_coefficients]
        nout = [round(c * D / PI4) for c in out]
        kind = ('boundary' if all(t == 0 for _, t in coords) else 'perturbed') + (':shifted' if any(abs(q) > 1 for q, _ in coords) else '')
        ctx.count('kak_canonicalize_vector[' + kind + ']', [nv, A], True,
                  sample=dict(xyz_in_units_of_pi_over_4=[str(q) + ('%+g*atol' % float(t) if t else '') for q, t in coords], atol=atol, out=out))
        try:
            if max(abs(c * D / PI4 - m) for c, m in zip(out, nout)) > 0.01:
                raise ValueError('coefficient is not a multiple of the unit')
            a0, a1 = res.single_qubit_operations_after
            b0, b1 = res.single_qubit_operations_before
            lit = (f'(({coq.zlit(nout[0])}, {coq.zlit(nout[1])}, {coq.zlit(nout[2])})%Z, {k8(res.global_phase)}, '
                   f'{k8mat(a1)}, {k8mat(a0)}, {k8mat(b1)}, {k8mat(b0)})')       # l0 = after[1], l1 = after[0], r0 = before[1], r1 = before[0]
        except Exception as e:
            lit = None
            why = f'output not recognisable exactly: {e}'
        cases.append(dict(D=D, A=A, nv=nv, xyz=xyz, atol=atol, res=res, lit=lit, coords=[(str(q), str(t)) for q, t in coords]))
    ctx.cov['canon_inputs_rejected_as_rounding_knife_edges'] = rejected
    good = [c for c in cases if c['lit'] is not None]
    SH = 120
    shards = []
    for s0 in range(0, len(good), SH):
        part = good[s0:s0 + SH]
        items = ';\n'.join(f'(({c["D"]}, {c["A"]}, ({coq.zlit(c["nv"][0])}, {coq.zlit(c["nv"][1])}, {coq.zlit(c["nv"][2])}))%Z, {c["lit"]})' for c in part)
        text = ('From Coq Require Import ZArith List Bool.\nFrom VF Require Import Base.RingOps Base.Mat Base.Harness Base.K8 Xform.KakCanon.\n'
                'Import ListNotations.\n'
                'Definition v3_eqb (a b : vec3) : bool := let \'(x, y, z) := a in let \'(x2, y2, z2) := b in Z.eqb x x2 && Z.eqb y y2 && Z.eqb z z2.\n'
                'Definition ok (c : (Z * Z * vec3) * (vec3 * K8 * matrix (K:=K8) * matrix (K:=K8) * matrix (K:=K8) * matrix (K:=K8))) : bool :=\n'
                '  let \'((D, A, v), (vout, ph, l0, l1, r0, r1)) := c in\n'
                '  let t := kak_canon D A v in let b := run_book K8Ops (snd t) (book0 K8Ops) in\n'
                '  v3_eqb (fst t) vout && k8_eqb (bk_ph b) ph && meqb k8_eqb (bk_l0 b) l0 && meqb k8_eqb (bk_l1 b) l1\n'
                '  && meqb k8_eqb (bk_r0 b) r0 && meqb k8_eqb (bk_r1 b) r1.\n'
                f'Definition cases := [\n{items}].\nEval vm_compute in failing ok cases.\n')
        shards.append((f'c15_canon_{ctx.seed}_{s0 // SH}', text))
    try:
        outs = coq.coq_eval_many(shards, workers=8)
    finally:
        drop_case_files(shards)
    bad_idx = [si * SH + i for si, out in enumerate(outs) for i in coq.parse_nat_list(coq.parse_evals(out)[0])]
    failing = [good[i] for i in bad_idx] + [c for c in cases if c['lit'] is None]
    for c in failing:
        bad = canon_oracle(cirq, c['xyz'], c['atol'], c['res'])
        rep = dict(kind='canon', xyz=c['xyz'], atol=c['atol'], coords=c['coords'])
        if bad:
            ctx.disagree('correspondence:kak_canonicalize_vector', '; '.join(bad), 'kak_canonicalize_vector:' + bad[0].split(' ')[0],
                         f'kak_canonicalize_vector{tuple(c["xyz"])} (atol={c["atol"]:.3g}): ' + '; '.join(bad), rep)
        else:
            ctx.mark_broken('correspondence:kak_canonicalize_vector',
                            f'model and implementation disagree on {c["coords"]} atol={c["atol"]:.3g}: got {c["res"].interaction_coefficients}, phase {c["res"].global_phase}')
    # the witness of the refuted exact bound, replayed on the implementation (documentation of a fact, not a violation:
    # the excess is below atol, which is the tolerance the property grants)
    atol = 1000 * PI4 / D
    res = cirq.kak_canonicalize_vector(PI4 - atol / 2, 0.3, -0.3, atol=atol)
    ctx.cov['refuted_exact_bound_witness'] = dict(input=[PI4 - atol / 2, 0.3, -0.3], atol=atol, x2_minus_pi_over_4=res.interaction_coefficients[0] - PI4,
                                                  exceeds=bool(res.interaction_coefficients[0] > PI4))


# =====================================================================================================
# Inputs: the special-case corpus of two-qubit unitaries and random ones
# =====================================================================================================
PERT = [1e-10, -1e-10, 1e-9, -1e-9, 2e-9, -2e-9, 1e-8, -1e-8]


def weyl_points():
    """Named points of the closed Weyl chamber: vertices, edges, faces, and which coordinates sit on a boundary."""
    q = PI4
    t, s, r = 0.3, 0.17, 0.09
    pts = [('vertex:identity', (0, 0, 0)), ('vertex:cnot', (q, 0, 0)), ('vertex:iswap', (q, q, 0)), ('vertex:swap', (q, q, q)),
           ('vertex:swap-', (q, q, -q)), ('edge:x', (t, 0, 0)), ('edge:cnot-iswap', (q, t, 0)), ('edge:xy', (t, t, 0)),
           ('edge:xyz', (t, t, t)), ('edge:xy-z', (t, t, -t)), ('edge:iswap-swap', (q, q, t)), ('edge:iswap-swap-', (q, q, -t)),
           ('edge:cnot-swap', (q, t, t)), ('edge:cnot-swap-', (q, t, -t)), ('face:z=0', (t, s, 0)), ('face:x=pi/4', (q, t, s)),
           ('face:x=pi/4,z<0', (q, t, -s)), ('face:x=y', (t, t, s)), ('face:x=y,z<0', (t, t, -s)), ('face:y=z', (t, s, s)),
           ('face:y=-z', (t, s, -s)), ('interior', (t, s, r)), ('interior:z<0', (t, s, -r)), ('B-gate', (q, q / 2, 0)),
           ('sqrt-iswap', (q / 2, q / 2, 0)), ('sqrt-iswap-boundary:x=y+|z|', (t, s, t - s)), ('sqrt-iswap-boundary:x=y+|z|,z<0', (t, s, s - t)),
           ('sqrt-cz', (q / 2, 0, 0)), ('sqrt-swap', (q / 2, q / 2, q / 2))]
    return pts


def boundary_perturbations(name, xyz):
    """+-delta on each coordinate that sits on a chamber boundary (x=pi/4, x=y, y=|z|, z=0, y=0) of the named point."""
    x, y, z = xyz
    out = []
    idx = []
    if abs(x - PI4) < 1e-12:
        idx.append(0)
    if abs(x - y) < 1e-12 or abs(y) < 1e-12 or abs(y - abs(z)) < 1e-12:
        idx.append(1)
    if abs(z) < 1e-12 or abs(y - abs(z)) < 1e-12:
        idx.append(2)
    for k in sorted(set(idx)):
        for d in PERT:
            v = list(xyz)
            v[k] += d
            out.append((f'{name}:{"xyz"[k]}{d:+.0e}', tuple(v)))
    return out


NEAR_FACE = [1e-7, 1e-6, 5e-6]


def near_face_points():
    """Points just below the face x = pi/4 with z != 0, at distances between the routines' atol (1e-8) and numpy's default relative
    tolerance at pi/4 (1e-5 * pi/4 = 7.9e-6): (pi/4 - d, y, -z), and the same classes written as (pi/4 + d, y, z)."""
    q, t, s_ = PI4, 0.3, 0.17
    out = []
    for name, xyz, sgn in (('edge:cnot-swap-', (q, t, -t), -1), ('face:x=pi/4,z<0', (q, t, -s_), -1), ('edge:cnot-swap', (q, t, t), 1), ('face:x=pi/4', (q, t, s_), 1)):
        for d in NEAR_FACE:
            out.append((f'{name}:x{sgn * d:+.0e}', (xyz[0] + sgn * d, xyz[1], xyz[2])))
    return out


LADDER2 = [3e-7, 1e-6, 1e-5, 1e-4, 1e-3]


def scale_ladder_points():
    """Boundary coordinates moved by every decade BETWEEN the tolerance scale (PERT, <= 1e-8) and O(1): the five vertices get every scale on every
    coordinate (sign alternating), every other named point one scale per boundary coordinate (rotating), so that each scale meets each kind of
    boundary.  A special-case branch taken at such a distance must still be accurate to the documented tolerance."""
    out = []
    taken = {n for n, _ in near_face_points()}
    for i, (name, xyz) in enumerate(weyl_points()):
        x, y, z = xyz
        idx = []
        if abs(x - PI4) < 1e-12 or abs(x) < 1e-12:
            idx.append(0)
        if abs(x - y) < 1e-12 or abs(y) < 1e-12 or abs(y - abs(z)) < 1e-12:
            idx.append(1)
        if abs(z) < 1e-12 or abs(y - abs(z)) < 1e-12:
            idx.append(2)
        for k in sorted(set(idx)):
            scales = list(enumerate(LADDER2)) if name.startswith('vertex:') else [((i + k) % len(LADDER2), LADDER2[(i + k) % len(LADDER2)])]
            for j, d in scales:
                for d in ((d, -d) if (i + j + k) % 2 == 0 else (-d, d)):          # the preferred sign, else the other one, else none: the moved point stays
                    v = list(xyz)                                                  # canonical, so that the coefficients it was built from name its class
                    v[k] += d
                    if PI4 >= v[0] >= v[1] >= abs(v[2]) and (v[2] >= 0 or v[0] < PI4):
                        if f'{name}:{"xyz"[k]}{d:+.0e}' not in taken:
                            out.append((f'{name}:{"xyz"[k]}{d:+.0e}', tuple(v)))
                        break
    return out


ISWAP_Z_CLASS = 'iswap-vertex:x=y=pi/4:1e-7<|z|<1.5e-6'


def iswap_z_class(hint):
    """Class of the four-FSim finding: coefficients (pi/4, pi/4, z) with 1e-7 < |z| < 1.5e-6 (the routine's `r > 0.499999999999` branch drops z there)."""
    if hint is None:
        return None
    x, y, z = hint
    return ISWAP_Z_CLASS if abs(x - PI4) <= 1e-9 and abs(y - PI4) <= 1e-9 and 1e-7 < abs(z) < 1.5e-6 else None


def local_pair(rng, kind):
    def one():
        if kind == 'clifford':
            return rng.choice([np.eye(2), np.array([[0, 1], [1, 0]]), np.array([[1, 1], [1, -1]]) / math.sqrt(2), np.diag([1, 1j]),
                               np.array([[0, -1j], [1j, 0]]), np.diag([1, -1])]).astype(complex)
        return gates.random_unitary(rng, 2)
    return np.kron(one(), one())


def name_rng(name):
    """The special-case corpus is frozen: its random dressings and option picks depend on the name only, not on VERIF_SEED."""
    import random, zlib
    return random.Random(zlib.crc32(name.encode()))


def _one_qubit_named():
    I = np.eye(2, dtype=complex)
    X = np.array([[0, 1], [1, 0]], dtype=complex)
    Y = np.array([[0, -1j], [1j, 0]])
    Z = np.diag([1, -1]).astype(complex)
    H = np.array([[1, 1], [1, -1]], dtype=complex) / math.sqrt(2)
    S, T = np.diag([1, 1j]), np.diag([1, cmath.exp(0.25j * math.pi)])
    return dict(I=I, X=X, Y=Y, Z=Z, H=H, S=S, T=T)


def rz_m(t):
    return np.diag([cmath.exp(-0.5j * t), cmath.exp(0.5j * t)])


def rx_m(t):
    return np.array([[math.cos(t / 2), -1j * math.sin(t / 2)], [-1j * math.sin(t / 2), math.cos(t / 2)]])


def controlled_on(u, control, value=1):
    """|v><v| (x) U + |1-v><1-v| (x) I with the control on qubit `control` (0 = first = most significant)."""
    P1 = np.diag([0, 1]).astype(complex) if value else np.diag([1, 0]).astype(complex)
    P0 = np.eye(2) - P1
    return np.kron(P0, np.eye(2)) + np.kron(P1, u) if control == 0 else np.kron(np.eye(2), P0) + np.kron(u, P1)


def structured_inputs():
    """Frozen structured two-qubit unitaries (none of them is generic in the Weyl chamber or has generic local factors): diagonal
    (incl. one-qubit phase gates on either qubit, d11 != d22), tensor products, all 24 permutation matrices and phased permutations,
    singly controlled gates with the control on either qubit / on |0>, block-diagonal (multiplexed) unitaries."""
    g = _one_qubit_named()
    I = g['I']
    out = []
    ph = lambda r, n: [cmath.exp(1j * r.uniform(0, 2 * math.pi)) for _ in range(n)]
    # ---- diagonal ----
    for a, b in (('I', 'Z'), ('Z', 'I'), ('I', 'S'), ('S', 'I'), ('I', 'T'), ('T', 'S'), ('S', 'Z')):
        out.append((f'diagonal:{a}(x){b}', np.kron(g[a], g[b])))
    out += [('diagonal:rz(0.4)(x)rz(1.3)', np.kron(rz_m(0.4), rz_m(1.3))), ('diagonal:rz(1.3)(x)I', np.kron(rz_m(1.3), I)), ('diagonal:I(x)rz(-2.1)', np.kron(I, rz_m(-2.1))),
            ('diagonal:diag(1,-1,1,1)', np.diag([1, -1, 1, 1])), ('diagonal:diag(1,1,-1,1)', np.diag([1, 1, -1, 1])), ('diagonal:diag(-1,1,1,1)', np.diag([-1, 1, 1, 1])),
            ('diagonal:diag(1,i,-1,-i)', np.diag([1, 1j, -1, -1j])), ('diagonal:diag(1,i,1,1)', np.diag([1, 1j, 1, 1])), ('diagonal:diag(1,1,i,1)', np.diag([1, 1, 1j, 1]))]
    for i in range(3):
        out.append((f'diagonal:phases#{i}', np.diag(ph(name_rng(f'struct:diag{i}'), 4))))
    # ---- tensor products ----
    for a, b in (('X', 'I'), ('I', 'X'), ('Y', 'I'), ('I', 'Y'), ('H', 'I'), ('H', 'H'), ('X', 'X'), ('Y', 'Z'), ('S', 'H'), ('X', 'S')):
        out.append((f'local:{a}(x){b}', np.kron(g[a], g[b])))
    r = name_rng('struct:local')
    out += [('local:haar(x)I', np.kron(gates.random_unitary(r, 2), I)), ('local:I(x)haar', np.kron(I, gates.random_unitary(r, 2))),
            ('local:rx(0.3)(x)I', np.kron(rx_m(0.3), I)), ('local:I(x)rx(0.3)', np.kron(I, rx_m(0.3))), ('local:X(x)I*phase', cmath.exp(0.7j) * np.kron(g['X'], I)),
            ('local:rx(2.5)(x)rz(0.9)', np.kron(rx_m(2.5), rz_m(0.9)))]
    # ---- permutations ----
    for p in itertools.permutations(range(4)):
        if p not in ((0, 1, 2, 3), (0, 2, 1, 3), (0, 1, 3, 2), (0, 3, 2, 1), (2, 3, 0, 1), (1, 0, 3, 2), (3, 2, 1, 0)):   # identity, SWAP, CNOT, CNOT-reversed, X(x)I, I(x)X, X(x)X
            out.append(('perm:' + ''.join(map(str, p)), np.eye(4, dtype=complex)[:, list(p)]))
    for i, p in enumerate(((1, 0, 3, 2), (2, 3, 1, 0), (0, 2, 1, 3), (3, 0, 1, 2), (1, 2, 3, 0), (0, 1, 3, 2))):
        out.append((f'phased-perm:{"".join(map(str, p))}#{i}', np.eye(4, dtype=complex)[:, list(p)] @ np.diag(ph(name_rng(f'struct:pperm{i}'), 4))))
    # ---- controlled ----
    r = name_rng('struct:ctrl')
    us = [('X', g['X']), ('Y', g['Y']), ('Z', g['Z']), ('H', g['H']), ('S', g['S']), ('T', g['T']), ('sqrtX', rx_m(math.pi / 2) * cmath.exp(0.25j * math.pi)),
          ('rx(0.3)', rx_m(0.3)), ('rz(0.3)', rz_m(0.3)), ('haar', gates.random_unitary(r, 2)), ('-I', -I), ('iX', 1j * g['X'])]
    for k, (n, u) in enumerate(us):
        if n not in ('X', 'Y', 'Z', 'H'):                     # CNOT, CY, CZ, CH are in the named list
            out.append((f'controlled:q0-controls-{n}', controlled_on(u, 0)))
        out.append((f'controlled:q1-controls-{n}', controlled_on(u, 1)))
        if k % 2 == 0:
            out.append((f'controlled:q0=0-controls-{n}', controlled_on(u, 0, 0)))
        else:
            out.append((f'controlled:q1=0-controls-{n}', controlled_on(u, 1, 0)))
    # ---- block-diagonal (multiplexers) ----
    sw = np.eye(4)[[0, 2, 1, 3]]
    r = name_rng('struct:block')
    for i in range(3):
        a, b = gates.random_unitary(r, 2), gates.random_unitary(r, 2)
        m = np.block([[a, np.zeros((2, 2))], [np.zeros((2, 2)), b]])
        out.append((f'block-diagonal:haar+haar#{i}', m))
        out.append((f'block-diagonal:haar+haar#{i}:on-q1', sw @ m @ sw))
    a = gates.random_unitary(r, 2)
    z2 = np.zeros((2, 2))
    out += [('block-diagonal:A+(-A)', np.block([[a, z2], [z2, -a]])), ('block-diagonal:rx(0.3)+rx(-0.3)', np.block([[rx_m(0.3), z2], [z2, rx_m(-0.3)]])),
            ('block-diagonal:X+Z', np.block([[g['X'], z2], [z2, g['Z']]])), ('block-diagonal:H+iH', np.block([[g['H'], z2], [z2, 1j * g['H']]]))]
    return [('struct:' + n, np.asarray(u, dtype=complex), None) for n, u in out]


def random_structured(rng):
    """One seeded random member of a structured class."""
    kind = rng.choice(['diagonal', 'diagonal(x)', 'local', 'local(x)I', 'I(x)local', 'controlled', 'block-diagonal', 'phased-permutation'])
    I = np.eye(2)
    ph = lambda n: [cmath.exp(1j * rng.uniform(0, 2 * math.pi)) for _ in range(n)]
    if kind == 'diagonal':
        u = np.diag(ph(4))
    elif kind == 'diagonal(x)':
        u = np.kron(np.diag(ph(2)), np.diag(ph(2)))
    elif kind == 'local':
        u = np.kron(gates.random_unitary(rng, 2), gates.random_unitary(rng, 2))
    elif kind == 'local(x)I':
        u = np.kron(gates.random_unitary(rng, 2), I)
    elif kind == 'I(x)local':
        u = np.kron(I, gates.random_unitary(rng, 2))
    elif kind == 'controlled':
        u = controlled_on(gates.random_unitary(rng, 2), rng.randint(0, 1), rng.randint(0, 1))
    elif kind == 'block-diagonal':
        u = np.block([[gates.random_unitary(rng, 2), np.zeros((2, 2))], [np.zeros((2, 2)), gates.random_unitary(rng, 2)]])
        if rng.random() < 0.5:
            sw = np.eye(4)[[0, 2, 1, 3]]
            u = sw @ u @ sw
    else:
        p = list(range(4))
        rng.shuffle(p)
        u = np.eye(4)[:, p] @ np.diag(ph(4))
    return 'random:struct:' + kind, np.asarray(u, dtype=complex), None


def two_qubit_inputs(ctx, cirq, n_random, full=True):
    """[(class name, 4x4 unitary, kak hint or None)]"""
    rng = ctx.rng
    out = []
    I4 = np.eye(4, dtype=complex)
    named = [('identity', I4), ('-identity', -I4), ('i*identity', 1j * I4), ('CNOT', cirq.unitary(cirq.CNOT)), ('CZ', cirq.unitary(cirq.CZ)),
             ('CNOT-reversed', cirq.unitary(cirq.SWAP) @ cirq.unitary(cirq.CNOT) @ cirq.unitary(cirq.SWAP)),
             ('ISWAP', cirq.unitary(cirq.ISWAP)), ('ISWAP_INV', cirq.unitary(cirq.ISWAP_INV)), ('SQRT_ISWAP', cirq.unitary(cirq.SQRT_ISWAP)),
             ('SQRT_ISWAP_INV', cirq.unitary(cirq.SQRT_ISWAP_INV)), ('SWAP', cirq.unitary(cirq.SWAP)), ('SQRT_SWAP', cirq.unitary(cirq.SWAP ** 0.5)),
             ('CZ**0.5', cirq.unitary(cirq.CZ ** 0.5)), ('CZ**-0.5', cirq.unitary(cirq.CZ ** -0.5)), ('CZ**1e-9', cirq.unitary(cirq.CZ ** 1e-9)),
             ('CZ**0.999999999', cirq.unitary(cirq.CZ ** 0.999999999)), ('XX', cirq.unitary(cirq.XX)), ('YY', cirq.unitary(cirq.YY)), ('ZZ', cirq.unitary(cirq.ZZ)),
             ('XX**0.5', cirq.unitary(cirq.XX ** 0.5)), ('ZZ**0.25', cirq.unitary(cirq.ZZ ** 0.25)), ('FSim(pi/2,pi/6)', cirq.unitary(cirq.FSimGate(math.pi / 2, math.pi / 6))),
             ('FSim(pi/4,0)', cirq.unitary(cirq.FSimGate(math.pi / 4, 0))), ('CY', cirq.unitary(cirq.ControlledGate(cirq.Y))),
             ('CH', cirq.unitary(cirq.ControlledGate(cirq.H))), ('degenerate:diag(1,1,-1,-1)', np.diag([1, 1, -1, -1]).astype(complex)),
             ('degenerate:diag(1,-1,-1,1)', np.diag([1, -1, -1, 1]).astype(complex)), ('degenerate:diag(1,1,1,i)', np.diag([1, 1, 1, 1j])),
             ('degenerate:diag(1,i,i,1)', np.diag([1, 1j, 1j, 1])), ('degenerate:diag(1,1,w,w)', np.diag([1, 1, cmath.exp(0.3j), cmath.exp(0.3j)]))]
    for name, u in named:
        out.append((name, np.asarray(u, dtype=complex), None))
    for kind in ('clifford', 'haar'):
        for i in range(3):
            out.append((f'local:{kind}#{i}', local_pair(name_rng(f'local:{kind}#{i}'), kind), None))
    out.append(('local:XZ', np.kron(np.array([[0, 1], [1, 0]]), np.diag([1, -1])).astype(complex), None))
    out.append(('local:I(x)H', np.kron(np.eye(2), np.array([[1, 1], [1, -1]]) / math.sqrt(2)).astype(complex), None))
    pts = weyl_points()
    allpts = list(pts)
    for name, xyz in pts:
        allpts += boundary_perturbations(name, xyz)
    for name, xyz in allpts:
        core = interaction_matrix(*xyz)
        out.append(('weyl:' + name, core, xyz))
        if full or not any(name.endswith(d) for d in ('1e-10', '2e-09')):
            r = name_rng('weyl+locals:' + name)
            g = cmath.exp(1j * r.uniform(0, 2 * math.pi))
            out.append(('weyl+locals:' + name, g * local_pair(r, 'haar') @ core @ local_pair(r, 'haar'), xyz))
    out += structured_inputs()                  # after the Weyl corpus: the per-index routine selection of the older corpus is unchanged
    for name, xyz in near_face_points():
        core = interaction_matrix(*xyz)
        out.append(('weyl:' + name, core, xyz))
        r = name_rng('weyl+locals:' + name)
        g = cmath.exp(1j * r.uniform(0, 2 * math.pi))
        out.append(('weyl+locals:' + name, g * local_pair(r, 'haar') @ core @ local_pair(r, 'haar'), xyz))
    out += [('struct:' + n, u, None) for n, u in real_dtype_2q()]       # real matrices handed over as float64 / int64 arrays (see `given`)
    for k, (name, xyz) in enumerate(scale_ladder_points()):            # every decade between the tolerance scale and O(1) off the chamber boundaries
        core = interaction_matrix(*xyz)
        out.append(('weyl:' + name, core, xyz))
        if full or k % 2 == 0:
            r = name_rng('weyl+locals:' + name)
            g = cmath.exp(1j * r.uniform(0, 2 * math.pi))
            out.append(('weyl+locals:' + name, g * local_pair(r, 'haar') @ core @ local_pair(r, 'haar'), xyz))
    for i in range(n_random):
        r = rng.random()
        if r < 0.5:
            out.append(('random:haar', gates.random_unitary(rng, 4), None))
        else:
            # product of library gates
            u = np.eye(4, dtype=complex)
            for _ in range(rng.randint(2, 6)):
                g = gates.draw(rng, rng.choice(['CZPow', 'CXPow', 'ISwapPow', 'SwapPow', 'XXPow', 'YYPow', 'ZZPow', 'FSim', 'PhasedFSim', 'PhasedISwap', 'Givens', 'XPow', 'HPow', 'ZPow']))
                m = cirq.unitary(g.cirq_gate(cirq))
                if m.shape == (2, 2):
                    m = np.kron(m, np.eye(2)) if rng.random() < 0.5 else np.kron(np.eye(2), m)
                u = m @ u
            out.append(('random:library-product', u, None))
    for i in range(max(8, (3 * n_random) // 10)):
        out.append(random_structured(rng))
    return out


def trig_term(x, y, z):
    p = lambda a: f'({gates.fc(math.cos(a))}, {gates.fc(math.sin(a))})'
    return f'({p(x)}, {p(y)}, {p(z)})'


# =====================================================================================================
# Stream 2: kak_decomposition
# =====================================================================================================
def kak_stream(ctx, cirq, inputs, checks):
    tol = 1e-7
    for name, u, hint in inputs:
        rep = dict(kind='kak_decomposition', input_class=name, matrix=cmat(u))
        try:
            k = cirq.kak_decomposition(given(name, u))
        except Exception as e:
            ctx.violation(f'kak_decomposition:raises:{cls(name)}', f'kak_decomposition raised {type(e).__name__}: {e} on {name}', rep)
            continue
        x, y, z = (float(c) for c in k.interaction_coefficients)
        a0, a1 = k.single_qubit_operations_after
        b0, b1 = k.single_qubit_operations_before
        ctx.count('kak_decomposition', [name, cmat(u)], not name.startswith('identity'),
                  sample=dict(input_class=name, coefficients=[x, y, z], global_phase=str(complex(k.global_phase))))
        expr = (f'fcll_close {fl(tol)} (kak_recompose {gates.fc(k.global_phase)} {gates.fmat(a0)} {gates.fmat(a1)} {gates.fmat(b0)} {gates.fmat(b1)} '
                f'{trig_term(x, y, z)}) {gates.fmat(u)}')
        checks.append(('kak_decomposition', expr, f'kak_decomposition({name}): g*(a0 x a1) exp(i(xXX+yYY+zZZ)) (b0 x b1) differs from the input by more than {tol:g}',
                       dict(rep, signature=f'kak_decomposition:reconstruct:{cls(name)}')))
        expr = f'kak_canonical_f {fl(1e-9)} {fl(x)} {fl(y)} {fl(z)}'
        checks.append(('kak_decomposition:canonical', expr, f'kak_decomposition({name}): coefficients ({x!r}, {y!r}, {z!r}) are not in the canonical Weyl chamber '
                       f'(0<=|z|<=y<=x<=pi/4, z>=0 when x is within 1e-9 of pi/4)', dict(rep, signature=f'kak_decomposition:canonical:{cls(name)}')))
        expr = ' && '.join(f'is_unitary_f {fl(tol)} 2 {gates.fmat(m)}' for m in (a0, a1, b0, b1)) + f' && fc_close {fl(tol)} ({fl(abs(k.global_phase))}, 0) (1, 0)'
        checks.append(('kak_decomposition:factors', expr, f'kak_decomposition({name}): a single-qubit factor is not unitary or |g| != 1',
                       dict(rep, signature=f'kak_decomposition:factors:{cls(name)}')))
        ctx.count('kak_decomposition:canonical', [name, cmat(u)], True)
        ctx.count('kak_decomposition:factors', [name, cmat(u)], True)


def cls(name):
    """Input class used in signatures: the corpus name without the local dressing marker (bare and dressed versions of one
    Weyl-chamber point belong to the same class)."""
    return name.replace('weyl+locals:', 'weyl:').replace('+locals', '')


def cmat(u):
    return [[[float(np.real(x)), float(np.imag(x))] for x in row] for row in np.asarray(u)]


def from_cmat(m):
    return np.array([[complex(a, b) for a, b in row] for row in m])


# ---- the dtype of the array handed to a routine (an input form: "2x2 numpy unitary matrix (of real or complex dtype)") ----
REAL_DTYPE, INT_DTYPE = 'real-dtype:', 'int-dtype:'


def given(name, u):
    """The array a routine receives for the corpus entry `name`: entries whose name carries `real-dtype:` / `int-dtype:` are real
    matrices handed over as float64 / int64 arrays (the check's own arithmetic and the Coq literals use the complex copy)."""
    if (INT_DTYPE in name or REAL_DTYPE in name) and not np.any(np.imag(u)):        # a derived matrix (magic basis, dressed, times a phase) stays complex
        re = np.real(u)
        if INT_DTYPE in name and np.array_equal(re, np.rint(re)):
            return np.ascontiguousarray(re, dtype=np.int64)
        return np.ascontiguousarray(re, dtype=np.float64)
    return u


def rot2(t):
    return np.array([[math.cos(t), -math.sin(t)], [math.sin(t), math.cos(t)]])


def refl2(t):
    return np.array([[math.cos(t), math.sin(t)], [math.sin(t), -math.cos(t)]])


def random_so(rng, n, det=1):
    """Real orthogonal matrix (QR of a Gaussian matrix, signs fixed) with the given determinant."""
    a = np.array([[rng.gauss(0, 1) for _ in range(n)] for _ in range(n)])
    q, r = np.linalg.qr(a)
    q = q * np.sign(np.diag(r))
    if np.linalg.det(q) * det < 0:
        q[:, 0] = -q[:, 0]
    return q


def cyc(n, k=1):
    return np.roll(np.eye(n), k, axis=0)


def real_dtype_1q():
    """Real 2x2 orthogonal matrices as float64 / int64 arrays: rotations (non-real eigenvalues exp(+-it)), reflections, signed permutations."""
    out = [(REAL_DTYPE + f'rot({tn})', rot2(t)) for tn, t in (('pi/2', math.pi / 2), ('0.3', 0.3), ('-2.5', -2.5), ('pi', math.pi), ('pi/4', math.pi / 4), ('1e-09', 1e-9),
                                                               ('pi/2+1e-09', math.pi / 2 + 1e-9), ('3pi/2', 1.5 * math.pi))]
    out += [(REAL_DTYPE + f'reflection({tn})', refl2(t)) for tn, t in (('0', 0.0), ('pi/2', math.pi / 2), ('pi/4', math.pi / 4), ('0.3', 0.3), ('-2.5', -2.5))]
    out += [(INT_DTYPE + n, np.array(m)) for n, m in (('identity', [[1, 0], [0, 1]]), ('X', [[0, 1], [1, 0]]), ('Z', [[1, 0], [0, -1]]), ('-identity', [[-1, 0], [0, -1]]),
                                                      ('rot(pi/2)', [[0, -1], [1, 0]]), ('rot(-pi/2)', [[0, 1], [-1, 0]]), ('-X', [[0, -1], [-1, 0]]))]
    return [(n, np.asarray(m, dtype=complex)) for n, m in out]


def real_dtype_2q():
    """Real 4x4 orthogonal matrices as float64 / int64 arrays: (signed) permutations, products of rotations, block rotations, Haar SO(4) / O(4)."""
    r = name_rng('struct:real-dtype')
    z2 = np.zeros((2, 2))
    givens = np.eye(4)
    givens[1:3, 1:3] = rot2(0.9)
    out = [(INT_DTYPE + 'identity', np.eye(4)), (INT_DTYPE + 'CNOT', np.eye(4)[[0, 1, 3, 2]]), (INT_DTYPE + 'SWAP', np.eye(4)[[0, 2, 1, 3]]), (INT_DTYPE + 'CZ', np.diag([1, 1, 1, -1])),
           (INT_DTYPE + 'perm:1230', cyc(4)), (INT_DTYPE + 'perm:2301', cyc(4, 2)), (INT_DTYPE + 'perm:0231', np.eye(4)[[0, 2, 3, 1]]), (INT_DTYPE + 'rot(pi/2)(x)I', np.kron(rot2(math.pi / 2), np.eye(2)).round()),
           (INT_DTYPE + 'signed-perm:3-cycle', np.eye(4)[[0, 2, 3, 1]] @ np.diag([1, -1, 1, -1])), (INT_DTYPE + 'controlled-rot(pi/2)', np.block([[np.eye(2), z2], [z2, rot2(math.pi / 2).round()]])),
           (REAL_DTYPE + 'CNOT', np.eye(4)[[0, 1, 3, 2]]), (REAL_DTYPE + 'H(x)H', np.kron(refl2(math.pi / 4), refl2(math.pi / 4))), (REAL_DTYPE + 'rot(0.3)(x)I', np.kron(rot2(0.3), np.eye(2))),
           (REAL_DTYPE + 'I(x)rot(0.3)', np.kron(np.eye(2), rot2(0.3))), (REAL_DTYPE + 'rot(0.3)(x)rot(-1.1)', np.kron(rot2(0.3), rot2(-1.1))),
           (REAL_DTYPE + 'rot(0.3)+rot(2.0)', np.block([[rot2(0.3), z2], [z2, rot2(2.0)]])), (REAL_DTYPE + 'controlled-rot(0.7)', np.block([[np.eye(2), z2], [z2, rot2(0.7)]])),
           (REAL_DTYPE + 'rot(0.3)+reflection(1.0)', np.block([[rot2(0.3), z2], [z2, refl2(1.0)]])), (REAL_DTYPE + 'givens(0.9)', givens)]
    for i in range(3):
        out.append((REAL_DTYPE + f'SO(4)#{i}', random_so(r, 4)))
    out.append((REAL_DTYPE + 'O(4):det=-1', random_so(r, 4, -1)))
    return [(n, np.asarray(m, dtype=complex)) for n, m in out]


def real_dtype_3q():
    r = name_rng('struct:real-dtype:3q')
    out = [(INT_DTYPE + 'CCX', np.eye(8)[[0, 1, 2, 3, 4, 5, 7, 6]]), (INT_DTYPE + 'perm8:8-cycle', cyc(8)), (INT_DTYPE + 'perm8:3-cycle+5-cycle', np.eye(8)[[1, 2, 0, 4, 5, 6, 7, 3]]),
           (INT_DTYPE + 'CSWAP', np.eye(8)[[0, 1, 2, 3, 4, 6, 5, 7]]), (REAL_DTYPE + 'perm8:8-cycle', cyc(8)), (REAL_DTYPE + 'SO(8)#0', random_so(r, 8)), (REAL_DTYPE + 'SO(8)#1', random_so(r, 8)),
           (REAL_DTYPE + 'O(8):det=-1', random_so(r, 8, -1)), (REAL_DTYPE + 'rot(0.3)(x)rot(1.0)(x)rot(-2.0)', np.kron(np.kron(rot2(0.3), rot2(1.0)), rot2(-2.0))),
           (REAL_DTYPE + 'SO(4)+SO(4)', np.block([[random_so(r, 4), np.zeros((4, 4))], [np.zeros((4, 4)), random_so(r, 4)]])), (REAL_DTYPE + 'H(x)H(x)H', np.kron(np.kron(refl2(math.pi / 4), refl2(math.pi / 4)), refl2(math.pi / 4)))]
    return [(n, np.asarray(m, dtype=complex)) for n, m in out]


def real_normal_inputs(rng):
    """Real NORMAL matrices as float64 / int64 arrays for the eigendecomposition routines: orthogonal matrices with non-real spectrum (rotations, cyclic permutations,
    SO(n)), skew-symmetric and other non-unitary normal matrices, real symmetric ones, sizes 1..8; the last entries are seeded."""
    r = name_rng('real-normal')
    sk = np.array([[0.0, 2.0, 0.0], [-2.0, 0.0, 1.0], [0.0, -1.0, 0.0]])
    out = [(INT_DTYPE + 'perm:3-cycle', cyc(3)), (REAL_DTYPE + 'perm:3-cycle', cyc(3)), (INT_DTYPE + 'perm:5-cycle', cyc(5)), (INT_DTYPE + 'perm:8-cycle', cyc(8)), (REAL_DTYPE + 'skew-symmetric3', sk),
           (INT_DTYPE + 'skew-symmetric2', np.array([[0, -3], [3, 0]])), (REAL_DTYPE + 'normal:2I+skew', 2 * np.eye(3) + sk), (REAL_DTYPE + 'normal:0.5*rot(0.3)', 0.5 * rot2(0.3)),
           (REAL_DTYPE + 'symmetric3', np.array([[2.0, 1, 0], [1, 2, 1], [0, 1, 2]])), (INT_DTYPE + 'symmetric2', np.array([[2, 1], [1, 2]])), (REAL_DTYPE + 'scalar1', np.array([[-1.0]])),
           (REAL_DTYPE + 'SO(3)#0', random_so(r, 3)), (REAL_DTYPE + 'SO(5)#0', random_so(r, 5)), (REAL_DTYPE + 'O(3):det=-1', random_so(r, 3, -1)), (REAL_DTYPE + 'zero2', np.zeros((2, 2)))]
    for n in (2, 3, 4, 6):
        out.append((REAL_DTYPE + f'random:SO({n})', random_so(rng, n)))
    return [(n, np.asarray(m, dtype=complex)) for n, m in out]


# =====================================================================================================
# Operations -> Gallina terms, and the generic validation of a returned operation list
# =====================================================================================================
class Conv:
    """Cirq operation -> `gop` term of the float instance. Library gates go through the shared vocabulary (their matrix is
    computed inside Coq from the parameters); anything else enters through cirq.unitary (counted)."""

    def __init__(self, cirq, mods):
        self.cirq, self.mods = cirq, mods
        import collections
        self.via_unitary = collections.Counter()
        c = cirq
        self.eig = [(c.CZPowGate, 'CZPow'), (c.CXPowGate, 'CXPow'), (c.ISwapPowGate, 'ISwapPow'), (c.SwapPowGate, 'SwapPow'), (c.XXPowGate, 'XXPow'),
                    (c.YYPowGate, 'YYPow'), (c.ZZPowGate, 'ZZPow'), (c.HPowGate, 'HPow'), (c.CCXPowGate, 'CCXPow'), (c.CCZPowGate, 'CCZPow'),
                    (c.XPowGate, 'XPow'), (c.YPowGate, 'YPow'), (c.ZPowGate, 'ZPow')]

    def gate(self, g):
        c = self.cirq
        for t, fam in self.eig:
            if isinstance(g, t):
                if getattr(g, 'dimension', 2) != 2:
                    return None
                shape = gates.EIG_SHAPE.get(fam, (2, 2))
                return gates.G(fam, dict(e=float(g.exponent), s=float(g.global_shift)), shape)
        if isinstance(g, c.FSimGate):
            return gates.G('FSim', dict(theta=float(g.theta), phi=float(g.phi)), (2, 2))
        if isinstance(g, c.PhasedISwapPowGate):
            return gates.G('PhasedISwap', dict(p=float(g.phase_exponent), e=float(g.exponent)), (2, 2))
        if isinstance(g, c.PhasedXPowGate):
            return gates.G('PhasedX', dict(p=float(g.phase_exponent), e=float(g.exponent), s=float(g.global_shift)), (2,))
        if isinstance(g, c.PhasedXZGate):
            return gates.G('PhasedXZ', dict(x=float(g.x_exponent), z=float(g.z_exponent), a=float(g.axis_phase_exponent)), (2,))
        if isinstance(g, self.mods['cirq_google'].SycamoreGate):
            return gates.G('Sycamore', {}, (2, 2))
        if isinstance(g, c.GlobalPhaseGate):
            z = complex(g.coefficient)
            if abs(abs(z) - 1) > 1e-9:
                return None
            return gates.G('GlobalPhase', dict(rads=cmath.phase(z)), ())
        if isinstance(g, c.MatrixGate):
            return gates.G('Matrix', dict(m=np.asarray(c.unitary(g), dtype=complex)), c.qid_shape(g))
        if isinstance(g, c.IdentityGate):
            return gates.G('Identity', {}, c.qid_shape(g))
        return None

    def ops(self, ops, qubits):
        """-> Gallina list of gop, or raises ValueError when an operation is not a unitary on the given qubits."""
        c = self.cirq
        idx = {q: i for i, q in enumerate(qubits)}
        items = []
        for op in ops:
            if any(q not in idx for q in op.qubits):
                raise ValueError(f'operation {op!r} acts outside the given qubits')
            rec = self.gate(op.gate) if op.gate is not None else None
            if rec is None:
                if not c.has_unitary(op):
                    raise ValueError(f'operation {op!r} has no unitary')
                self.via_unitary[type(op.gate).__name__] += 1
                rec = gates.G('Matrix', dict(m=np.asarray(c.unitary(op), dtype=complex)), c.qid_shape(op))
            items.append(f'({rec.coq()}, {gates.nlist([idx[q] for q in op.qubits])})')
        return '[' + ';\n '.join(items) + ']'


def sparse_term(conv, ops, qubits):
    """-> Gallina list of `cop` (Xform/CtrlSynth.v: one-qubit gate / CNOT / CCNOT on bit positions; qubit k of n is bit n-1-k), or raises
    ValueError when an operation is none of the three (the two multi-controlled routines promise "exclusively 1-qubit, CNOT and CCNOT gates")."""
    c = conv.cirq
    n = len(qubits)
    bit = {q: n - 1 - i for i, q in enumerate(qubits)}
    items = []
    for op in ops:
        if any(q not in bit for q in op.qubits):
            raise ValueError(f'operation {op!r} acts outside the given qubits')
        g = op.gate
        b = [bit[q] for q in op.qubits]
        full = g is not None and isinstance(g, (c.CXPowGate, c.CCXPowGate)) and float(g.exponent) == 1.0 and g.global_shift == 0
        if len(b) == 1:
            rec = conv.gate(g) if g is not None else None
            if rec is None:
                if not c.has_unitary(op):
                    raise ValueError(f'operation {op!r} has no unitary')
                conv.via_unitary[type(g).__name__] += 1
                rec = gates.G('Matrix', dict(m=np.asarray(c.unitary(op), dtype=complex)), (2,))
            items.append(f'c1_of {rec.coq()} {b[0]}%N')
        elif full and isinstance(g, c.CXPowGate) and len(b) == 2:
            items.append(f'CX {b[0]}%N {b[1]}%N')
        elif full and isinstance(g, c.CCXPowGate) and len(b) == 3:
            items.append(f'CCX {b[0]}%N {b[1]}%N {b[2]}%N')
        else:
            raise ValueError(f'operation {str(op)[:80]} is not a one-qubit gate, a CNOT or a CCNOT')
    return '[' + ';\n '.join(items) + ']'


def opdescs(ops, native):
    return '[' + '; '.join(f'mkOp {len(op.qubits)} {"true" if native(op) else "false"}' for op in ops) + ']'


def numpy_unitary(cirq, ops, qubits):
    return cirq.Circuit(ops).unitary(qubit_order=qubits, qubits_that_should_be_present=qubits)


def residual(a, b, phase):
    """diagnostic only (the deciding comparison is made in Coq)"""
    a, b = np.asarray(a), np.asarray(b)
    if a.shape != b.shape:
        return float('inf')
    if phase:
        i = int(np.argmax(np.abs(b)))
        best = float(np.max(np.abs(a - b)))
        if abs(b.flat[i]) > 1e-30:
            best = float(np.max(np.abs(a - b * (a.flat[i] / b.flat[i]))))
        s = np.vdot(b.ravel(), a.ravel())                 # phase of the inner product: the other witness of "for some unit factor"
        if abs(s) > 1e-9:
            best = min(best, float(np.max(np.abs(a - b * (s / abs(s))))))
        return best
    return float(np.max(np.abs(a - b)))


def add_ops_checks(ctx, conv, checks, routine, opts, name, u, ops, qubits, tol, phase, count=None, nontrivial=True, extra=None, cmp=None,
                   uterm=None, alt=None, what_cmp=None, sig_class=None):
    """count: (bound, exact: bool, native predicate, text) or None.  Appends the Coq comparisons for one returned op list.
    cmp: (validator name, text) replacing the comparison of the whole unitary (isometries compare the columns that matter).
    uterm: the reference matrix as a Gallina term (a gate of the shared vocabulary evaluated inside Coq) instead of the literal of u.
    alt: (validator name, signature, note): a weaker comparison evaluated only when the documented one fails; if it holds, the failure
    is reported under that signature (it classifies a failure, it never excuses one).
    what_cmp: the sentence saying what differs from what, when u is not the routine's input (a reported matrix).
    sig_class: the input class used in signatures instead of the corpus name (a property of the input shared by several corpus entries)."""
    cirq = conv.cirq
    ops = list(cirq.flatten_to_ops(ops))
    rep = dict(kind='synth', routine=routine, opts=opts, input_class=name, matrix=cmat(u))
    scls = sig_class or cls(name)
    if extra:
        rep.update(extra)
    okey = ','.join(f'{k}={v}' for k, v in sorted(opts.items()))
    stream = routine + (f'[{okey}]' if okey else '')
    try:
        term = conv.ops(ops, qubits)
    except Exception as e:
        ctx.violation(f'{routine}:form:{scls}', f'{stream} on {name}: {e}', rep)
        return
    n = len(qubits)
    ctx.count(stream, [name, rep['matrix']], nontrivial, sample=dict(input_class=name, operations=[str(o) for o in ops[:12]], n_ops=len(ops)))
    # "up to global phase" = for some unit factor: the phase aligned at the largest entry or the phase of the inner product (KakCanonFloat.reconstructs_anyphase_f)
    cmpf = cmp[0] if cmp else 'reconstructs_anyphase_f' if phase else 'reconstructs_f'
    try:
        res = residual(numpy_unitary(cirq, ops, qubits)[:, :2] if cmp else numpy_unitary(cirq, ops, qubits), u[:, :2] if cmp else u, phase)
    except Exception:
        res = None
    what = (f'{stream} on {name}: {cmp[1] if cmp else what_cmp or "the product of the returned operations differs from the input"}'
            f'{" (up to global phase)" if phase else ""} by more than the documented tolerance {tol:g} (numpy estimate of the residual: {res})')
    um = uterm if uterm is not None else gates.fmat(u)
    more = dict(alt=f'{alt[0]} {fl(tol)} {gates.nlist([2] * n)} {term} {um}', alt_signature=alt[1], alt_note=alt[2]) if alt else {}
    checks.append((stream, f'{cmpf} {fl(tol)} {gates.nlist([2] * n)} {term} {um}', what,
                   dict(rep, signature=f'{routine}:reconstruct:' + (extra or {}).get('sig_prefix', '') + scls, loose=f'{cmpf} {fl(10 * tol)} {gates.nlist([2] * n)} {term} {um}',
                        loose2=f'{cmpf} {fl(1e-6)} {gates.nlist([2] * n)} {term} {um}' if 10 * tol < 1e-6 else 'false',
                        loose_signature=f'{routine}:reconstruct:' + (scls if (extra or {}).get('class_first') else 'within-10x-tolerance'), **more)))
    if count is not None:
        bound, exact, native, text = count
        n2 = sum(1 for o in ops if len(o.qubits) >= 2)
        checks.append((stream + ':count', f'{"exact_count" if exact else "within_count"} {opdescs(ops, native)} {bound}',
                       f'{stream} on {name}: {text}; got {n2} operations on >= 2 qubits: {[str(o) for o in ops if len(o.qubits) >= 2]}',
                       dict(rep, signature=f'{routine}:count:' + (extra or {}).get('sig_prefix', '') + scls)))
        ctx.count(stream + ':count', [name, rep['matrix']], nontrivial)


# =====================================================================================================
# Stream 3: two-qubit synthesis routines
# =====================================================================================================
ROUTINES.update({
    'two_qubit_matrix_to_cz_operations': 'docstring: "operations implementing the matrix" (an operation list carries no global phase: compared up to phase); atol = "a limit on the amount of absolute error introduced by the construction" -> residual <= atol (max over entries, real and imaginary parts); at most 3 two-qubit gates, all CZPowGate, exponent 1 unless allow_partial_czs; ValueError documented when allow_partial_czs=False "and the matrix requires partial CZs".',
    'two_qubit_matrix_to_diagonal_and_cz_operations': 'docstring: V = Circuit(ops) @ D with D diagonal; residual <= atol up to phase (built on the previous routine); <= 3 CZ.',
    'two_qubit_matrix_to_sqrt_iswap_operations': 'docstring: at most three SQRT_ISWAP (SQRT_ISWAP_INV with use_sqrt_iswap_inv) + single-qubit gates; exactly required_sqrt_iswap_count when given, ValueError only if the matrix needs more; fewest possible otherwise (0 iff locally identity, 1 iff locally sqrt-iSWAP, 2 iff x >= y+|z|: checked where the corpus point is >= 1e-6 inside a region); residual <= atol up to phase.',
    'decompose_two_qubit_interaction_into_four_fsim_gates': 'docstring: exactly four of the given FSim gate, single-qubit operations and a global phase operation: compared EXACTLY (phase included). No tolerance stated: internal atol 1e-8 x 10 = 1e-7.',
    'two_qubit_matrix_to_ion_operations': 'docstring: MS + single-qubit rotations implementing the matrix (up to phase); atol = "limit on the amount of error": residual <= atol; at most 3 MS gates (one per interaction coefficient).',
    'two_qubit_matrix_to_sycamore_operations': 'docstring: only cirq_google.SYC + single-qubit rotations, "may not be optimal" (no count promised: each of <= 3 CZPow costs 2 SYC, bound 6 reported); atol = "limit on absolute error": residual <= atol up to phase.',
})


ROUTINES_2Q = ['two_qubit_matrix_to_cz_operations', 'two_qubit_matrix_to_diagonal_and_cz_operations', 'two_qubit_matrix_to_sqrt_iswap_operations',
               'decompose_two_qubit_interaction_into_four_fsim_gates', 'two_qubit_matrix_to_ion_operations', 'two_qubit_matrix_to_sycamore_operations']


def is_cz(allow_partial):
    def f(op):
        g = op.gate
        import cirq
        return isinstance(g, cirq.CZPowGate) and (allow_partial or abs((float(g.exponent) % 2) - 1) < 1e-9) and g.global_shift == 0
    return f


def region_count(xyz, margin=1e-6):
    """Documented minimal sqrt-iSWAP count of a canonical KAK vector, or None within `margin` of a region boundary."""
    if xyz is None:
        return None
    x, y, z = xyz
    q = PI4
    if not (q + 1e-12 >= x >= y >= abs(z)):
        return None
    d0 = max(abs(x), abs(y), abs(z))
    d1 = max(abs(x - q / 2), abs(y - q / 2), abs(z))
    if d0 < 1e-12:
        return 0
    if d1 < 1e-12:
        return 1
    if d0 < margin or d1 < margin:
        return None
    s = x - y - abs(z)
    if abs(s) < margin:
        return None
    return 2 if s > 0 else 3


FSIMS = {'FSim(pi/2,pi/6)': (math.pi / 2, math.pi / 6), 'FSim(pi/2,0)': (math.pi / 2, 0.0), 'ISWAP': None,
         'FSim(3pi/8,pi/4)': (3 * math.pi / 8, math.pi / 4), 'FSim(5pi/8,-pi/4)': (5 * math.pi / 8, -math.pi / 4),
         'FSim(1.4,0.2)': (1.4, 0.2), 'FSim(-pi/2,pi/6)': (-math.pi / 2, math.pi / 6)}


def run_2q(ctx, cirq, mods, conv, checks, routine, opts, name, u, hint):
    """One invocation of one two-qubit routine on one input + the Coq comparisons of its result."""
    q = cirq.LineQubit.range(2)
    cg = mods['cirq_google']
    nt = not name.startswith('identity')
    rep = dict(kind='synth', routine=routine, opts=opts, input_class=name, matrix=cmat(u), hint=list(hint) if hint is not None else None)
    ug = given(name, u)

    def raised(e, extra=''):
        ctx.violation(f'{routine}:raises:{cls(name)}', f'{routine}({opts}) raised {type(e).__name__}: {e} on {name}{extra}', rep)

    if routine == 'two_qubit_matrix_to_cz_operations':
        try:
            ops = cirq.two_qubit_matrix_to_cz_operations(q[0], q[1], ug, **opts)
        except Exception as e:
            return raised(e, ' (every two-qubit unitary can be written with three full CZs)')
        partial = opts['allow_partial_czs']
        add_ops_checks(ctx, conv, checks, routine, opts, name, u, ops, q, opts['atol'], True,
                       (3, False, is_cz(partial), 'at most 3 two-qubit gates, all CZ' + (' powers' if partial else ' (no partial CZ)')), nt)
    elif routine == 'two_qubit_matrix_to_diagonal_and_cz_operations':
        try:
            d, ops = cirq.two_qubit_matrix_to_diagonal_and_cz_operations(q[0], q[1], ug, **opts)
        except Exception as e:
            return raised(e)
        ops = list(ops)
        d = np.asarray(d, dtype=complex)
        # V = Circuit(ops) @ D: D acts first
        add_ops_checks(ctx, conv, checks, routine, opts, name, u, [cirq.MatrixGate(d).on(*q)] + ops, q, 1e-8, True, None, nt)
        checks.append((routine + ':form', f'is_diagonal_f {fl(1e-8)} {gates.fmat(d)} && is_unitary_f {fl(1e-7)} 4 {gates.fmat(d)} && '
                       f'within_count {opdescs(ops, is_cz(opts["allow_partial_czs"]))} 3',
                       f'{routine} on {name}: D is not a diagonal unitary or more than 3 CZ are used', dict(rep, signature=f'{routine}:form:{cls(name)}')))
    elif routine == 'two_qubit_matrix_to_sqrt_iswap_operations':
        req, inv = opts['required_sqrt_iswap_count'], opts['use_sqrt_iswap_inv']
        expected = region_count(hint)
        try:
            ops = cirq.two_qubit_matrix_to_sqrt_iswap_operations(q[0], q[1], ug, **opts)
        except ValueError as e:
            ctx.count(f'{routine}[required={req}]:ValueError', [name, rep['matrix']], nt)
            if req is None or req >= 3 or (expected is not None and expected <= req):
                raised(e, f' although {expected if expected is not None else "at most 3"} sqrt-iSWAP suffice')
            return
        except Exception as e:
            return raised(e)
        ex = -0.5 if inv else 0.5
        native = lambda op: isinstance(op.gate, cirq.ISwapPowGate) and abs(float(op.gate.exponent) - ex) < 1e-12
        if req is not None:
            cnt = (req, True, native, f'exactly required_sqrt_iswap_count={req} sqrt-iSWAP')
        elif expected is not None:
            cnt = (expected, True, native, f'the fewest possible number of sqrt-iSWAP, {expected} for KAK coefficients {hint}')
        else:
            cnt = (3, False, native, 'at most three sqrt-iSWAP')
        add_ops_checks(ctx, conv, checks, routine, opts, name, u, ops, q, opts['atol'], True, cnt, nt)
    elif routine == 'decompose_two_qubit_interaction_into_four_fsim_gates':
        fname = opts['fsim_gate']
        fg = cirq.ISWAP if FSIMS[fname] is None else cirq.FSimGate(*FSIMS[fname])
        try:
            circ = cirq.decompose_two_qubit_interaction_into_four_fsim_gates(ug, fsim_gate=fg, qubits=q)
        except Exception as e:
            return raised(e)
        add_ops_checks(ctx, conv, checks, routine, opts, name, u, circ.all_operations(), q, 1e-7, False,
                       (4, True, lambda op: op.gate == fg, f'exactly four {fname} gates'), nt, extra=dict(sig_prefix='' if iswap_z_class(hint) else fname + ':', class_first=bool(iswap_z_class(hint))),
                       sig_class=iswap_z_class(hint))
    elif routine == 'two_qubit_matrix_to_ion_operations':
        try:
            ops = cirq.two_qubit_matrix_to_ion_operations(q[0], q[1], ug, **opts)
        except Exception as e:
            return raised(e)
        add_ops_checks(ctx, conv, checks, routine, opts, name, u, ops, q, 1e-8, True,
                       (3, False, lambda op: isinstance(op.gate, cirq.XXPowGate), 'at most 3 Molmer-Sorensen gates'), nt)
    elif routine == 'two_qubit_matrix_to_sycamore_operations':
        try:
            ops = list(cirq.flatten_to_ops(cg.two_qubit_matrix_to_sycamore_operations(q[0], q[1], ug, **opts)))
        except Exception as e:
            return raised(e)
        add_ops_checks(ctx, conv, checks, routine, opts, name, u, ops, q, 1e-8, True,
                       (6, False, lambda op: isinstance(op.gate, cg.SycamoreGate), 'only SYC as two-qubit gate (<= 6: two per CZPow)'), nt)
    else:
        raise KeyError(routine)


def is_structured(name):
    return name.startswith('struct:') or name.startswith('random:struct:')


def synth2q_stream(ctx, cirq, mods, conv, inputs, checks, sub):
    fn = list(FSIMS)
    CZ, SQ, F4 = 'two_qubit_matrix_to_cz_operations', 'two_qubit_matrix_to_sqrt_iswap_operations', 'decompose_two_qubit_interaction_into_four_fsim_gates'
    for k, (name, u, hint) in enumerate(inputs):
        special = not name.startswith('random')
        rng = name_rng(name) if special else ctx.rng
        every = k % sub == 0
        routines = every or is_structured(name)              # structured inputs meet every routine; the extra flag combinations rotate over them
        sq = lambda **kw: (SQ, dict(dict(required_sqrt_iswap_count=None, use_sqrt_iswap_inv=False, clean_operations=False, atol=1e-8), **kw))
        todo = [(CZ, dict(allow_partial_czs=False, clean_operations=True, atol=1e-8)), (CZ, dict(allow_partial_czs=True, clean_operations=True, atol=1e-8)),
                sq(), (F4, dict(fsim_gate=fn[0]))]
        if every:
            todo += [(CZ, dict(allow_partial_czs=False, clean_operations=False, atol=1e-8)), (CZ, dict(allow_partial_czs=True, clean_operations=False, atol=1e-8)),
                     (CZ, dict(allow_partial_czs=rng.random() < 0.5, clean_operations=rng.random() < 0.5, atol=rng.choice([1e-6, 1e-10, 1e-5]))),
                     sq(required_sqrt_iswap_count=rng.choice([0, 1])), sq(use_sqrt_iswap_inv=True, clean_operations=True, atol=rng.choice([1e-8, 1e-6])),
                     (F4, dict(fsim_gate=rng.choice(fn[1:])))]
        elif is_structured(name):
            todo += [[(CZ, dict(allow_partial_czs=False, clean_operations=False, atol=1e-8)), (CZ, dict(allow_partial_czs=True, clean_operations=False, atol=1e-8)),
                      (CZ, dict(allow_partial_czs=rng.random() < 0.5, clean_operations=rng.random() < 0.5, atol=rng.choice([1e-6, 1e-10, 1e-5]))),
                      sq(required_sqrt_iswap_count=rng.choice([0, 1])), sq(use_sqrt_iswap_inv=True, clean_operations=True, atol=rng.choice([1e-8, 1e-6])),
                      (F4, dict(fsim_gate=rng.choice(fn[1:])))][k % 6]]
        if special or routines:
            todo += [sq(required_sqrt_iswap_count=3) if k % 2 else sq(required_sqrt_iswap_count=2, use_sqrt_iswap_inv=rng.random() < 0.5, clean_operations=rng.random() < 0.5)]
        if (special and k % 2 == 0) or routines:
            todo += [('two_qubit_matrix_to_ion_operations', dict(clean_operations=k % 3 != 0))]
        if (special and k % 4 == 1) or routines:
            todo += [('two_qubit_matrix_to_diagonal_and_cz_operations', dict(allow_partial_czs=rng.random() < 0.5))]
        if (special and k % 4 == 3) or routines:
            todo += [('two_qubit_matrix_to_sycamore_operations', dict(clean_operations=k % 8 != 3))]
        for routine, opts in todo:
            run_2q(ctx, cirq, mods, conv, checks, routine, opts, name, u, hint)
        if k % 25 == 0:
            tick()


# =====================================================================================================
# Stream 3b: local-equivalence class routines — num_cnots_required, kak_vector, extract_right_diag, cz isometry
# =====================================================================================================
ROUTINES.update({
    'num_cnots_required': 'docstring: "the min number of CNOT/CZ gates required by a two-qubit unitary"; atol = "the absolute tolerance used to make this judgement". '
                          'Reference: the class of the canonical KAK coefficients (Xform/KakCount.v cz_class: 0 at the origin, 1 at (pi/4,0,0), 2 on the rest of the face z=0, 3 elsewhere). '
                          'The coefficients are those the corpus point was built from, or (named gates, random unitaries) those returned by kak_decomposition, whose recomposition is '
                          'validated in the same run. Tolerance: within atol/50 of a stratum (sup norm on the coefficients) only the stratum\'s count is accepted, between atol/50 and 100*atol '
                          '(sqrt(atol) around the origin and around the vertex (pi/4,0,0), where the routine\'s tests are quadratic in the coefficients) either, beyond that the stratum\'s count is wrong (cz_count_ok_f).',
    'kak_vector': 'docstring: the KAK vector of the unitary (or of each unitary of a (...,4,4) array), canonical as kak_canonicalize_vector documents (atol = "how close k_x must be to pi/4 to '
                  'guarantee k_z >= 0"). Compared with the coefficients of the validated kak_decomposition of the same unitary, or their mirror image (pi/2-x, y, -z); no tolerance on the '
                  'value stated: atol(1e-8) x 10 = 1e-7.',
    'extract_right_diag': 'docstring: a diagonal (2-CNOT) unitary D such that U @ D needs only two CNOT when U is a 3-CNOT unitary. D must be a diagonal unitary and the validated KAK '
                          'coefficients of U @ D must have |z| <= 1e-7 (class <= 2). Run on the inputs whose coefficients have |z| > 1e-6.',
    'two_qubit_matrix_to_cz_isometry': 'docstring: at most 2 CZs + single-qubit rotations implementing the action of the matrix "assuming q0 is initially |0>": the first two columns of the '
                                       'circuit\'s unitary equal those of the matrix up to one phase; atol = "limit on the amount of absolute error": residual <= atol; partial CZs only when allowed.',
})
ROUTINES_CLASS = ['num_cnots_required', 'kak_vector', 'extract_right_diag', 'two_qubit_matrix_to_cz_isometry']


def py_cz_class(x, y, z, eps=1e-12):
    """Diagnostic text only (the deciding comparison is cz_count_ok_f inside Coq)."""
    if max(abs(x), abs(y), abs(z)) <= eps:
        return 0
    if max(abs(x - PI4), abs(y), abs(z)) <= eps:
        return 1
    return 2 if abs(z) <= eps else 3


def kak_cert(cirq, m):
    """kak_decomposition as a certificate producer: -> (k, (x, y, z), Coq expression `recomposes to m, unitary factors, canonical`)."""
    k = cirq.kak_decomposition(m)
    x, y, z = (float(c) for c in k.interaction_coefficients)
    a0, a1 = k.single_qubit_operations_after
    b0, b1 = k.single_qubit_operations_before
    rec = f'(kak_recompose {gates.fc(k.global_phase)} {gates.fmat(a0)} {gates.fmat(a1)} {gates.fmat(b0)} {gates.fmat(b1)} {trig_term(x, y, z)})'
    fac = ' && '.join(f'is_unitary_f {fl(1e-7)} 2 {gates.fmat(f)}' for f in (a0, a1, b0, b1))
    return k, (x, y, z), rec, f'{fac} && kak_canonical_f {fl(1e-9)} {fl(x)} {fl(y)} {fl(z)}'


def run_class(ctx, cirq, mods, conv, checks, routine, opts, name, u, hint, batch_row=None):
    """One invocation of one class routine on one input + its Coq comparisons.  hint: the coefficients the input was built from."""
    nt = not name.startswith('identity')
    rep = dict(kind='class', routine=routine, opts=opts, input_class=name, matrix=cmat(u), hint=list(hint) if hint is not None else None)
    okey = ','.join(f'{k}={v}' for k, v in sorted(opts.items()))
    stream = routine + (f'[{okey}]' if okey else '')
    ug = given(name, u)
    scls = real_neg_det_class(ug) or cls(name)

    def raised(e):
        ctx.violation(f'{routine}:raises:{scls}', f'{routine}({opts}) raised {type(e).__name__}: {str(e)[:200]} on {name}', rep)

    try:
        k, kxyz, rec, cert = kak_cert(cirq, u)
    except Exception:
        return                                      # reported by the kak_decomposition stream
    x, y, z = (float(c) for c in hint) if hint is not None else kxyz
    src = 'the KAK coefficients it was built from' if hint is not None else 'its KAK coefficients (kak_decomposition, recomposition validated)'
    certified = 'true' if hint is not None else f'(fcll_close {fl(1e-7)} {rec} {gates.fmat(u)} && {cert})'
    if routine == 'num_cnots_required':
        atol = opts.get('atol', 1e-8)
        try:
            n = cirq.num_cnots_required(ug, **opts)
        except Exception as e:
            return raised(e)
        ctx.count(stream, [name, rep['matrix']], nt, sample=dict(input_class=name, coefficients=[x, y, z], returned=int(n) if isinstance(n, (int, np.integer)) else repr(n)))
        if not isinstance(n, (int, np.integer)) or not 0 <= int(n) <= 3:
            ctx.violation(f'{routine}:form:{cls(name)}', f'{stream} on {name}: returned {n!r}, not a count in 0..3', rep)
            return
        lo, m = atol / 50, 100 * atol
        m0 = max(m, math.sqrt(atol))
        if max(abs(x - PI4), abs(y), abs(z)) <= m0:
            m = m0          # next to the vertex (pi/4,0,0) the routine's tests (a2 - 2, Im a3 = 4 s2x s2y s2z) are quadratic in (y, z), exactly as a3 -+ 4 is at the origin
        want = py_cz_class(x, y, z, lo)
        checks.append((stream, f'negb {certified} || cz_count_ok_f {fl(lo)} {fl(m0)} {fl(m)} {fl(x)} {fl(y)} {fl(z)} {int(n)}',
                       f'{stream} on {name}: returned {int(n)}, but {src} ({x!r}, {y!r}, {z!r}) put the unitary '
                       f'{["at the origin: a product of single-qubit gates, 0 CNOT/CZ", "at the vertex (pi/4,0,0): the CNOT/CZ class, exactly 1 CNOT/CZ", "on the face z=0 away from the origin and from (pi/4,0,0): 2 CNOT/CZ are necessary and sufficient", "off the face z=0: 3 CNOT/CZ are necessary"][want]}'
                       f' (tolerance zones: {lo:g} / {m:g}, {m0:g} around the origin)',
                       dict(rep, signature=f'{routine}:count:{scls}')))
    elif routine == 'kak_vector':
        try:
            v = batch_row if batch_row is not None else cirq.kak_vector(ug, **opts)
            v = [float(c) for c in np.asarray(v).reshape(3)]
        except Exception as e:
            return raised(e)
        atol = opts.get('atol', 1e-8)
        ctx.count(stream, [name, rep['matrix']], nt, sample=dict(input_class=name, kak_vector=v, kak_decomposition_coefficients=list(kxyz)))
        cx, cy, cz = kxyz
        cert_u = f'(fcll_close {fl(1e-7)} {rec} {gates.fmat(u)} && {cert})'
        checks.append((stream, f'negb {cert_u} || kak_vector_ok_f {fl(atol)} {fl(1e-7)} {fl(v[0])} {fl(v[1])} {fl(v[2])} {fl(cx)} {fl(cy)} {fl(cz)}',
                       f'{stream} on {name}: returned {v}, which is not canonical (0<=|z|<=y<=x<=pi/4, z>=0 when x is within atol of pi/4) or differs by more than 1e-7 from the '
                       f'coefficients {list(kxyz)} of the validated kak_decomposition of the same unitary and from their mirror image (pi/2-x, y, -z)',
                       dict(rep, signature=f'{routine}:value:' + (NEAR_FACE_CLASS if in_rtol_window(kxyz, atol) else cls(name)))))
    elif routine == 'extract_right_diag':
        if abs(z) <= 1e-6:
            return
        try:
            d = np.asarray(cirq.linalg.extract_right_diag(ug), dtype=complex)
            if not np.all(np.isfinite(d)):
                ctx.violation(f'{routine}:form:{scls}', f'{stream} on {name}: the returned matrix has non-finite entries: diag = {np.diag(d).tolist()}', rep)
                return
            ud = u @ d
            k2, (x2, y2, z2), rec2, cert2 = kak_cert(cirq, ud)
        except Exception as e:
            return raised(e)
        ctx.count(stream, [name, rep['matrix']], nt, sample=dict(input_class=name, coefficients=[x, y, z], diagonal=[str(complex(c)) for c in np.diag(d)], coefficients_of_U_D=[x2, y2, z2]))
        um, dm = gates.fmat(u), gates.fmat(d)
        checks.append((stream, f'is_diagonal_f {fl(1e-8)} {dm} && is_unitary_f {fl(1e-7)} 4 {dm} && '
                               f'(negb (fcll_close {fl(1e-7)} {rec2} (mmul FOps {um} {dm}) && {cert2}) || PrimFloat.leb (PrimFloat.abs {fl(z2)}) {fl(1e-7)})',
                       f'{stream} on {name} (3-CNOT unitary, coefficients ({x!r}, {y!r}, {z!r})): D = diag{[complex(c) for c in np.diag(d)]} is not a diagonal unitary, or U @ D still needs three CNOT: '
                       f'its validated KAK coefficients are ({x2!r}, {y2!r}, {z2!r}) with |z| > 1e-7',
                       dict(rep, signature=f'{routine}:class:{scls}')))
    elif routine == 'two_qubit_matrix_to_cz_isometry':
        q = cirq.LineQubit.range(2)
        try:
            ops = cirq.two_qubit_matrix_to_cz_isometry(q[0], q[1], ug, **opts)
        except Exception as e:
            return raised(e)
        partial = opts['allow_partial_czs']
        add_ops_checks(ctx, conv, checks, routine, opts, name, u, ops, q, opts['atol'], True,
                       (2, False, is_cz(partial), 'at most 2 two-qubit gates, all CZ' + (' powers' if partial else ' (no partial CZ)')), nt,
                       extra=dict(kind='class', hint=rep['hint']),
                       cmp=('isometry_phase_f', 'the first two columns (first qubit in |0>) of the unitary of the returned operations differ from those of the input'),
                       sig_class=scls)
    else:
        raise KeyError(routine)


REAL_NEG_DET_CLASS = 'real-dtype-input-with-negative-determinant'


def real_neg_det_class(a):
    """A class of inputs (a property of the array handed over): real or integer dtype and determinant < 0 (CNOT, CZ, SWAP, reflections ... written without `+0j`)."""
    a = np.asarray(a)
    if a.ndim == 2 and a.shape[0] == a.shape[1] and not np.iscomplexobj(a) and np.linalg.det(a) < 0:
        return REAL_NEG_DET_CLASS
    return None


NEAR_FACE_CLASS = 'between-atol-and-1e-5-below-face-x=pi/4:z!=0'
TAB_FACE_CLASS = 'less-than-1e-5-below-face-x=pi/4:z!=0'


def in_rtol_window(xyz, atol=1e-8):
    """Canonical coefficients below the face x = pi/4 by more than atol and less than 1e-5 (numpy's default relative tolerance at pi/4 is
    7.9e-6), away from z = 0: a class of inputs (a property of the input's coefficients), used to group failures under one signature."""
    x, y, z = xyz
    return atol < PI4 - x < 1e-5 and abs(z) > 1e-6


def class_stream(ctx, cirq, mods, conv, inputs, checks, sub):
    NC, KV, RD, ISO = ROUTINES_CLASS
    # kak_vector's array form: one call on the whole corpus, every row judged
    try:
        batch = np.asarray(cirq.kak_vector(np.stack([u for _, u, _ in inputs])))
        if batch.shape != (len(inputs), 3):
            raise ValueError(f'output shape {batch.shape} for input shape {(len(inputs), 4, 4)}')
    except Exception as e:
        ctx.violation('kak_vector:raises:batch', f'kak_vector on the stacked corpus ({len(inputs)}, 4, 4) raised {type(e).__name__}: {e}', dict(kind='class-batch'))
        batch = None
    for k, (name, u, hint) in enumerate(inputs):
        special = not name.startswith('random')
        rng = name_rng('class:' + name) if special else ctx.rng
        every = k % sub == 0
        routines = every or is_structured(name)
        run_class(ctx, cirq, mods, conv, checks, NC, {}, name, u, hint)
        if batch is not None:
            run_class(ctx, cirq, mods, conv, checks, KV, dict(form='array'), name, u, hint, batch_row=batch[k])
        if every:
            run_class(ctx, cirq, mods, conv, checks, NC, dict(atol=rng.choice([1e-6, 1e-10, 1e-7])), name, u, hint)
            run_class(ctx, cirq, mods, conv, checks, KV, {}, name, u, hint)
        if (special and k % 2 == 0) or routines:
            run_class(ctx, cirq, mods, conv, checks, RD, {}, name, u, hint)
        if (special and k % 4 == 2) or routines:
            run_class(ctx, cirq, mods, conv, checks, ISO, dict(allow_partial_czs=k % 8 == 2, atol=1e-8, clean_operations=rng.random() < 0.5), name, u, hint)
        if is_structured(name):
            # the isometry acts on the q0 = |0> half only: every structured input also meets the complementary flags
            run_class(ctx, cirq, mods, conv, checks, ISO, dict(allow_partial_czs=k % 8 != 2, atol=1e-8, clean_operations=k % 2 == 0), name, u, hint)
        if k % 50 == 0:
            tick()


# =====================================================================================================
# Stream 3c: the known-gate dispatch of the Sycamore synthesis (cirq_google.known_2q_op_to_sycamore_operations), gate by gate
# =====================================================================================================
ROUTINES.update({
    'known_2q_op_to_sycamore_operations': 'docstring: for a known operation (a CircuitOperation of length 2 holding SWAP and a ZZPowGate; PhasedISwapPowGate with exponent = 1 or '
                                          'phase_exponent = 0.25; cirq.SWAP, cirq.ISWAP; CNotPowGate, CZPowGate, ZZPowGate) "a cirq.OP_TREE that implements the given known operation using only '
                                          'cirq_google.SYC + single qubit rotations", None "if op is not a known operation". Whatever is returned must have the unitary of the operation up to '
                                          'phase (reference: the gate of the shared vocabulary evaluated inside Coq from its parameters on the operation\'s qubits) and SYC as only multi-qubit '
                                          'gate; None is a failure only for a member of the documented list. No tolerance stated (exponents within 1e-9 of 1 are treated as 1): 1e-8 x 10 = 1e-7. '
                                          'Every grid operation is also sent as a matrix through two_qubit_matrix_to_sycamore_operations.',
})
KNOWN_EXPS = [1.0, -1.0, 0.5, -0.5, 0.25, -0.25, 1.5, -1.5, 2.0, -2.0, 3.0, -3.0, 0.0, 1e-9, 1 + 1e-10, 1 - 1e-10, -1 + 1e-10, -1 - 1e-10, 1 + 1e-8, 0.37, -0.81]
KNOWN_FAMS = ['CZPow', 'CXPow', 'ZZPow', 'SwapPow', 'ISwapPow']
UNKNOWN_FAMS = ['XXPow', 'YYPow']


def known_name(spec):
    f = spec['fam']
    core = f'{f}(p={spec["p"]!r},e={spec["e"]!r})' if f == 'PhasedISwap' else f'FSim({spec["theta"]!r},{spec["phi"]!r})' if f == 'FSim' else f if f == 'Sycamore' else f'{f}(e={spec["e"]!r})'
    return (core + (f':shift={spec["s"]!r}' if spec.get('s') else '') + (':reversed' if spec.get('order') == [1, 0] else '') + (':tagged' if spec.get('tagged') else '')
            + (f':{spec["wrap"]}' if spec.get('wrap') else ''))


def known_documented(spec):
    """Is the operation a member of the docstring's list of known gates (so that None is not an acceptable answer)?"""
    f = spec['fam']
    if spec.get('wrap'):
        return True
    if f in ('CZPow', 'CXPow', 'ZZPow'):
        return True
    if f in ('SwapPow', 'ISwapPow'):
        return spec['e'] == 1.0 and not spec.get('s')
    if f == 'PhasedISwap':
        return spec['e'] == 1.0 or spec['p'] == 0.25
    return False


def known_specs(ctx, scale=1):
    out = []
    k = 0
    for f in KNOWN_FAMS + UNKNOWN_FAMS:
        for e in KNOWN_EXPS if f in KNOWN_FAMS else [1.0, -1.0, 0.5, -0.5, 0.37]:
            k += 1
            out.append(dict(fam=f, e=e, s=0.0, order=[0, 1]))
            if k % 2 == 0 or abs(abs(e) - 1) < 1e-7:
                out.append(dict(fam=f, e=e, s=0.0, order=[1, 0]))
            if k % 5 == 0 or abs(e) in (1.0, 0.5):
                out.append(dict(fam=f, e=e, s=[0.3, -0.5, 0.25][k % 3], order=[0, 1], tagged=k % 2 == 0))
        for _ in range(2 * scale):
            out.append(dict(fam=f, e=gates.draw_exp(ctx.rng), s=0.0, order=[0, 1] if ctx.rng.random() < 0.5 else [1, 0]))
            out.append(dict(fam=f, e=round(ctx.rng.uniform(-4, 4), 6), s=0.0, order=[0, 1] if ctx.rng.random() < 0.5 else [1, 0], tagged=True))
    for p in (0.25, -0.25, 0.0, 0.5, 0.1, -0.7, 1.0, 0.75, 1.25):
        for e in (1.0, -1.0, 0.5, -0.5, 0.3, 2.0, 0.0, 1 + 1e-10):
            if p == 0.25 or e in (1.0, -1.0, 0.5, 1 + 1e-10):
                out.append(dict(fam='PhasedISwap', p=p, e=e, order=[0, 1] if (len(out) % 3) else [1, 0]))
    for _ in range(4 * scale):
        out.append(dict(fam='PhasedISwap', p=0.25, e=round(ctx.rng.uniform(-2, 2), 6), order=[0, 1]))
        out.append(dict(fam='PhasedISwap', p=round(ctx.rng.uniform(-1, 1), 6), e=1.0, order=[1, 0]))
    for e in (1.0, -1.0, 0.5, -0.5, 0.3, 0.0, 1.5, round(ctx.rng.uniform(-2, 2), 6)):
        out.append(dict(fam='ZZPow', e=e, s=0.0, order=[0, 1], wrap='swap+zz'))
        out.append(dict(fam='ZZPow', e=e, s=0.0, order=[1, 0], wrap='zz+swap'))
    out += [dict(fam='FSim', theta=math.pi / 2, phi=math.pi / 6, order=[0, 1]), dict(fam='FSim', theta=math.pi / 2, phi=0.0, order=[0, 1]), dict(fam='FSim', theta=0.0, phi=math.pi, order=[1, 0]),
            dict(fam='Sycamore', order=[0, 1]), dict(fam='Sycamore', order=[1, 0])]
    return out


def run_known(ctx, cirq, mods, conv, checks, spec, matrix_route=False):
    routine = 'known_2q_op_to_sycamore_operations'
    cg = mods['cirq_google']
    q = cirq.LineQubit.range(2)
    f = spec['fam']
    name = known_name(spec)
    if f == 'PhasedISwap':
        g = gates.G(f, dict(p=spec['p'], e=spec['e']), (2, 2))
    elif f == 'FSim':
        g = gates.G(f, dict(theta=spec['theta'], phi=spec['phi']), (2, 2))
    elif f == 'Sycamore':
        g = gates.G(f, {}, (2, 2))
    else:
        g = gates.G(f, dict(e=spec['e'], s=spec.get('s', 0.0)), (2, 2))
    order = spec.get('order', [0, 1])
    op = g.cirq_gate(cirq, mods).on(q[order[0]], q[order[1]])
    ref = [f'({g.coq()}, {gates.nlist(order)})']
    plain = [op]
    if spec.get('wrap'):
        sw = cirq.SWAP.on(q[order[0]], q[order[1]])
        swt = f'({gates.G("SwapPow", dict(e=1.0, s=0.0), (2, 2)).coq()}, {gates.nlist(order)})'
        plain = [sw, op] if spec['wrap'] == 'swap+zz' else [op, sw]
        ref = [swt] + ref if spec['wrap'] == 'swap+zz' else ref + [swt]
        op = cirq.CircuitOperation(cirq.FrozenCircuit(plain))
    if spec.get('tagged'):
        op = op.with_tags('tag')
    uterm = f'(circ_unitary FOps [2; 2]%nat [{"; ".join(ref)}])'
    u = numpy_unitary(cirq, plain, q)
    rep = dict(kind='known', routine=routine, input_class=name, spec=spec, matrix=cmat(u))
    try:
        tree = cg.known_2q_op_to_sycamore_operations(op)
        ops = None if tree is None else list(cirq.flatten_to_ops(tree))
    except Exception as e:
        ctx.violation(f'{routine}:raises:{name}', f'{routine}({op!r}) raised {type(e).__name__}: {e}', rep)
        ops = False
    if ops is None:
        ctx.count(routine + ':None', [name], True, sample=dict(operation=repr(op), returned=None))
        if known_documented(spec):
            ctx.violation(f'{routine}:form:{name}', f'{routine}({op!r}) returned None although the operation belongs to the documented list of known gates', rep)
    elif ops is not False:
        add_ops_checks(ctx, conv, checks, routine, {}, name, u, ops, q, 1e-7, True,
                       (10 ** 6, False, lambda o: isinstance(o.gate, cg.SycamoreGate), 'SYC must be the only multi-qubit gate'), True,
                       extra=dict(kind='known', spec=spec), uterm=uterm)
    if matrix_route:
        run_2q(ctx, cirq, mods, conv, checks, 'two_qubit_matrix_to_sycamore_operations', dict(clean_operations=len(name) % 2 == 0), 'gate:' + name, u, None)


def known_syc_stream(ctx, cirq, mods, conv, checks, scale=1):
    for spec in known_specs(ctx, scale):
        run_known(ctx, cirq, mods, conv, checks, spec, matrix_route=spec.get('order') == [0, 1] and not spec.get('tagged') and not spec.get('s'))


# =====================================================================================================
# Stream 3e: the symbolic synthesis into sqrt-iSWAP (cirq.parameterized_2q_op_to_sqrt_iswap_operations), resolved value by value
# =====================================================================================================
ROUTINES.update({
    'parameterized_2q_op_to_sqrt_iswap_operations': 'docstring: for a parameterized CZPowGate / SwapPowGate / ISwapPowGate / FSimGate operation "a parameterized cirq.OP_TREE implementing `op` using '
                                                    'only cirq.SQRT_ISWAP (or cirq.SQRT_ISWAP_INV) and parameterized single qubit rotations", None or NotImplemented for other gates. A parameterized '
                                                    'tree stands for its resolutions: for every value of a fixed grid (exponents +-1, +-0.5, +-0.25, +-1.5, +-2, +-3, 0, 1e-9, +-1 +- 1e-10, generic and seeded '
                                                    'ones; FSim angles 0, +-pi/2, pi/4, +-pi, 3pi, pi/6, generic) the resolved operations must have the unitary of the resolved gate (reference: the gate of the '
                                                    'shared vocabulary evaluated inside Coq from the value) up to phase (an operation list), no tolerance stated: 1e-8 x 10 = 1e-7; two-qubit gates only '
                                                    'SQRT_ISWAP (SQRT_ISWAP_INV with use_sqrt_iswap_inv), at most 4 (the helpers document two per controlled-phase / iSWAP part).',
})
PARAM_ANGLES = [('0', 0.0), ('pi/2', math.pi / 2), ('-pi/2', -math.pi / 2), ('pi/4', math.pi / 4), ('pi', math.pi), ('-pi', -math.pi), ('3pi', 3 * math.pi), ('pi/6', math.pi / 6), ('0.3', 0.3), ('-2.1', -2.1),
                ('pi+1e-10', math.pi + 1e-10)]
ODD_CPHASE_CLASS = 'controlled-phase-exponent-within-1e-9-of-an-odd-integer'


def cphase_exponent(spec):
    """The exponent of the controlled-phase part of the gate (CZ**t: t; SWAP**t = iSWAP-like part . CZ**-t; FSim(theta, phi): -phi/pi), or None."""
    f = spec['fam']
    if f == 'CZPow':
        return spec['e']
    if f == 'SwapPow':
        return -spec['e']
    if f == 'FSim' and spec['phi'] != 0.0:
        return -spec['phi'] / math.pi
    return None


def param_class(spec):
    c = cphase_exponent(spec)
    if c is not None and abs((c % 2) - 1) < 1e-9:
        return ODD_CPHASE_CLASS
    return known_name(spec)


PARAM_EXPS_QUICK = [1.0, -1.0, 3.0, 0.5, -0.5, 0.25, 1.5, 2.0, 0.0, 1e-9, 1 + 1e-10, 1 - 1e-10, 0.37]


def param_specs(ctx, scale=1):
    """Quick tier: a reduced grid (resolving one sympy circuit costs ~0.1 s): the special exponents with both sqrt-iSWAP flavours at +-1, the others alternating;
    thorough tier: the whole exponent grid of the Sycamore dispatch stream, both flavours at every special value, all angle pairs."""
    quick = ctx.tier == 'quick'
    out = []
    k = 0
    for f in ('CZPow', 'SwapPow', 'ISwapPow'):
        grid = (PARAM_EXPS_QUICK if f != 'ISwapPow' else PARAM_EXPS_QUICK[:9]) if quick else KNOWN_EXPS
        for e in grid + [round(ctx.rng.uniform(-4, 4), 6) for _ in range(1 if quick else 2 * scale)] + [float(ctx.rng.choice([-5, -3, -1, 1, 3, 5, 7]))]:
            k += 1
            special = abs(abs(e) % 1) < 1e-7 or abs(abs(e) % 1 - 1) < 1e-7 or abs(e) in (0.5, 0.25)
            both = abs(e) == 1.0 if quick else special
            for inv in ((False, True) if both and f != 'ISwapPow' else (k % 2 == 0,)):
                out.append(dict(fam=f, e=float(e), s=0.0, order=[0, 1] if k % 3 else [1, 0], inv=inv))
    k = 0
    for tn, th in PARAM_ANGLES[:9]:
        for pn, ph in PARAM_ANGLES:
            k += 1
            if quick:
                pick = (tn == '0.3' and pn in ('0', 'pi', '-pi', '3pi', 'pi/6', 'pi/2', 'pi+1e-10')) or (pn == '0.3' and tn in ('0', 'pi/2', '-pi/2', 'pi')) or (tn, pn) in (('pi/2', 'pi/6'), ('pi/2', 'pi'), ('0', 'pi'), ('pi/4', '-pi'))
            else:
                pick = tn in ('0', 'pi/2', '0.3') or pn in ('0', 'pi', '-pi', '3pi', 'pi/6') or k % 4 == 0
            if pick:
                out.append(dict(fam='FSim', theta=th, phi=ph, order=[0, 1] if k % 3 else [1, 0], inv=k % 2 == 0))
    for _ in range(1 if quick else 3 * scale):
        out.append(dict(fam='FSim', theta=round(ctx.rng.uniform(-3.2, 3.2), 6), phi=round(ctx.rng.uniform(-3.2, 3.2), 6), order=[0, 1], inv=ctx.rng.random() < 0.5))
    out += [dict(fam='XXPow', e=0.5, s=0.0, order=[0, 1], inv=False), dict(fam='ZZPow', e=1.0, s=0.0, order=[0, 1], inv=True)]        # outside the documented list
    return out


PARAM_TREES = {}


def run_param(ctx, cirq, mods, conv, checks, spec):
    import sympy
    routine = 'parameterized_2q_op_to_sqrt_iswap_operations'
    q = cirq.LineQubit.range(2)
    f, inv, order = spec['fam'], bool(spec.get('inv')), spec.get('order', [0, 1])
    name = known_name(spec)
    opts = dict(use_sqrt_iswap_inv=inv)
    t, th, ph = sympy.Symbol('t'), sympy.Symbol('theta'), sympy.Symbol('phi')
    if f == 'FSim':
        g = gates.G(f, dict(theta=spec['theta'], phi=spec['phi']), (2, 2))
        sym_gate, values = cirq.FSimGate(th, ph), {'theta': spec['theta'], 'phi': spec['phi']}
    else:
        g = gates.G(f, dict(e=spec['e'], s=0.0), (2, 2))
        sym_gate, values = type(g.cirq_gate(cirq, mods))(exponent=t), {'t': spec['e']}
    rep = dict(kind='param', routine=routine, input_class=name, spec=spec, opts=opts)
    sig_cls = param_class(spec)
    documented = f in ('CZPow', 'SwapPow', 'ISwapPow', 'FSim')
    key = (f, inv, tuple(order))
    try:
        if key not in PARAM_TREES:
            tree = cirq.parameterized_2q_op_to_sqrt_iswap_operations(sym_gate.on(q[order[0]], q[order[1]]), use_sqrt_iswap_inv=inv)
            PARAM_TREES[key] = None if tree is None or tree is NotImplemented else cirq.Circuit(tree)
        circ = PARAM_TREES[key]
    except Exception as e:
        ctx.violation(f'{routine}:raises:symbolic:{f}', f'{routine}({sym_gate!r}, {opts}) raised {type(e).__name__}: {e}', rep)
        return
    if circ is None:
        ctx.count(routine + ':None', [f, inv], True, sample=dict(gate=repr(sym_gate), returned='None / NotImplemented'))
        if documented:
            ctx.violation(f'{routine}:form:{f}', f'{routine}({sym_gate!r}) returned None / NotImplemented although the gate type belongs to the documented list', rep)
        return
    uterm = f'(circ_unitary FOps [2; 2]%nat [({g.coq()}, {gates.nlist(order)})])'
    u = numpy_unitary(cirq, [g.cirq_gate(cirq, mods).on(q[order[0]], q[order[1]])], q)
    try:
        ops = list(cirq.resolve_parameters(circ, values).all_operations())
        bad = [o for o in ops if cirq.is_parameterized(o) or not cirq.has_unitary(o)]
        if bad:
            raise ValueError(f'resolved operation {bad[0]!r} has no unitary')
    except Exception as e:
        ctx.count(routine + ':raises-when-resolved', [name, inv], True)
        ctx.violation(f'{routine}:raises:{sig_cls}', f'{routine}({sym_gate!r}, {opts}) resolved at {values}: {type(e).__name__}: {str(e)[:160]} (the resolved gate is {name}; '
                      f'its controlled-phase exponent is {cphase_exponent(spec)!r})', rep)
        return
    ex = -0.5 if inv else 0.5
    native = lambda op: isinstance(op.gate, cirq.ISwapPowGate) and abs(float(op.gate.exponent) - ex) < 1e-12
    add_ops_checks(ctx, conv, checks, routine, opts, name, u, ops, q, 1e-7, True,
                   (4, False, native, 'only SQRT_ISWAP' + ('_INV' if inv else '') + ' as two-qubit gate, at most 4'), True, extra=dict(kind='param', spec=spec), uterm=uterm)


def param_sqrt_iswap_stream(ctx, cirq, mods, conv, checks, scale=1):
    PARAM_TREES.clear()
    for k, spec in enumerate(param_specs(ctx, scale)):
        run_param(ctx, cirq, mods, conv, checks, spec)
        if k % 50 == 0:
            tick()


# =====================================================================================================
# Stream 3d: the heuristic tabulation decomposition — two_qubit_gate_product_tabulation / TwoQubitGateTabulation.compile_two_qubit_gate
# =====================================================================================================
ROUTINES.update({
    'two_qubit_gate_product_tabulation': 'docstring: a TwoQubitGateTabulation "used to compile new two-qubit gates from products of the base gate with 1-local unitaries"; '
                                         'single_qubit_gates[j] is the "sequence of 1-local operations required to achieve" kak_vecs[j] (0, 1 or 2 inner layers = 1, 2 or 3 base gates); '
                                         'ValueError only when allow_missed_points=False and a mesh point cannot be reached. Judged through compile_two_qubit_gate on the '
                                         'target exp(i(x XX + y YY + z ZZ)) of EVERY tabulated vector (bare and dressed with Haar locals): success must be True there.',
    'compile_two_qubit_gate': 'docstring (TwoQubitGateTabulationResult): U_target ~ k_N . U_base . k_{N-1} ... k_1 . U_base . k_0 with local_unitaries = (k_0, ..., k_N), '
                              'k_j = k_j0 (x) k_j1 (2x2 unitaries), actual_gate "the right hand side above" (the relation is "~": compared up to global phase; no tolerance stated: '
                              '1e-8 x 10 = 1e-7), success "whether actual_gate is expected to be close to U_target" (infidelity of the nearest tabulated point < max_expected_infidelity, '
                              '"defined using entanglement fidelity"): when success is True the product of the returned factors, recomposed in the reference semantics, must have '
                              '1 - |tr(U^dagger V)|^2/16 < max_expected_infidelity to the target; between one and three base gates.',
    'SycamoreTargetGateset(tabulation)': 'docstring: "If set, a tabulation for the Sycamore gate is used for decomposing Matrix gates" (cirq_google two_qubit_to_sycamore.'
                                         '_decompose_arbitrary_into_syc_tabulation through decompose_to_target_gateset): the operations must have the unitary actual_gate of '
                                         'compile_two_qubit_gate up to phase (1e-7), one SYC per base gate, and stay within the infidelity bound of the matrix when success is True.',
})
# frozen tabulations: (name, base gate, max_infidelity, numpy RandomState seed, sample_scaling) — the same for every VERIF_SEED
TABS = [('SYC:0.05:rs7', ('FSim', math.pi / 2, math.pi / 6), 0.05, 7, 50), ('FSim(pi/4,pi/24):0.1:rs7', ('FSim', math.pi / 4, math.pi / 24), 0.1, 7, 50),
        ('SQRT_ISWAP:0.1:rs11', ('ISwapPow', 0.5), 0.1, 11, 50), ('CZ:0.1:rs7', ('CZ',), 0.1, 7, 50)]


def tab_base(cirq, spec):
    if spec[0] == 'FSim':
        return np.asarray(cirq.unitary(cirq.FSimGate(spec[1], spec[2])), dtype=complex)
    if spec[0] == 'ISwapPow':
        return np.asarray(cirq.unitary(cirq.ISWAP ** spec[1]), dtype=complex)
    if spec[0] == 'CZ':
        return np.asarray(cirq.unitary(cirq.CZ), dtype=complex)
    if spec[0] == 'matrix':
        return from_cmat(spec[1])
    raise KeyError(spec[0])


def build_tab(ctx, cirq, tspec):
    """tspec: dict(name, base, max_infidelity, random_state, sample_scaling) -> TwoQubitGateTabulation or None (violation recorded)."""
    try:
        return cirq.two_qubit_gate_product_tabulation(tab_base(cirq, tspec['base']), tspec['max_infidelity'], sample_scaling=tspec['sample_scaling'],
                                                      random_state=np.random.RandomState(tspec['random_state']))
    except Exception as e:
        ctx.violation(f'two_qubit_gate_product_tabulation:raises:{tspec["name"]}', f'two_qubit_gate_product_tabulation({tspec}) raised {type(e).__name__}: {e}', dict(kind='tab-build', tab=tspec))
        return None


def tab_entry_kind(cycles):
    """What a tabulated entry is made of: the number of inner local layers and, for two, whether they are the same layer twice."""
    n = len(cycles)
    if n == 0:
        return 'base-gate-itself'
    if n == 1:
        return 'two-base-gates'
    same = all(np.array_equal(np.asarray(cycles[0][i]), np.asarray(cycles[1][i])) for i in (0, 1))
    return 'three-base-gates:equal-inner-layers' if same else 'three-base-gates:distinct-inner-layers'


def fmat_pairs(pairs):
    return '[' + '; '.join(f'({gates.fmat(a)}, {gates.fmat(b)})' for a, b in pairs) + ']'


def run_tab(ctx, cirq, mods, conv, checks, tspec, tab, name, u, hint=None, syc=False, stats=None):
    """compile_two_qubit_gate of one tabulation on one target + the Coq comparisons of its result."""
    routine = 'compile_two_qubit_gate'
    tname = tspec['name']
    q = cirq.LineQubit.range(2)
    u = np.asarray(u, dtype=complex)
    opts = dict(tabulation=tname)
    rep = dict(kind='tab', routine=routine, opts=opts, tab=tspec, input_class=name, target=cmat(u), hint=list(hint) if hint is not None else None, syc=int(syc))
    scls = cls(name.split('#')[0])
    try:
        r = tab.compile_two_qubit_gate(given(name, u))
        lus = [(np.asarray(a, dtype=complex), np.asarray(b, dtype=complex)) for a, b in r.local_unitaries]
        actual = np.asarray(r.actual_gate, dtype=complex)
        success = bool(r.success)
        A = np.asarray(tab.base_gate, dtype=complex)
        bound = float(tab.max_expected_infidelity)
    except Exception as e:
        ctx.violation(f'{routine}:raises:{tname}:{scls}', f'{routine}[{tname}] raised {type(e).__name__}: {e} on {name}', rep)
        return
    bad = [f'{w} has shape {m.shape}' for w, m in [('actual_gate', actual), ('base_gate', A)] if m.shape != (4, 4)]
    bad += [f'local_unitaries[{j}] is not a pair of 2x2 matrices' for j, (a, b) in enumerate(lus) if a.shape != (2, 2) or b.shape != (2, 2)]
    if not np.array_equal(np.asarray(r.base_gate_unitary), A):
        bad.append('base_gate_unitary of the result is not the base gate of the tabulation')
    if not np.array_equal(np.asarray(r.target_gate), u):
        bad.append('target_gate of the result is not the unitary that was compiled')
    if bad:
        ctx.violation(f'{routine}:form:{tname}:{scls}', f'{routine}[{tname}] on {name}: ' + '; '.join(bad), rep)
        return
    nb = len(lus) - 1
    distinct = nb == 3 and not all(np.array_equal(lus[1][i], lus[2][i]) for i in (0, 1))
    if stats is not None:
        stats['results_by_base_gates'][nb] = stats['results_by_base_gates'].get(nb, 0) + 1
        stats['three_base_gates_with_distinct_inner_layers'] += int(distinct)
        stats['success_false'] += int(not success)
    # the documented product as a circuit: layer j on both qubits, the base gate between consecutive layers (k_0 first)
    ops = []
    for j, (a, b) in enumerate(lus):
        ops += [cirq.MatrixGate(a).on(q[0]), cirq.MatrixGate(b).on(q[1])]
        if j < nb:
            ops.append(cirq.MatrixGate(A).on(q[0], q[1]))
    layers = f'{len(lus)} local layers with {nb} base gate{"s" if nb != 1 else ""}' + (' (distinct inner layers)' if distinct else '')
    extra = dict(kind='tab', tab=tspec, target=rep['target'], hint=rep['hint'], syc=int(syc), sig_prefix=tname + ':')
    add_ops_checks(ctx, conv, checks, routine, opts, name.split('#')[0], actual, ops, q, 1e-7, True,
                   (3, False, lambda op: len(op.qubits) == 2, 'between one and three base gates'), True, extra=extra,
                   what_cmp=f'the product k_N.A.k_(N-1)...A.k_0 of the returned {layers} is not the reported actual_gate: it differs from it')
    try:
        term = conv.ops(ops, q)
    except Exception:
        return                                                   # reported by add_ops_checks
    ks = fmat_pairs(lus)
    checks.append((f'{routine}[tabulation={tname}]:form', f'tab_form_f {fl(1e-7)} {gates.fmat(A)} {ks} {gates.fmat(actual)} && tab_model_f {fl(1e-9)} {gates.fmat(A)} {ks} {term}',
                   f'{routine}[{tname}] on {name}: a returned local factor, the base gate or actual_gate is not unitary, there are not 2..4 local layers, or the model product '
                   f'(Xform/KakTab.v tab_product) of the layers disagrees with the reference semantics of the same circuit', dict(rep, signature=f'{routine}:form:{tname}:{scls}')))
    ctx.count(f'{routine}[tabulation={tname}]:form', [name, rep['target']], True)
    kx = hint
    if kx is None:
        try:
            kx = [float(c) for c in cirq.kak_decomposition(u).interaction_coefficients]
        except Exception:
            kx = None
    near = kx is not None and in_rtol_window(mirror_canonical(kx), 0.0)
    bsig = f'{routine}:bound:' + (TAB_FACE_CLASS if near else f'{tname}:{scls}')
    if success:
        try:
            inf = 1 - abs(np.trace(numpy_unitary(cirq, ops, q).conj().T @ u)) ** 2 / 16
        except Exception:
            inf = None
        checks.append((f'{routine}[tabulation={tname}]:bound', f'within_infidelity_f {fl(bound)} {fl(1e-9)} {term} {gates.fmat(u)}',
                       f'{routine}[{tname}] on {name}: success=True, but the product of the returned {layers} has entanglement infidelity {inf} to the target '
                       f'(numpy estimate), not below max_expected_infidelity = {bound}', dict(rep, signature=bsig)))
        ctx.count(f'{routine}[tabulation={tname}]:bound', [name, rep['target']], True, sample=dict(input_class=name, base_gates=nb, distinct_inner_layers=distinct, infidelity=inf, bound=bound))
    elif name.startswith('table:'):
        ctx.violation(f'two_qubit_gate_product_tabulation:success-false-at-tabulated-point:{tname}:{scls}',
                      f'{routine}[{tname}] on {name}: success=False for the gate of a tabulated KAK vector (infidelity 0 to that entry)', rep)
    if syc:
        cg = mods['cirq_google']
        routine2 = 'SycamoreTargetGateset(tabulation)'
        qs = q if syc == 1 else q[::-1]
        try:
            tree = cg.SycamoreTargetGateset(tabulation=tab).decompose_to_target_gateset(cirq.MatrixGate(u).on(*qs), 0)
            sops = list(cirq.flatten_to_ops(tree))
        except Exception as e:
            ctx.violation(f'{routine2}:raises:{tname}:{scls}', f'{routine2}[{tname}] raised {type(e).__name__}: {e} on {name}', rep)
            return
        if len(sops) == 1 and sops[0] == cirq.MatrixGate(u).on(*qs):
            # TwoQubitCompilationTargetGateset keeps the operation when the decomposition has as many two-qubit gates (one): nothing was synthesised
            ctx.count(routine2 + ':kept-the-operation', [name, rep['target'], syc], True)
            return
        ex2 = dict(extra, sig_prefix=tname + (':reversed:' if syc != 1 else ':'))
        add_ops_checks(ctx, conv, checks, routine2, dict(opts, qubits='reversed' if syc != 1 else 'sorted'), name.split('#')[0], actual, sops, qs, 1e-7, True,
                       (nb, True, lambda op: isinstance(op.gate, cg.SycamoreGate), f'one SYC per base gate of the compilation ({nb}) and no other two-qubit gate'), True, extra=ex2,
                       what_cmp='the operations built from the compilation do not have the unitary of its actual_gate: they differ from it')
        if success:
            try:
                checks.append((f'{routine2}[tabulation={tname}]:bound', f'within_infidelity_f {fl(bound)} {fl(1e-9)} {conv.ops(sops, qs)} {gates.fmat(u)}',
                               f'{routine2}[{tname}] on {name}: success=True, but the returned operations ({nb} SYC) are not within max_expected_infidelity = {bound} of the matrix',
                               dict(rep, signature=f'{routine2}:bound:' + (TAB_FACE_CLASS if near else f'{tname}:{scls}'))))
                ctx.count(f'{routine2}[tabulation={tname}]:bound', [name, rep['target'], syc], True)
            except Exception:
                pass


def mirror_canonical(xyz):
    """(x, y, z) with x > pi/4 written as its mirror image (pi/2 - x, y, -z): the same class, below the face."""
    x, y, z = xyz
    return (2 * PI4 - x, y, -z) if x > PI4 else (x, y, z)


PERTURBED = __import__('re').compile(r':[xyz][+-]\de-\d+$')


def tab_targets(tab, k_tab, n_tabs, inputs, quick):
    """[(name, unitary, hint)]: the gate of tabulated KAK vectors (every entry with two distinct inner layers bare and dressed with Haar locals,
    the others on a fixed grid in the quick tier), then the corpus: named gates and bare Weyl-chamber points on every tabulation, dressed points,
    structured inputs, perturbations and random inputs rotating over the tabulations (the points next to the face x = pi/4 twice as often)."""
    out = []
    for j, v in enumerate(np.asarray(tab.kak_vecs)):
        kind = tab_entry_kind(tab.single_qubit_gates[j])
        xyz = tuple(float(c) for c in v)
        core = interaction_matrix(*xyz)
        if not quick or 'distinct' in kind or j % 3 == 0 or j < 6:
            out.append((f'table:{kind}#{j}', core, xyz))
        if 'distinct' in kind or j % (6 if quick else 1) == 0:
            r = name_rng(f'tab:{k_tab}:{j}')
            g = cmath.exp(1j * r.uniform(0, 2 * math.pi))
            out.append((f'table+locals:{kind}#{j}', g * local_pair(r, 'haar') @ core @ local_pair(r, 'haar'), xyz))
    face = [f':x{sg}{d:.0e}' for d in NEAR_FACE + [1e-9] for sg in '+-']
    for k, (name, u, hint) in enumerate(inputs):
        turn = (k + k_tab) % n_tabs == 0
        if not quick:
            pick = turn or not PERTURBED.search(name)
        elif PERTURBED.search(name):
            pick = (k + k_tab) % (4 * n_tabs) == 0 or (any(name.endswith(f) for f in face) and hint is not None and abs(hint[2]) > 1e-6 and (k + k_tab) % 2 == 0)
        elif name.startswith(('random', 'weyl+locals')) or is_structured(name):
            pick = turn
        else:
            pick = True
        if pick:
            out.append((name, u, hint))
    return out


def tabulation_stream(ctx, cirq, mods, conv, inputs, checks, scale):
    quick = ctx.tier == 'quick'
    rng = ctx.rng
    cov = ctx.cov.setdefault('tabulations', {})
    specs = [dict(name=n, base=list(b), max_infidelity=inf, random_state=rs, sample_scaling=sc) for n, b, inf, rs, sc in TABS]
    if not quick:
        specs.append(dict(name='SYC:0.02:rs11', base=['FSim', math.pi / 2, math.pi / 6], max_infidelity=0.02, random_state=11, sample_scaling=50))
    for i in range(scale):
        if rng.random() < 0.5:
            base, bn = ['FSim', round(rng.uniform(0.2, 1.5), 6), round(rng.uniform(-3, 3), 6)], 'fsim'
        else:
            base, bn = ['matrix', cmat(gates.random_unitary(rng, 4))], 'haar4'
        specs.append(dict(name=f'random:{bn}', base=base, max_infidelity=rng.choice([0.1, 0.08, 0.15]), random_state=rng.randrange(2 ** 31), sample_scaling=rng.choice([20, 50])))
    frozen = len(TABS)
    for k_tab, tspec in enumerate(specs):
        tab = build_tab(ctx, cirq, tspec)
        if tab is None:
            continue
        tname = tspec['name']
        kinds = {}
        try:
            n_entries = len(tab.kak_vecs)
            if len(tab.single_qubit_gates) != n_entries or np.asarray(tab.kak_vecs).shape != (n_entries, 3) or any(len(c) > 2 for c in tab.single_qubit_gates):
                raise ValueError(f'{n_entries} KAK vectors of shape {np.asarray(tab.kak_vecs).shape}, {len(tab.single_qubit_gates)} local sequences, longest {max(len(c) for c in tab.single_qubit_gates)}')
            for c in tab.single_qubit_gates:
                kinds[tab_entry_kind(c)] = kinds.get(tab_entry_kind(c), 0) + 1
        except Exception as e:
            ctx.violation(f'two_qubit_gate_product_tabulation:form:{tname}', f'two_qubit_gate_product_tabulation({tspec}): malformed tabulation: {e}', dict(kind='tab-build', tab=tspec))
            continue
        stats = dict(entries=n_entries, entries_by_kind=kinds, missed_points=len(tab.missed_points), results_by_base_gates={}, three_base_gates_with_distinct_inner_layers=0, success_false=0)
        ctx.count('two_qubit_gate_product_tabulation', [tname if k_tab < frozen else tspec], True, sample=dict(tabulation=tname, entries=n_entries, entries_by_kind=kinds, summary=str(tab.summary)))
        targets = tab_targets(tab, k_tab, max(frozen, 1), inputs, quick)
        if k_tab >= frozen:       # a seeded tabulation: its own table, the named gates and the seeded random inputs
            targets = [t for t in targets if t[0].startswith(('table', 'random')) or not t[0].startswith(('weyl', 'struct'))]
        is_syc = tspec['base'][0] == 'FSim' and abs(tspec['base'][1] - math.pi / 2) < 1e-12 and abs(tspec['base'][2] - math.pi / 6) < 1e-12
        for k, (name, u, hint) in enumerate(targets):
            syc = 0
            if is_syc and ('distinct' in name or k % 5 == 0):
                syc = 1 if k % 2 == 0 else 2
            run_tab(ctx, cirq, mods, conv, checks, tspec, tab, name, u, hint, syc=syc, stats=stats)
            if k % 50 == 0:
                tick()
        cov[tname if k_tab < frozen else f'{tname}#{k_tab - frozen}'] = stats
    # allow_missed_points=False: ValueError is the documented outcome when a mesh point is missed; otherwise nothing may be missed
    for b, inf, rs in ((('CZ',), 0.1, 11), (('FSim', math.pi / 2, math.pi / 6), 0.1, 7)):
        tspec = dict(name=f'{b[0]}:{inf}:rs{rs}:allow_missed_points=False', base=list(b), max_infidelity=inf, random_state=rs, sample_scaling=50)
        try:
            tab = cirq.two_qubit_gate_product_tabulation(tab_base(cirq, b), inf, random_state=np.random.RandomState(rs), allow_missed_points=False)
            ctx.count('two_qubit_gate_product_tabulation[allow_missed_points=False]', [tspec['name']], True, sample=dict(tabulation=tspec['name'], missed=len(tab.missed_points)))
            if len(tab.missed_points):
                ctx.violation(f'two_qubit_gate_product_tabulation:missed-points-without-error:{tspec["name"]}',
                              f'two_qubit_gate_product_tabulation(..., allow_missed_points=False) returned a tabulation with {len(tab.missed_points)} missed points', dict(kind='tab-build', tab=tspec))
        except ValueError:
            ctx.count('two_qubit_gate_product_tabulation[allow_missed_points=False]:ValueError', [tspec['name']], True)
        except Exception as e:
            ctx.violation(f'two_qubit_gate_product_tabulation:raises:{tspec["name"]}', f'raised {type(e).__name__}: {e}', dict(kind='tab-build', tab=tspec))


# =====================================================================================================
# Stream 4: single-qubit forms
# =====================================================================================================
ROUTINES.update({
    'deconstruct_single_qubit_matrix_into_angles': 'docstring: U = Z^(phi2/pi) Y^(phi1/pi) Z^(phi0/pi) "will produce the same effect" (global phase ignored); no tolerance stated and no atol argument: 1e-8 x 10 = 1e-7.',
    'axis_angle': 'docstring: U = g exp(-i theta/2 (xX+yY+zZ)), unit axis; canonicalize(): x+y+z >= 0 and -pi+atol < theta <= pi+atol (atol 1e-8), except at the documented axis singularity near theta = 0; compared EXACTLY (g is returned); no tolerance stated: 1e-7.',
    'single_qubit_matrix_to_pauli_rotations': 'docstring: (Pauli, half_turns) pairs that applied in order perform the operation; atol = "limit on the amount of absolute error": residual <= atol + 2e-8 (floor for atol=0: sqrt of binary64 epsilon, 1.5e-8) up to phase; "few rotations": at most 3.',
    'single_qubit_matrix_to_gates': 'docstring: gates that applied in order perform the operation; tolerance = "limit on the amount of error": residual <= tolerance + 2e-8 up to phase; at most 3 gates.',
    'single_qubit_matrix_to_phased_x_z': 'docstring: a PhasedX and a Z gate, either omitted when not needed: at most 2 gates; residual <= atol + 2e-8 up to phase.',
    'single_qubit_matrix_to_phxz': 'docstring: one PhasedXZGate, or None if the matrix is close to identity (trace distance <= atol); residual <= atol + 2e-8 up to phase.',
    'PhasedXZGate.from_matrix': 'no docstring: a PhasedXZGate with the same unitary up to phase; 1e-7.',
    'single_qubit_op_to_framed_phase_form': 'docstring: "Decomposes a 2x2 unitary M into U^-1 * diag(1, r) * U * diag(g, g)", U a 2x2 unitary, r and g complex phase factors: compared EXACTLY '
                                            '(g is returned); |r| = |g| = 1; no tolerance stated: 1e-8 x 10 = 1e-7.',
})


# Perturbation sizes BETWEEN the tolerance scale (<= 1e-7, covered by the +-1e-10..1e-7 entries of the corpus) and O(1): one or two per decade.  A routine
# that switches to a special-case branch (axis singularity, "no X part", "close to identity", degenerate spectrum) must do so only where the branch is
# accurate to the documented tolerance, so every decade of distance from a singular point is an input class of its own.
LADDER = [3e-7, 1e-6, 3e-6, 1e-5, 2e-5, 1e-4, 4e-4, 1e-3, 3e-3, 1e-2, 1e-1]
LADDER_AXES = [('x', (1, 0, 0)), ('y', (0, 1, 0)), ('z', (0, 0, 1)), ('(1,2,2)/3', (1, 2, 2)), ('(0,-1,1)/sqrt2', (0, -1, 1)), ('(3,0,-4)/5', (3, 0, -4)), ('(-2,-1,-2)/3', (-2, -1, -2))]
LADDER_MARK = 'ladder:'


def axis_rot(axis, t):
    n = np.asarray(axis, dtype=float)
    x, y, z = n / math.sqrt(float(n @ n))
    P = np.array([[z, x - 1j * y], [x + 1j * y, -z]])
    return math.cos(t / 2) * np.eye(2) - 1j * math.sin(t / 2) * P


def scale_ladder_1q():
    """Frozen single-qubit inputs at every decade of distance (3e-7 .. 1e-1) from the singular points of the single-qubit forms: rotations by
    t0 + d about the coordinate axes and oblique axes for t0 = 0 (axis singularity of axis_angle, identity test of phxz), 2 pi (the same up to the
    phase -1), pi (|U00| = 0: ZYZ / PhasedX singularity, angle wrap of canonicalize) and pi/2; Z Y Z products with the middle angle d or pi + d."""
    out = []
    for k, d in enumerate(LADDER):
        for j, (an, ax) in enumerate(LADDER_AXES):                       # t0 = 0: every axis at every scale, the sign alternating
            s = d if (k + j) % 2 == 0 else -d
            out.append((f'{LADDER_MARK}rot[{an}](0{s:+.0e})', axis_rot(ax, s)))
        for i, (tn, t0) in enumerate((('2pi', 2 * math.pi), ('pi', math.pi), ('pi/2', math.pi / 2), ('-pi', -math.pi))):
            for j in (k + i, k + i + 3):                                 # two of the axes per (t0, scale), rotating
                an, ax = LADDER_AXES[j % len(LADDER_AXES)]
                s = d if (k + j) % 2 else -d
                out.append((f'{LADDER_MARK}rot[{an}]({tn}{s:+.0e})', axis_rot(ax, t0 + s)))
        s = d if k % 2 else -d
        out.append((f'{LADDER_MARK}rz(0.4)*ry(0{s:+.0e})*rz(0.7)', axis_rot((0, 0, 1), 0.4) @ axis_rot((0, 1, 0), s) @ axis_rot((0, 0, 1), 0.7)))
        out.append((f'{LADDER_MARK}rz(-1.1)*ry(pi{-s:+.0e})*rz(2.3)', axis_rot((0, 0, 1), -1.1) @ axis_rot((0, 1, 0), math.pi - s) @ axis_rot((0, 0, 1), 2.3)))
        out.append((f'{LADDER_MARK}rz(0{s:+.0e})*rx(0{-2 * s:+.0e})', axis_rot((0, 0, 1), s) @ axis_rot((1, 0, 0), -2 * s)))
    return out


def random_small_rotation(rng):
    """Seeded: a rotation by a log-uniform angle in [1e-7, 1] about a uniformly random axis, near the identity or near a Pauli-axis half turn."""
    ax = [rng.gauss(0, 1) for _ in range(3)]
    d = 10 ** rng.uniform(-7, 0) * rng.choice([1, -1])
    t0n, t0 = rng.choice([('0', 0.0), ('0', 0.0), ('pi', math.pi), ('2pi', 2 * math.pi)])
    return f'random:small-angle:{t0n}+1e{math.floor(math.log10(abs(d)))}', axis_rot(ax, t0 + d)


def one_qubit_inputs(ctx, cirq, n_random):
    rng = ctx.rng
    out = []
    I = np.eye(2, dtype=complex)
    X, Y, Z = (np.asarray(cirq.unitary(g), dtype=complex) for g in (cirq.X, cirq.Y, cirq.Z))
    rot = lambda P, t: math.cos(t / 2) * I - 1j * math.sin(t / 2) * P
    named = [('identity', I), ('-identity', -I), ('i*identity', 1j * I), ('X', X), ('Y', Y), ('Z', Z), ('H', cirq.unitary(cirq.H)), ('S', cirq.unitary(cirq.S)),
             ('T', cirq.unitary(cirq.T)), ('S**-1', cirq.unitary(cirq.S ** -1)), ('X**0.5', cirq.unitary(cirq.X ** 0.5)), ('Y**0.5', cirq.unitary(cirq.Y ** 0.5)),
             ('Y**-0.5', cirq.unitary(cirq.Y ** -0.5)), ('-iX', -1j * X), ('HS', cirq.unitary(cirq.H) @ cirq.unitary(cirq.S))]
    for i, c in enumerate(cirq.SingleQubitCliffordGate.all_single_qubit_cliffords):
        named.append((f'clifford#{i}', cirq.unitary(c)))
    for pn, P in (('x', X), ('y', Y), ('z', Z)):
        for tn, t in (('pi/2', math.pi / 2), ('pi', math.pi), ('-pi/2', -math.pi / 2), ('2pi', 2 * math.pi), ('pi/4', math.pi / 4), ('0.3', 0.3)):
            named.append((f'r{pn}({tn})', rot(P, t)))
            for d in (1e-10, 1e-9, -1e-9, 2e-9, 1e-8, -1e-8):
                named.append((f'r{pn}({tn}){d:+.0e}', rot(P, t + d)))
        for d in (1e-10, 1e-9, -1e-9, 2e-9, 1e-8, -1e-8, 1e-7):
            named.append((f'r{pn}(0){d:+.0e}', rot(P, d)))
    for d in (1e-10, 1e-9, 1e-8):                                  # |U00| within d of 0 or 1, off-axis
        named.append((f'ry(pi){d:+.0e}*rz(0.7)', rot(Y, math.pi + d) @ rot(Z, 0.7)))
        named.append((f'rz(0.4)*ry(0){d:+.0e}*rz(0.7)', rot(Z, 0.4) @ rot(Y, d) @ rot(Z, 0.7)))
        named.append((f'h*rz({d:.0e})', cirq.unitary(cirq.H) @ rot(Z, d)))
    for name, u in named:
        out.append((name, np.asarray(u, dtype=complex)))
        r = name_rng('1q:' + name)
        out.append((name + '*phase', cmath.exp(1j * r.uniform(0, 6.28)) * np.asarray(u, dtype=complex)))
    out += real_dtype_1q()                          # real matrices handed over as float64 / int64 arrays (see `given`)
    for k, (name, u) in enumerate(scale_ladder_1q()):  # every decade between the tolerance scale and O(1) around the singular points
        out.append((name, u))
        if k % 2 == 0:
            out.append((name + '*phase', cmath.exp(1j * name_rng('1q:' + name).uniform(0, 6.28)) * u))
    out += [(REAL_DTYPE + f'{LADDER_MARK}rot({d:+.0e})', np.asarray(rot2(d), dtype=complex)) for d in (1e-6, -1e-5, 4e-4, -1e-3, 1e-2)]
    for _ in range(n_random):
        out.append(('random:haar', gates.random_unitary(rng, 2)))
    for _ in range(max(6, n_random // 3)):
        out.append(random_small_rotation(rng))
    for _ in range(max(2, n_random // 10)):
        out.append((REAL_DTYPE + 'random:rot', np.asarray(rot2(rng.uniform(-math.pi, math.pi)), dtype=complex)))
    return out


def run_1q(ctx, cirq, mods, conv, checks, routine, opts, name, u):
    q = [cirq.LineQubit(0)]
    nt = 'identity' not in name
    rep = dict(kind='1q', routine=routine, opts=opts, input_class=name, matrix=cmat(u))
    atol = opts.get('atol', 0)
    ug = given(name, u)
    tol = atol + 2e-8          # sqrt(binary64 epsilon) = 1.5e-8: identity tests through cos^2 cannot resolve smaller angles

    def raised(e):
        ctx.violation(f'{routine}:raises:{cls(name)}', f'{routine}({opts}) raised {type(e).__name__}: {e} on {name}', rep)

    def count_le(ops, k, text):
        if len(ops) > k:
            ctx.violation(f'{routine}:count:{cls(name)}', f'{routine}({opts}) on {name}: {text}; got {[str(o) for o in ops]}', rep)

    try:
        if routine == 'deconstruct_single_qubit_matrix_into_angles':
            p0, p1, p2 = (float(x) for x in cirq.deconstruct_single_qubit_matrix_into_angles(ug))
            ops = [(cirq.Z ** (p0 / math.pi)).on(q[0]), (cirq.Y ** (p1 / math.pi)).on(q[0]), (cirq.Z ** (p2 / math.pi)).on(q[0])]
            add_ops_checks(ctx, conv, checks, routine, opts, name, u, ops, q, 1e-7, True, None, nt)
        elif routine == 'axis_angle':
            a = cirq.axis_angle(ug)
            x, y, z = (float(v) for v in a.axis)
            th = float(a.angle)
            c, sn = math.cos(-th / 2), math.sin(-th / 2)
            ctx.count(routine, [name, rep['matrix']], nt, sample=dict(input_class=name, angle=th, axis=[x, y, z], global_phase=str(a.global_phase)))
            checks.append((routine, f'fcll_close {fl(1e-7)} (axis_angle_m {gates.fc(a.global_phase)} {fl(c)} {fl(sn)} {fl(x)} {fl(y)} {fl(z)}) {gates.fmat(u)}',
                           f'axis_angle on {name}: g exp(-i theta/2 (xX+yY+zZ)) with theta={th}, axis={a.axis}, g={a.global_phase} differs from the input by more than 1e-7',
                           dict(rep, signature=f'axis_angle:reconstruct:{cls(name)}')))
            singular = th == 0 and (x, y, z) == (1.0, 0.0, 0.0)
            if not singular:
                checks.append((routine + ':canonical', f'axis_canonical_f {fl(1e-8)} {fl(th)} {fl(x)} {fl(y)} {fl(z)}',
                               f'axis_angle on {name}: not canonical (unit axis with x+y+z>=0, -pi+1e-8 < theta <= pi+1e-8): theta={th}, axis={a.axis}',
                               dict(rep, signature=f'axis_angle:canonical:{cls(name)}')))
                ctx.count(routine + ':canonical', [name, rep['matrix']], nt)
        elif routine == 'single_qubit_matrix_to_pauli_rotations':
            rots = cirq.single_qubit_matrix_to_pauli_rotations(ug, atol)
            ops = [(p ** float(ht)).on(q[0]) for p, ht in rots]
            count_le(ops, 3, 'more than 3 rotations')
            add_ops_checks(ctx, conv, checks, routine, opts, name, u, ops, q, tol, True, None, nt)
        elif routine == 'single_qubit_matrix_to_gates':
            ops = [g.on(q[0]) for g in cirq.single_qubit_matrix_to_gates(ug, atol)]
            count_le(ops, 3, 'more than 3 gates')
            add_ops_checks(ctx, conv, checks, routine, opts, name, u, ops, q, tol, True, None, nt)
        elif routine == 'single_qubit_matrix_to_phased_x_z':
            gs = cirq.single_qubit_matrix_to_phased_x_z(ug, atol)
            ops = [g.on(q[0]) for g in gs]
            count_le(ops, 2, 'more than a PhasedX and a Z gate')
            if len(gs) == 2 and not isinstance(gs[1], cirq.ZPowGate):
                ctx.violation(f'{routine}:form:{cls(name)}', f'{routine} on {name}: second gate {gs[1]!r} is not a Z gate', rep)
            add_ops_checks(ctx, conv, checks, routine, opts, name, u, ops, q, tol, True, None, nt)
        elif routine == 'single_qubit_matrix_to_phxz':
            g = cirq.single_qubit_matrix_to_phxz(ug, atol)
            if g is not None and not isinstance(g, cirq.PhasedXZGate):
                ctx.violation(f'{routine}:form:{cls(name)}', f'{routine} on {name}: returned {g!r}', rep)
                return
            add_ops_checks(ctx, conv, checks, routine, opts, name, u, [] if g is None else [g.on(q[0])], q, tol, True, None, nt)
        elif routine == 'PhasedXZGate.from_matrix':
            g = cirq.PhasedXZGate.from_matrix(ug)
            add_ops_checks(ctx, conv, checks, routine, opts, name, u, [g.on(q[0])], q, 1e-7, True, None, nt)
        elif routine == 'single_qubit_op_to_framed_phase_form':
            U, r, g = cirq.single_qubit_op_to_framed_phase_form(ug)
            U, r, g = np.asarray(U, dtype=complex), complex(r), complex(g)
            if U.shape != (2, 2) or not (np.all(np.isfinite(U)) and np.isfinite(r) and np.isfinite(g)):
                ctx.violation(f'{routine}:form:{cls(name)}', f'{routine} on {name}: returned U = {U.tolist()}, r = {r}, g = {g}; a 2x2 unitary and two finite phase factors with U^-1 diag(1, r) U diag(g, g) = M are documented', rep)
                return
            ctx.count(routine, [name, rep['matrix']], nt, sample=dict(input_class=name, r=str(r), g=str(g)))
            um = gates.fmat(U)
            res = float(np.max(np.abs(g * U.conj().T @ np.diag([1, r]) @ U - u)))
            checks.append((routine, f'fcll_close {fl(1e-7)} (mscale FOps {gates.fc(g)} (mmul FOps (mdagger FOps {um}) (mmul FOps (fmdiag {gates.fvec([1, r])}) {um}))) {gates.fmat(u)} && '
                           f'is_unitary_f {fl(1e-7)} 2 {um} && f_close {fl(1e-7)} {fl(abs(r))} 1 && f_close {fl(1e-7)} {fl(abs(g))} 1',
                           f'{routine} on {name}: U^-1 diag(1, r) U diag(g, g) with r={r}, g={g} differs from the input by more than 1e-7 (numpy estimate of the residual: {res:.3g}), '
                           f'or U is not unitary, or |r|, |g| != 1', dict(rep, signature=f'{routine}:reconstruct:{cls(name)}')))
        else:
            raise KeyError(routine)
    except KeyError:
        raise
    except Exception as e:
        raised(e)


ROUTINES_1Q = ['deconstruct_single_qubit_matrix_into_angles', 'axis_angle', 'single_qubit_matrix_to_pauli_rotations', 'single_qubit_matrix_to_gates',
               'single_qubit_matrix_to_phased_x_z', 'single_qubit_matrix_to_phxz', 'PhasedXZGate.from_matrix', 'single_qubit_op_to_framed_phase_form']


def one_qubit_stream(ctx, cirq, mods, conv, inputs, checks):
    for k, (name, u) in enumerate(inputs):
        for routine in ROUTINES_1Q:
            if routine.startswith('single_qubit_matrix'):
                atols = [0, 1e-8] if k % 3 else [0, 1e-6]
                for atol in atols:
                    run_1q(ctx, cirq, mods, conv, checks, routine, dict(atol=atol), name, u)
            else:
                run_1q(ctx, cirq, mods, conv, checks, routine, {}, name, u)


# =====================================================================================================
# Stream 5: linear-algebra factorisations
# =====================================================================================================
ROUTINES.update({
    'kron_factor_4x4_to_2x2s': 'docstring: (g, f1, f2) with g*kron(f1,f2) equal to the matrix, f1 and f2 of unit determinant; rtol=1e-5/atol=1e-8 are the stated per-entry tolerances on equality: |diff| <= atol + rtol*|entry|; det within 1e-7.',
    'so4_to_magic_su2s': 'docstring: A, B in SU(2) with Mag^dagger kron(A,B) Mag approximately the given SO(4) matrix; per-entry atol + rtol*|entry| as stated; A, B special unitary within 1e-7.',
    'bidiagonalize_unitary_with_special_orthogonals': 'docstring: (L, d, R) with L @ mat @ R = diag(d), L and R orthogonal with determinant 1; atol = "absolute numeric error threshold" 1e-8, no bound on the result stated: x 10 = 1e-7.',
    'bidiagonalize_real_matrix_pair_with_symmetric_products': 'docstring: orthogonal L, R such that L @ mat1 @ R and L @ mat2 @ R are diagonal; atol 1e-8 x 10 = 1e-7 on the off-diagonal entries.',
    'diagonalize_real_symmetric_matrix': 'docstring: orthogonal P with P.T @ matrix @ P diagonal; 1e-7.',
    'diagonalize_real_symmetric_and_sorted_diagonal_matrices': 'docstring: orthogonal P with P.T @ symmetric @ P diagonal and P.T @ diagonal @ P = diagonal (up to tolerance); 1e-7.',
    'map_eigenvalues': 'docstring: f(M) = sum_k f(a_k)|v_k><v_k|; checked with f = square against M @ M and f = identity against M; atol 1e-8 x 10 = 1e-7.',
    'unitary_eig': 'docstring: eigenvalues and a unitary V of eigenvector columns (V diag(vals) V^dagger = matrix); atol 1e-8 x 10 = 1e-7.',
    'to_special': 'docstring: "Converts a unitary matrix to a special unitary matrix": u * det(u)^(-1/d), i.e. a phase multiple of u with determinant 1 (what num_cnots_required and '
                  'extract_right_diag start from); no tolerance stated: 1e-7.',
})
ROUTINES_LA = ['kron_factor_4x4_to_2x2s', 'so4_to_magic_su2s', 'bidiagonalize_unitary_with_special_orthogonals', 'bidiagonalize_real_matrix_pair_with_symmetric_products',
               'diagonalize_real_symmetric_matrix', 'diagonalize_real_symmetric_and_sorted_diagonal_matrices', 'map_eigenvalues', 'unitary_eig', 'to_special']
MAGIC = np.array([[1, 0, 0, 1j], [0, 1j, 1, 0], [0, 1j, -1, 0], [1, 0, 0, -1j]]) * math.sqrt(0.5)


def offdiag_zero(expr, n, tol):
    return f'is_diagonal_f {fl(tol)} {expr}'


def run_la(ctx, cirq, checks, routine, name, m, m2=None):
    """m (and m2): the input matrices, complex arrays."""
    m = np.asarray(m, dtype=complex)
    mg = given(name, m)
    n = m.shape[0]
    rep = dict(kind='linalg', routine=routine, input_class=name, matrix=cmat(m), matrix2=cmat(m2) if m2 is not None else None)
    nt = 'identity' not in name
    T7 = fl(1e-7)

    scls = (real_neg_det_class(mg) if routine == 'to_special' else None) or cls(name)

    def add(suffix, expr, what):
        checks.append((routine + suffix, expr, f'{routine} on {name}: {what}', dict(rep, signature=f'{routine}{suffix or ":reconstruct"}:{scls}')))
        ctx.count(routine + suffix, [name, rep['matrix'], rep['matrix2']], nt, sample=dict(input_class=name, n=n) if not suffix else None)

    try:
        if routine == 'kron_factor_4x4_to_2x2s':
            g, f1, f2 = cirq.kron_factor_4x4_to_2x2s(mg)
            add('', f'fcll_allclose {fl(1e-5)} {fl(1e-8)} {gates.fmat(m)} (mscale FOps {gates.fc(g)} (kron FOps {gates.fmat(f1)} {gates.fmat(f2)}))',
                'g*kron(f1,f2) differs from the matrix by more than atol + rtol*|entry|')
            add(':form', f'det_is_one_f {T7} 2 {gates.fmat(f1)} && det_is_one_f {T7} 2 {gates.fmat(f2)}', f'a factor is not of unit determinant: det f1={np.linalg.det(f1)}, det f2={np.linalg.det(f2)}')
        elif routine == 'so4_to_magic_su2s':
            a, b = cirq.so4_to_magic_su2s(np.real(m))
            add('', f'fcll_allclose {fl(1e-5)} {fl(1e-8)} {gates.fmat(np.real(m))} (magic_conj {gates.fmat(a)} {gates.fmat(b)})', 'Mag^dagger kron(A,B) Mag differs from the matrix by more than atol + rtol*|entry|')
            add(':form', f'is_special_unitary_f {T7} 2 {gates.fmat(a)} && is_special_unitary_f {T7} 2 {gates.fmat(b)}', 'A or B is not special unitary')
        elif routine == 'bidiagonalize_unitary_with_special_orthogonals':
            L, d, R = cirq.bidiagonalize_unitary_with_special_orthogonals(mg)
            add('', f'fcll_close {T7} (mmul FOps {gates.fmat(L)} (mmul FOps {gates.fmat(m)} {gates.fmat(R)})) (fmdiag {gates.fvec(d)})',
                f'L @ mat @ R differs from diag(d) by more than 1e-7 (numpy: {float(np.max(np.abs(L @ m @ R - np.diag(d)))):.3g})')
            add(':form', f'is_special_orthogonal_f {T7} {n} {gates.fmat(L)} && is_special_orthogonal_f {T7} {n} {gates.fmat(R)}', 'L or R is not special orthogonal')
        elif routine == 'bidiagonalize_real_matrix_pair_with_symmetric_products':
            m1, mm2 = np.real(m), np.real(m2)
            L, R = cirq.bidiagonalize_real_matrix_pair_with_symmetric_products(m1, mm2)
            add('', f'is_diagonal_f {T7} (mmul FOps {gates.fmat(L)} (mmul FOps {gates.fmat(m1)} {gates.fmat(R)})) && '
                    f'is_diagonal_f {T7} (mmul FOps {gates.fmat(L)} (mmul FOps {gates.fmat(mm2)} {gates.fmat(R)}))',
                f'L @ mat1 @ R or L @ mat2 @ R has an off-diagonal entry above 1e-7 (numpy: {float(np.max(np.abs((L @ m1 @ R) * (1 - np.eye(n))))):.3g}, {float(np.max(np.abs((L @ mm2 @ R) * (1 - np.eye(n))))):.3g})')
            add(':form', f'is_orthogonal_f {T7} {n} {gates.fmat(L)} && is_orthogonal_f {T7} {n} {gates.fmat(R)}', 'L or R is not orthogonal')
        elif routine == 'diagonalize_real_symmetric_matrix':
            ms = np.real(m)
            P = cirq.diagonalize_real_symmetric_matrix(ms)
            add('', f'is_diagonal_f {T7} (mmul FOps (mtranspose FOps {gates.fmat(P)}) (mmul FOps {gates.fmat(ms)} {gates.fmat(P)})) && is_orthogonal_f {T7} {n} {gates.fmat(P)}',
                'P.T @ matrix @ P is not diagonal or P is not orthogonal')
        elif routine == 'diagonalize_real_symmetric_and_sorted_diagonal_matrices':
            ms, dm = np.real(m), np.real(m2)
            P = cirq.diagonalize_real_symmetric_and_sorted_diagonal_matrices(ms, dm)
            pt = f'(mtranspose FOps {gates.fmat(P)})'
            add('', f'is_diagonal_f {T7} (mmul FOps {pt} (mmul FOps {gates.fmat(ms)} {gates.fmat(P)})) && is_orthogonal_f {T7} {n} {gates.fmat(P)} && '
                    f'fcll_allclose {fl(1e-5)} {fl(1e-8)} (mmul FOps {pt} (mmul FOps {gates.fmat(dm)} {gates.fmat(P)})) {gates.fmat(dm)}',
                'P.T @ symmetric @ P is not diagonal, P is not orthogonal, or P.T @ diagonal @ P differs from diagonal')
        elif routine == 'map_eigenvalues':
            sq = cirq.map_eigenvalues(mg, lambda v: v * v)
            idm = cirq.map_eigenvalues(mg, lambda v: v)
            add('', f'fcll_close {T7} {gates.fmat(sq)} (mmul FOps {gates.fmat(m)} {gates.fmat(m)}) && fcll_close {T7} {gates.fmat(idm)} {gates.fmat(m)}',
                'map_eigenvalues(M, square) differs from M @ M, or map_eigenvalues(M, identity) from M, by more than 1e-7')
        elif routine == 'unitary_eig':
            vals, V = cirq.unitary_eig(mg)
            add('', f'fcll_close {T7} (mmul FOps {gates.fmat(V)} (mmul FOps (fmdiag {gates.fvec(vals)}) (mdagger FOps {gates.fmat(V)}))) {gates.fmat(m)} && is_unitary_f {T7} {n} {gates.fmat(V)}',
                'V diag(vals) V^dagger differs from the matrix by more than 1e-7 or V is not unitary')
        elif routine == 'to_special':
            sp = np.asarray(cirq.to_special(mg), dtype=complex)
            if sp.shape != m.shape or not np.all(np.isfinite(sp)):
                ctx.violation(f'{routine}:form:{scls}', f'{routine} on {name} (dtype {mg.dtype}, det {np.linalg.det(mg)!r}): the result has shape {sp.shape} and entries '
                              f'{sp.tolist() if n <= 2 else sp[0].tolist()}: not a finite matrix of the same shape', rep)
                return
            add('', f'fcll_close_phase {T7} {gates.fmat(sp)} {gates.fmat(m)} && det_is_one_f {T7} {n} {gates.fmat(sp)}',
                f'the result is not a phase multiple of the input with determinant 1 (numpy: det = {np.linalg.det(sp)!r})')
        else:
            raise KeyError(routine)
    except KeyError:
        raise
    except Exception as e:
        ctx.violation(f'{routine}:raises:{scls}', f'{routine} raised {type(e).__name__}: {e} on {name}', rep)


def su2(u):
    u = np.asarray(u, dtype=complex)
    return u / cmath.sqrt(np.linalg.det(u))


def linalg_stream(ctx, cirq, inputs1, inputs2, checks):
    rng = ctx.rng
    ladder = [(n, u) for n, u in inputs1 if n.startswith(LADDER_MARK)]
    ones = [(n, u) for n, u in inputs1 if not n.endswith('*phase') and LADDER_MARK not in n and not n.startswith('random:small-angle')]
    sel = [x for k, x in enumerate(ones) if k % 5 == 0 or 'clifford' in x[0] or x[0] in ('identity', 'X', 'Y', 'Z', 'H', 'S')]
    # kron factors: pairs from the one-qubit corpus
    for k, (na, a) in enumerate(sel):
        nb, b = sel[(7 * k + 3) % len(sel)]
        g = cmath.exp(1j * name_rng(na + nb).uniform(0, 6.28)) if k % 2 else 1.0
        run_la(ctx, cirq, checks, 'kron_factor_4x4_to_2x2s', f'kron({na},{nb})' + ('*phase' if k % 2 else ''), g * np.kron(a, b))
        o = MAGIC.conj().T @ np.kron(su2(a), su2(b)) @ MAGIC
        run_la(ctx, cirq, checks, 'so4_to_magic_su2s', f'magic(kron(su2 {na}, su2 {nb}))', np.real(o))
    perm = np.eye(4)[[1, 0, 3, 2]]
    for nm, o in (('identity', np.eye(4)), ('-identity', -np.eye(4)), ('perm(1,0,3,2)', perm), ('diag(1,-1,-1,1)', np.diag([1.0, -1, -1, 1])),
                  ('blockrot', np.kron(np.eye(2), np.array([[math.cos(0.3), -math.sin(0.3)], [math.sin(0.3), math.cos(0.3)]])))):
        run_la(ctx, cirq, checks, 'so4_to_magic_su2s', 'so4:' + nm, o)
    # bidiagonalisation: two-qubit corpus in the magic basis (what kak_decomposition feeds it), plain unitaries of size 1..4
    twos = [x for k, x in enumerate(inputs2) if not x[0].startswith('weyl+locals') and (k % 3 == 0 or x[0].startswith('weyl:vertex') or not x[0].startswith('weyl'))]
    for name, u, _ in twos:
        mb = MAGIC.conj().T @ u @ MAGIC
        run_la(ctx, cirq, checks, 'bidiagonalize_unitary_with_special_orthogonals', 'magic-basis:' + name, mb)
        run_la(ctx, cirq, checks, 'bidiagonalize_real_matrix_pair_with_symmetric_products', 'magic-basis:' + name, np.real(mb), np.imag(mb))
    for k in range(12):
        n = [1, 2, 3, 4, 3, 2][k % 6]
        u = gates.random_unitary(rng, n)
        run_la(ctx, cirq, checks, 'bidiagonalize_unitary_with_special_orthogonals', f'random:haar{n}', u)
        run_la(ctx, cirq, checks, 'bidiagonalize_real_matrix_pair_with_symmetric_products', f'random:haar{n}', np.real(u), np.imag(u))
    for name, u, _ in [x for k, x in enumerate(twos) if k % 3 == 0]:
        run_la(ctx, cirq, checks, 'map_eigenvalues', name, u)
        run_la(ctx, cirq, checks, 'unitary_eig', name, u)
    for name, u in sel[::2]:
        run_la(ctx, cirq, checks, 'map_eigenvalues', '1q:' + name, u)
        run_la(ctx, cirq, checks, 'unitary_eig', '1q:' + name, u)
    # every decade of distance from the identity / a half turn (near-degenerate spectra, nearly-local factors at scales between the tolerance and O(1))
    for k, (na, a) in enumerate(ladder):
        if k % 3 == 0:
            run_la(ctx, cirq, checks, 'map_eigenvalues', '1q:' + na, a)
            run_la(ctx, cirq, checks, 'unitary_eig', '1q:' + na, a)
        if k % 4 == 0:
            nb, b = ladder[(5 * k + 7) % len(ladder)]
            run_la(ctx, cirq, checks, 'kron_factor_4x4_to_2x2s', f'kron({na},{nb})', np.kron(a, b))
            run_la(ctx, cirq, checks, 'so4_to_magic_su2s', f'magic(kron(su2 {na}, su2 {nb}))', np.real(MAGIC.conj().T @ np.kron(su2(a), su2(b)) @ MAGIC))
            run_la(ctx, cirq, checks, 'unitary_eig', f'kron({na},{nb})', np.kron(a, b))
        if k % 6 == 0:
            run_la(ctx, cirq, checks, 'to_special', na, a)
    # real normal matrices handed over as float64 / int64 arrays (orthogonal matrices with non-real spectrum, skew-symmetric, symmetric; sizes 1..8)
    for name, u in real_normal_inputs(rng) + real_dtype_1q() + real_dtype_2q() + real_dtype_3q():
        run_la(ctx, cirq, checks, 'map_eigenvalues', name, u)
        run_la(ctx, cirq, checks, 'unitary_eig', name, u)
    # to_special: unitaries of size 2, 4, 8 (complex and real dtype, either sign of the determinant)
    for name, u in sel[::3] + [(n_, u_) for n_, u_, _ in twos[::6]] + real_dtype_1q() + real_dtype_2q() + real_dtype_3q():
        if u.shape[0] in (2, 4, 8):
            run_la(ctx, cirq, checks, 'to_special', name, u)
    for name, u in real_dtype_2q():
        run_la(ctx, cirq, checks, 'bidiagonalize_unitary_with_special_orthogonals', name, u)
        if '(x)' in name:
            run_la(ctx, cirq, checks, 'kron_factor_4x4_to_2x2s', name, u)
    # real symmetric matrices with degenerate / near-degenerate spectra
    for k in range(16):
        n = [2, 3, 4, 4][k % 4]
        r = name_rng(f'sym{k}')
        q, _ = np.linalg.qr(np.array([[r.gauss(0, 1) for _ in range(n)] for _ in range(n)]))
        spec = [[1, 1, -1, -1], [2, 2, 2, 1], [1, 1 + 1e-9, 1 - 1e-9, 0], [3, 1, 0, 0], [1, 1 + 1e-8, 0.5, 0.5 - 1e-8], [0, 0, 0, 0]][k % 6][:n]
        ms = q @ np.diag(spec) @ q.T
        ms = (ms + ms.T) / 2
        run_la(ctx, cirq, checks, 'diagonalize_real_symmetric_matrix', f'sym{n}:spec{k % 6}', ms)
        # commuting pair: block-diagonal symmetric matrix against a sorted diagonal with repeated entries
        dm = np.diag(sorted([[2, 2, 1, 1], [3, 3, 3, 0], [1, 1, 1, 1], [4, 2, 2, 1]][k % 4][:n], reverse=True)).astype(float)
        blocks = np.zeros((n, n))
        i = 0
        while i < n:
            j = i
            while j < n and dm[j, j] == dm[i, i]:
                j += 1
            b = np.array([[r.gauss(0, 1) for _ in range(j - i)] for _ in range(j - i)])
            blocks[i:j, i:j] = (b + b.T) / 2
            i = j
        run_la(ctx, cirq, checks, 'diagonalize_real_symmetric_and_sorted_diagonal_matrices', f'commuting{n}:{k % 4}', blocks, dm)


# =====================================================================================================
# Stream 6: three-qubit, Shannon, multi-controlled, state preparation, Clifford tableau, CPhase -> FSim
# =====================================================================================================
ROUTINES.update({
    'three_qubit_matrix_to_operations': 'docstring: operations for a 3-qubit unitary (an operation list: up to phase) made of CZ, CNOT and single-qubit gates; atol = "limit on the amount of absolute error": residual <= atol; the cited algorithm (Shende et al.) uses at most 20 CZ/CNOT, which is what Cirq\'s own test asserts: every multi-qubit gate must be CZ or CNOT and there are at most 20.',
    'quantum_shannon_decomposition': 'docstring: 1- and 2-qubit gates and GlobalPhase "preserving global phase": compared EXACTLY; two-qubit gates from {CNOT, CZ} (read as the CZPowGate family: the 2-qubit blocks are synthesised with partial CZs); the docstring warns that accuracy depends on np.linalg.eig and states no bound: atol 1e-8 x 10 = 1e-7; count: the Shende formula (23/48)4^n - (3/2)2^n + 4/3 (3, 20, 100 for n = 2, 3, 4) of the cited algorithm.',
    'decompose_multi_controlled_rotation': 'docstring: equivalent to MatrixGate(matrix).on(target).controlled_by(*controls) (a controlled gate: compared EXACTLY), exclusively 1-qubit, CNOT and CCNOT gates; no tolerance stated: 1e-7.',
    'decompose_multi_controlled_x': 'docstring: multi-controlled X, free qubits end in their initial state (compared EXACTLY with C^n X (x) I), exclusively 1-qubit, CNOT and CCNOT gates; 1e-7.',
    'prepare_two_qubit_state_using_cz': 'docstring: prepares the state from |00> with at most one CZ: exactly 1 for entangled states, 0 for product states (checked where the smaller Schmidt coefficient is 0 or > 1e-6); a state: up to phase; no tolerance stated and no atol argument; the routine computes its intermediate state in complex64 (epsilon 6e-8, residuals up to 7e-8 measured): 1e-6.',
    'prepare_two_qubit_state_using_sqrt_iswap': 'as above with one SQRT_ISWAP (SQRT_ISWAP_INV by default, use_sqrt_iswap_inv).',
    'prepare_two_qubit_state_using_iswap': 'as above with one ISWAP (ISWAP_INV with use_iswap_inv).',
    'decompose_clifford_tableau_to_operations': 'docstring: one/two-qubit operations that reconstruct the same Clifford tableau: the unitary of the returned operations equals the unitary of the circuit the tableau was built from, up to phase (a tableau has none); exact arithmetic: 1e-8.',
    'decompose_cphase_into_two_fsim': 'docstring: exactly two copies of the FSim gate and single-qubit rotations, "accounts for the global phase": compared EXACTLY; feasible iff the exponent lies in compute_cphase_exponents_for_fsim_decomposition (ValueError otherwise); no tolerance on the result stated: 1e-7.',
})


def shende_count(n):
    return round((23 / 48) * 4 ** n - 1.5 * 2 ** n + 4 / 3)


def is_cx_or_cz(cirq):
    return lambda op: isinstance(op.gate, (cirq.CZPowGate, cirq.CXPowGate)) and abs(float(op.gate.exponent) - 1) < 1e-12 and len(op.qubits) == 2


def unitary_support(u):
    """Positions (0 = most significant) of the qubits the unitary acts on non-trivially: u = v (x) I_j exactly for every other j."""
    u = np.asarray(u, dtype=complex)
    n = int(round(math.log2(u.shape[0])))
    t = u.reshape((2,) * (2 * n))
    out = []
    for j in range(n):
        m = np.moveaxis(t, (j, n + j), (0, 1))
        if not (np.allclose(m[0, 1], 0, atol=1e-12) and np.allclose(m[1, 0], 0, atol=1e-12) and np.allclose(m[0, 0], m[1, 1], atol=1e-12)):
            out.append(j)
    return out


QSD_ALT = ('reconstructs_phase_f', 'quantum_shannon_decomposition:global-phase:qubits-not-in-sorted-order',
           'the product equals the input up to a global phase only, for a `qubits` argument that is not in sorted order: the documented "preserving global phase" is lost')


def run_nq(ctx, cirq, mods, conv, checks, routine, opts, name, u):
    """opts['order'] (optional): the qubits handed to the routine are LineQubit(i) for i in order, most significant first."""
    u = np.asarray(u, dtype=complex)
    n = int(round(math.log2(u.shape[0])))
    order = list(opts.get('order') or range(n))
    q = [cirq.LineQubit(i) for i in order]
    nt = 'identity' not in name
    rep = dict(kind='nq', routine=routine, opts=opts, input_class=name, matrix=cmat(u))
    pre = dict(sig_prefix='order=' + ','.join(map(str, order)) + ':') if order != sorted(order) else None
    try:
        if routine == 'three_qubit_matrix_to_operations':
            ops = cirq.three_qubit_matrix_to_operations(q[0], q[1], q[2], given(name, u))
            add_ops_checks(ctx, conv, checks, routine, opts, name, u, ops, q, 1e-8, True, (20, False, is_cx_or_cz(cirq), 'at most 20 CZ/CNOT and no other multi-qubit gate'), nt, extra=pre)
        elif routine == 'quantum_shannon_decomposition':
            ops = list(cirq.quantum_shannon_decomposition(q, given(name, u)))
            add_ops_checks(ctx, conv, checks, routine, opts, name, u, ops, q, 1e-7, False,
                           (shende_count(n), False, lambda op: len(op.qubits) == 2 and (isinstance(op.gate, cirq.CZPowGate) or is_cx_or_cz(cirq)(op)),
                            f'at most {shende_count(n)} CZ-family/CNOT gates for {n} qubits and no other multi-qubit gate'), nt, extra=pre,
                           alt=QSD_ALT if pre else None)
        else:
            raise KeyError(routine)
    except KeyError:
        raise
    except Exception as e:
        sup = unitary_support(u)
        # a failure on a unitary that leaves some qubits alone is reported under the support (a property of the input matrix), not the corpus name
        where = f'{(pre or {}).get("sig_prefix", "")}{cls(name)}' if len(sup) == n else f'{type(e).__name__}:{n}-qubit-input-acting-only-on-qubits{sup}'
        ctx.violation(f'{routine}:raises:{where}', f'{routine}({[str(x) for x in q]}, u) raised {type(e).__name__}: {(str(e).splitlines() or [""])[0][:160]} on {name}'
                      + ('' if len(sup) == n else f' (the matrix acts as the identity on all but positions {sup} of `qubits`)'), rep)


def controlled_matrix(u, nc, nf=0):
    d = 2 ** (nc + 1)
    m = np.eye(d, dtype=complex)
    m[d - 2:, d - 2:] = u
    return np.kron(m, np.eye(2 ** nf))


DENSE_QUBITS = 5          # up to here the dense reference semantics (Sim/Ref.circ_unitary) is evaluated as well


def run_ctrl(ctx, cirq, mods, conv, checks, routine, opts, name, u):
    """One multi-controlled synthesis: `controls` controls, one target, `free` borrowed qubits (decompose_multi_controlled_x only).
    Every shape is judged in the sparse reference semantics (Xform/CtrlSynth.v: every basis state through the returned operations against the
    column of "u on the target iff all controls are 1, identity elsewhere"), shapes of at most DENSE_QUBITS qubits also in the dense one, and
    there the two semantics are compared with each other."""
    nc, nf = opts['controls'], opts.get('free', 0)
    cs = cirq.LineQubit.range(nc)
    t = cirq.LineQubit(nc)
    fr = [cirq.LineQubit(nc + 1 + i) for i in range(nf)]
    allq = cs + [t] + fr
    n = len(allq)
    rep = dict(kind='ctrl', routine=routine, opts=opts, input_class=name, matrix=cmat(u))
    native = lambda op: (isinstance(op.gate, cirq.CXPowGate) and len(op.qubits) == 2 or isinstance(op.gate, cirq.CCXPowGate) and len(op.qubits) == 3) and abs(float(op.gate.exponent) - 1) < 1e-12
    sig = f'c{nc}f{nf}:'
    try:
        if routine == 'decompose_multi_controlled_rotation':
            ops = cirq.decompose_multi_controlled_rotation(np.asarray(given(name, u)), cs, t)
        else:
            ops = cirq.decompose_multi_controlled_x(cs, t, fr)
        ops = list(cirq.flatten_to_ops(ops))
        if n <= DENSE_QUBITS:
            add_ops_checks(ctx, conv, checks, routine, opts, name, controlled_matrix(u, nc, nf), ops, allq, 1e-7, False,
                           (10 ** 6, False, native, 'exclusively 1-qubit, CNOT and CCNOT gates'), True, extra=dict(sig_prefix=sig))
    except Exception as e:
        ctx.violation(f'{routine}:raises:{sig}{cls(name)}', f'{routine}({opts}) raised {type(e).__name__}: {e} on {name}', rep)
        return
    okey = ','.join(f'{k}={v}' for k, v in sorted(opts.items()))
    stream = f'{routine}[{okey}]:every-basis-state'
    try:
        sterm = sparse_term(conv, ops, allq)
    except ValueError as e:
        ctx.violation(f'{routine}:form:{sig}{cls(name)}', f'{routine}({opts}) on {name}: exclusively 1-qubit, CNOT and CCNOT gates are promised: {e}', rep)
        return
    ctx.count(stream, [name, rep['matrix']], True, sample=dict(input_class=name, qubits=n, n_ops=len(ops), operations=[str(o) for o in ops[:8]]))
    cbits = '[' + '; '.join(f'{n - 1 - k}%N' for k in range(nc)) + ']'

    def what():
        try:
            res = residual(numpy_unitary(cirq, ops, allq), controlled_matrix(u, nc, nf), False)
        except Exception:
            res = None
        return (f'{routine}({okey}) on {name}: the {len(ops)} returned operations on {n} qubits, run on every basis state, are not the gate "the matrix on the target iff all {nc} controls '
                f'are 1, identity on the {nf} other qubits (which end in their initial state)": an amplitude differs by more than 1e-7 (numpy estimate of the residual: {res})')
    c = (stream, f'ctrl_synth_f {fl(1e-7)} {n} {cbits} {n - 1 - nc}%N {gates.fmat(u)} {sterm}', what, dict(rep, signature=f'{routine}:reconstruct:{sig}{cls(name)}'))
    if n <= DENSE_QUBITS:
        checks.append(c)
        try:
            checks.append((f'{routine}:sparse-vs-dense-semantics', f'ctrl_cross_f {fl(1e-9)} {n} {sterm} {gates.nlist([2] * n)} {conv.ops(ops, allq)}',
                           f'{routine}({okey}) on {name}: the sparse semantics (Xform/CtrlSynth.v) and the dense reference semantics (Sim/Ref.v) give different matrices for the same {len(ops)} operations',
                           dict(rep, signature=f'model:sparse-vs-dense:{sig}{cls(name)}')))
            ctx.count(f'{routine}:sparse-vs-dense-semantics', [name, rep['matrix'], nc, nf], True)
        except Exception:
            pass                                                  # reported by add_ops_checks
    else:
        add_heavy(checks, c, 2 ** n * len(ops))


def schmidt_min(psi):
    return float(np.linalg.svd(np.asarray(psi).reshape(2, 2), compute_uv=False)[1])


def run_prep(ctx, cirq, mods, conv, checks, routine, opts, name, psi):
    psi = np.asarray(psi, dtype=complex)
    q = cirq.LineQubit.range(2)
    rep = dict(kind='prep', routine=routine, opts=opts, input_class=name, state=[[float(x.real), float(x.imag)] for x in psi])
    try:
        f = getattr(cirq, routine)
        ops = list(cirq.flatten_to_ops(f(q[0], q[1], psi, **opts)))
        term = conv.ops(ops, q)
    except Exception as e:
        ctx.violation(f'{routine}:raises:{cls(name)}', f'{routine}({opts}) raised {type(e).__name__}: {e} on {name}', rep)
        return
    if routine.endswith('_cz'):
        native = lambda op: isinstance(op.gate, cirq.CZPowGate) and abs(float(op.gate.exponent) - 1) < 1e-12
    elif routine.endswith('sqrt_iswap'):
        ex = -0.5 if opts.get('use_sqrt_iswap_inv', True) else 0.5
        native = lambda op: isinstance(op.gate, cirq.ISwapPowGate) and abs(float(op.gate.exponent) - ex) < 1e-12
    else:
        ex = -1 if opts.get('use_iswap_inv', False) else 1
        native = lambda op: isinstance(op.gate, cirq.ISwapPowGate) and abs(float(op.gate.exponent) - ex) < 1e-12
    sm = schmidt_min(psi / np.linalg.norm(psi))
    stream = routine + (f'[{",".join(f"{k}={v}" for k, v in opts.items())}]' if opts else '')
    ctx.count(stream, [name, rep['state']], True, sample=dict(input_class=name, operations=[str(o) for o in ops], schmidt_min=sm))
    checks.append((stream, f'prepares_phase_f {fl(1e-6)} [2; 2]%nat {term} {gates.fvec(psi / np.linalg.norm(psi))}',
                   f'{stream} on {name}: the prepared state differs from the requested one (up to phase) by more than 1e-6', dict(rep, signature=f'{routine}:reconstruct:{cls(name)}')))
    if sm < 1e-12:
        cnt = f'exact_count {opdescs(ops, native)} 0'
        text = 'a product state must be prepared without entangling gate'
    elif sm > 1e-6:
        cnt = f'exact_count {opdescs(ops, native)} 1'
        text = 'an entangled state must be prepared with exactly one entangling gate'
    else:
        cnt = f'within_count {opdescs(ops, native)} 1'
        text = 'at most one entangling gate'
    checks.append((stream + ':count', cnt, f'{stream} on {name}: {text}; got {[str(o) for o in ops if len(o.qubits) > 1]}', dict(rep, signature=f'{routine}:count:{cls(name)}')))
    ctx.count(stream + ':count', [name, rep['state']], True)


CLIFF_1Q = ['H', 'S', 'X', 'Y', 'Z', 'S**-1', 'X**0.5', 'Y**-0.5']
CLIFF_2Q = ['CNOT', 'CZ', 'SWAP']


def cliff_ops(cirq, spec, qs):
    out = []
    for g, idx in spec:
        base = {'H': cirq.H, 'S': cirq.S, 'X': cirq.X, 'Y': cirq.Y, 'Z': cirq.Z, 'S**-1': cirq.S ** -1, 'X**0.5': cirq.X ** 0.5, 'Y**-0.5': cirq.Y ** -0.5,
                'CNOT': cirq.CNOT, 'CZ': cirq.CZ, 'SWAP': cirq.SWAP}[g]
        out.append(base.on(*[qs[i] for i in idx]))
    return out


def run_cliff(ctx, cirq, mods, conv, checks, name, n, spec):
    routine = 'decompose_clifford_tableau_to_operations'
    qs = cirq.LineQubit.range(n)
    rep = dict(kind='cliff', routine=routine, input_class=name, n=n, spec=[[g, list(idx)] for g, idx in spec])
    try:
        orig = cliff_ops(cirq, spec, qs)
        if orig:
            tab = cirq.CliffordGate.from_op_list(orig, qs).clifford_tableau
        else:
            tab = cirq.CliffordTableau(n)
        ops = cirq.decompose_clifford_tableau_to_operations(qs, tab)
        t1, t0 = conv.ops(ops, qs), conv.ops(orig, qs)
    except Exception as e:
        ctx.violation(f'{routine}:raises:{name}', f'{routine} raised {type(e).__name__}: {e} on the tableau of {spec}', rep)
        return
    ctx.count(routine, [n, rep['spec']], bool(spec), sample=dict(circuit=[f'{g}{list(i)}' for g, i in spec][:10], returned=[str(o) for o in ops][:10]))
    sh = gates.nlist([2] * n)
    checks.append((routine, f'fcll_close_phase {fl(1e-8)} (circ_unitary FOps {sh} {t1}) (circ_unitary FOps {sh} {t0}) && '
                   f'within_count {opdescs(ops, lambda op: len(op.qubits) == 2)} 1000000',
                   f'{routine}: the operations returned for the tableau of {[f"{g}{list(i)}" for g, i in spec]} have a different unitary (up to phase) or use gates on more than two qubits',
                   dict(rep, signature=f'{routine}:reconstruct:{name}')))


def run_cphase(ctx, cirq, mods, conv, checks, name, theta, phi, exponent, feasible):
    routine = 'decompose_cphase_into_two_fsim'
    q = cirq.LineQubit.range(2)
    fg = cirq.FSimGate(theta, phi)
    rep = dict(kind='cphase', routine=routine, input_class=name, theta=theta, phi=phi, exponent=exponent, feasible=feasible)
    try:
        ops = list(cirq.flatten_to_ops(cirq.decompose_cphase_into_two_fsim(cirq.CZPowGate(exponent=exponent), fsim_gate=fg, qubits=q)))
    except ValueError as e:
        ctx.count(routine + ':ValueError', [theta, phi, exponent], True)
        if feasible:
            ctx.violation(f'{routine}:raises:{name}', f'{routine}(CZ**{exponent}, FSim({theta},{phi})) raised ValueError({e}) although the exponent lies inside '
                          'compute_cphase_exponents_for_fsim_decomposition', rep)
        return
    except Exception as e:
        ctx.violation(f'{routine}:raises:{name}', f'{routine}(CZ**{exponent}, FSim({theta},{phi})) raised {type(e).__name__}: {e}', rep)
        return
    u = np.diag([1, 1, 1, cmath.exp(1j * math.pi * exponent)])
    add_ops_checks(ctx, conv, checks, routine, dict(fsim=f'FSim({theta:.4g},{phi:.4g})'), name, u, ops, q, 1e-7, False,
                   (2, True, lambda op: op.gate == fg, 'exactly two copies of the FSim gate'), True, extra=dict(theta=theta, phi=phi, exponent=exponent, feasible=feasible))


def ctrl_stream(ctx, cirq, mods, conv, inputs1, checks, scale):
    """decompose_multi_controlled_rotation / decompose_multi_controlled_x over the shapes (controls, borrowed qubits): every shape of at most 9 qubits and a fixed
    selection on 10 and 11 qubits, so that each branch of the construction (Barenco et al. Lemma 7.2 ladder with 0, 1, 2 and 3 rungs, Lemma 7.3 split with its
    recursive calls, the general recursion without borrowed qubits) is reached at every VERIF_SEED, directly and through the rotations with 5..10 controls."""
    rng = ctx.rng
    quick = ctx.tier == 'quick'
    ones = dict(inputs1)
    mats = ['X', 'Z', 'H', 'T', 'identity', '-identity', 'i*identity', 'rx(pi/2)', 'ry(0.3)', 'rz(pi)', 'rx(0)+1e-09', 'clifford#11', 'X*phase', 'Y**0.5']
    R = 'decompose_multi_controlled_rotation'
    for k, nm in enumerate(mats):
        for nc in ([0, 1, 2, 3, 4] if k % 4 == 0 else [k % 3 + 1, 3]) + [5 + k % 3]:
            run_ctrl(ctx, cirq, mods, conv, checks, R, dict(controls=nc), nm, ones[nm])
    for k, (nm, u) in enumerate(real_dtype_1q()):          # "2x2 numpy unitary matrix (of real or complex dtype)"
        for nc in ([0, 1, 2, 3, 6] if k % 4 == 0 else [k % 3 + 1, 4 + k % 3]):
            run_ctrl(ctx, cirq, mods, conv, checks, R, dict(controls=nc), nm, u)
    # many controls: special unitary (linear construction, one borrowed control) and general (quadratic recursion) matrices, frozen
    r = name_rng('ctrl:many')
    h1, h2 = gates.random_unitary(r, 2), gates.random_unitary(r, 2)
    many = [('haar#0', h1, 8), ('su2:haar#0', su2(h1), 9), ('haar#1', h2, 7), ('su2:haar#1', su2(h2), 8), ('rz(pi)', ones['rz(pi)'], 9), ('ry(0.3)', ones['ry(0.3)'], 8), ('H', ones['H'], 8),
            ('T', ones['T'], 7), ('-identity', ones['-identity'], 8), ('i*identity', ones['i*identity'], 7), ('Y**0.5', ones['Y**0.5'], 6), (REAL_DTYPE + 'rot(0.3)', np.asarray(rot2(0.3), dtype=complex), 9),
            (REAL_DTYPE + 'reflection(0.3)', np.asarray(refl2(0.3), dtype=complex), 8)]
    if not quick:
        many += [('haar#0', h1, 9), ('su2:haar#0', su2(h1), 10), ('su2:haar#1', su2(h2), 10), ('Z', ones['Z'], 9), ('rx(pi/2)', ones['rx(pi/2)'], 10)]
    for nm, u, nc in many:
        run_ctrl(ctx, cirq, mods, conv, checks, R, dict(controls=nc), nm, u)
    for i in range(3 * scale):
        u = gates.random_unitary(rng, 2)
        run_ctrl(ctx, cirq, mods, conv, checks, R, dict(controls=rng.choice([1, 2, 3, 4, 5, 6, 7])), 'random:haar', u)
        run_ctrl(ctx, cirq, mods, conv, checks, R, dict(controls=rng.choice([2, 3, 4, 5, 6, 7, 8])), 'random:su2', su2(u))
    shapes = [(nc, nf) for nc in range(0, 9) for nf in range(0, 9 - nc)]                       # every shape of at most 9 qubits
    shapes += [(5, 4), (6, 3), (8, 1), (6, 4)] if quick else [(nc, 9 - nc) for nc in range(0, 10)] + [(6, 4), (7, 3), (5, 5), (9, 1)]
    for nc, nf in shapes:
        run_ctrl(ctx, cirq, mods, conv, checks, 'decompose_multi_controlled_x', dict(controls=nc, free=nf), 'X', ones['X'])
    if PIPE is not None:
        PIPE.hflush()


def nq_stream(ctx, cirq, mods, conv, inputs1, inputs2, checks, scale):
    rng = ctx.rng
    ones = dict(inputs1)
    twos = {n: u for n, u, _ in inputs2}
    # ---- three qubits / Shannon ----
    k3 = lambda a, b: np.kron(a, b)
    named3 = [('identity', np.eye(8)), ('CCZ', cirq.unitary(cirq.CCZ)), ('CCX', cirq.unitary(cirq.CCX)), ('CSWAP', cirq.unitary(cirq.CSWAP)),
              ('QFT3', cirq.unitary(cirq.qft(*cirq.LineQubit.range(3)))), ('H(x)CNOT', k3(ones['H'], twos['CNOT'])), ('CZ(x)T', k3(twos['CZ'], ones['T'])),
              ('local:HST', k3(k3(ones['H'], ones['S']), ones['T'])), ('diag8', np.diag(np.exp(1j * np.arange(8) * 0.37))), ('-identity', -np.eye(8)),
              ('SWAP(x)X', k3(twos['SWAP'], ones['X'])), ('I(x)sqrt-iswap', k3(ones['identity'], twos['SQRT_ISWAP'])),
              ('CCZ**0.5', cirq.unitary(cirq.CCZ ** 0.5)), ('C-iswap', controlled_matrix(np.eye(2), 0) if False else np.block([[np.eye(4), np.zeros((4, 4))], [np.zeros((4, 4)), twos['ISWAP']]]))]
    for i in range(3 * scale):
        named3.append(('random:haar8', gates.random_unitary(rng, 8)))
    # structured three-qubit unitaries: tensor products, permutations, multiplexers, a gate on two of the three qubits
    r3 = name_rng('struct:3q')
    h2, h4a, h4b = gates.random_unitary(r3, 2), gates.random_unitary(r3, 4), gates.random_unitary(r3, 4)
    z4 = np.zeros((4, 4))
    named3 += [('struct:I(x)I(x)X', k3(np.eye(4), ones['X'])), ('struct:X(x)I(x)I', k3(ones['X'], np.eye(4))), ('struct:I(x)X(x)I', k3(k3(ones['identity'], ones['X']), ones['identity'])),
               ('struct:perm8', np.eye(8)[[3, 1, 4, 0, 5, 7, 6, 2]]), ('struct:phased-perm8', np.eye(8)[[6, 2, 0, 7, 1, 4, 3, 5]] @ np.diag(np.exp(1j * np.array([r3.uniform(0, 6.28) for _ in range(8)])))),
               ('struct:haar4+haar4', np.block([[h4a, z4], [z4, h4b]])), ('struct:haar2(x)haar4', k3(h2, h4a)), ('struct:haar4(x)haar2', k3(h4b, h2)),
               ('struct:controlled-haar4', np.block([[np.eye(4), z4], [z4, h4a]])), ('struct:diag8:phases', np.diag(np.exp(1j * np.array([r3.uniform(0, 6.28) for _ in range(8)])))),
               ('struct:Z(x)S(x)T', k3(k3(ones['Z'], ones['S']), ones['T'])), ('struct:CNOT-on-q0,q2', np.eye(8)[[0, 1, 2, 3, 5, 4, 7, 6]])]
    named3 += [('struct:' + n, u) for n, u in real_dtype_3q()]     # real orthogonal 8x8 matrices handed over as float64 / int64 arrays
    named3.append(('random:' + REAL_DTYPE + 'SO(8)', np.asarray(random_so(rng, 8), dtype=complex)))
    perms3 = [[2, 1, 0], [1, 0, 2], [0, 2, 1], [2, 0, 1], [1, 2, 0]]
    for k, (name, u) in enumerate(named3):
        run_nq(ctx, cirq, mods, conv, checks, 'three_qubit_matrix_to_operations', {}, name, u)
        run_nq(ctx, cirq, mods, conv, checks, 'quantum_shannon_decomposition', {}, '3q:' + name, u)
        # the same matrices with the qubits handed over in a non-sorted order ("list of qubits in order of significance")
        run_nq(ctx, cirq, mods, conv, checks, 'quantum_shannon_decomposition', dict(order=perms3[k % 5]), '3q:' + name, u)
        if k % 3 == 0:
            run_nq(ctx, cirq, mods, conv, checks, 'three_qubit_matrix_to_operations', dict(order=perms3[(k + 2) % 5]), name, u)
    for name in ['identity', 'X', 'H', 'T', 'ry(pi)+1e-09*rz(0.7)', 'clifford#7', 'rz(2pi)-1e-08']:
        run_nq(ctx, cirq, mods, conv, checks, 'quantum_shannon_decomposition', {}, '1q:' + name, ones[name])
    for name in ['identity', 'CNOT', 'CZ', 'ISWAP', 'SWAP', 'SQRT_ISWAP', 'XX', 'ZZ**0.25', 'CH', 'local:haar#0', 'weyl:vertex:iswap:x+1e-08', 'weyl:edge:cnot-swap:x+1e-09',
                 'weyl:interior', 'weyl+locals:face:x=pi/4,z<0', 'weyl+locals:vertex:swap', 'degenerate:diag(1,1,-1,-1)']:
        run_nq(ctx, cirq, mods, conv, checks, 'quantum_shannon_decomposition', {}, '2q:' + name, twos[name])
        run_nq(ctx, cirq, mods, conv, checks, 'quantum_shannon_decomposition', dict(order=[1, 0]), '2q:' + name, twos[name])
    for k, name in enumerate(n for n in twos if n.startswith('struct:')):
        run_nq(ctx, cirq, mods, conv, checks, 'quantum_shannon_decomposition', {}, '2q:' + name, twos[name])
        if k % 3 == 0:
            run_nq(ctx, cirq, mods, conv, checks, 'quantum_shannon_decomposition', dict(order=[1, 0]), '2q:' + name, twos[name])
    for i in range(2 * scale):
        u = gates.random_unitary(rng, 4)
        run_nq(ctx, cirq, mods, conv, checks, 'quantum_shannon_decomposition', {}, 'random:haar4', u)
        run_nq(ctx, cirq, mods, conv, checks, 'quantum_shannon_decomposition', dict(order=[1, 0]), 'random:haar4', u)
    for name, u in [('4q:identity', np.eye(16)), ('4q:CNOT(x)ISWAP', np.kron(twos['CNOT'], twos['ISWAP'])), ('4q:random:haar16', gates.random_unitary(rng, 16))]:
        run_nq(ctx, cirq, mods, conv, checks, 'quantum_shannon_decomposition', {}, name, u)
    run_nq(ctx, cirq, mods, conv, checks, 'quantum_shannon_decomposition', dict(order=[3, 1, 0, 2]), '4q:CNOT(x)ISWAP', np.kron(twos['CNOT'], twos['ISWAP']))
    # ---- state preparation ----
    b = math.sqrt(0.5)
    states = [('|00>', [1, 0, 0, 0]), ('|01>', [0, 1, 0, 0]), ('|10>', [0, 0, 1, 0]), ('|11>', [0, 0, 0, 1]), ('|++>', [0.5] * 4), ('bell:phi+', [b, 0, 0, b]), ('bell:phi-', [b, 0, 0, -b]),
              ('bell:psi+', [0, b, b, 0]), ('bell:psi-', [0, b, -b, 0]), ('bell:i', [b, 0, 0, 1j * b]), ('0.6|00>+0.8i|11>', [0.6, 0, 0, 0.8j]), ('|0>(x)|+i>', [b, 1j * b, 0, 0]),
              ('-|01>', [0, -1, 0, 0]), ('i|11>', [0, 0, 0, 1j])]
    for d in (1e-10, 1e-9, 1e-8, 1e-7, 1e-3):
        states.append((f'cos|00>+sin|11>:{d:.0e}', [math.cos(d), 0, 0, math.sin(d)]))
        states.append((f'bell:phi+:{d:+.0e}', [math.cos(PI4 + d), 0, 0, math.sin(PI4 + d)]))
    for nm, psi in list(states):
        r = name_rng('prep:' + nm)
        states.append((nm + '+locals', local_pair(r, 'haar') @ np.asarray(psi, dtype=complex)))
    for i in range(6):
        r = name_rng(f'prod{i}')
        states.append((f'product#{i}', np.kron(gates.random_unitary(r, 2)[:, 0], gates.random_unitary(r, 2)[:, 0])))
    for i in range(6 * scale):
        states.append(('random:haar', gates.random_unitary(rng, 4)[:, 0]))
    for k, (nm, psi) in enumerate(states):
        run_prep(ctx, cirq, mods, conv, checks, 'prepare_two_qubit_state_using_cz', {}, nm, psi)
        run_prep(ctx, cirq, mods, conv, checks, 'prepare_two_qubit_state_using_sqrt_iswap', dict(use_sqrt_iswap_inv=k % 2 == 0), nm, psi)
        run_prep(ctx, cirq, mods, conv, checks, 'prepare_two_qubit_state_using_iswap', dict(use_iswap_inv=k % 3 == 0), nm, psi)
    # ---- Clifford tableaux ----
    run_cliff(ctx, cirq, mods, conv, checks, 'identity1', 1, [])
    run_cliff(ctx, cirq, mods, conv, checks, 'identity3', 3, [])
    for g in CLIFF_1Q:
        run_cliff(ctx, cirq, mods, conv, checks, 'single:' + g, 1, [(g, (0,))])
    for g in CLIFF_2Q:
        run_cliff(ctx, cirq, mods, conv, checks, 'single:' + g, 2, [(g, (0, 1))])
        run_cliff(ctx, cirq, mods, conv, checks, 'single:' + g + ':reversed', 2, [(g, (1, 0))])
    for i in range(40 * scale):
        n = rng.choice([1, 2, 2, 3, 3, 4])
        spec = []
        for _ in range(rng.randint(1, 4 * n + 2)):
            if n >= 2 and rng.random() < 0.45:
                spec.append((rng.choice(CLIFF_2Q), tuple(rng.sample(range(n), 2))))
            else:
                spec.append((rng.choice(CLIFF_1Q), (rng.randrange(n),)))
        run_cliff(ctx, cirq, mods, conv, checks, f'random{n}', n, spec)
    # ---- CPhase into two FSim ----
    fs = [('SYC', math.pi / 2, math.pi / 6), ('FSim(1.3,0.4)', 1.3, 0.4), ('FSim(pi/2,pi/4)', math.pi / 2, math.pi / 4), ('FSim(-pi/2,pi/6)', -math.pi / 2, math.pi / 6),
          ('FSim(pi/2-0.05,0.6)', math.pi / 2 - 0.05, 0.6), ('FSim(0.4,2.5)', 0.4, 2.5)]
    for fname, th, ph in fs:
        try:
            ivs = cirq.compute_cphase_exponents_for_fsim_decomposition(cirq.FSimGate(th, ph))
        except Exception as e:
            ctx.violation(f'compute_cphase_exponents_for_fsim_decomposition:raises:{fname}', f'raised {type(e).__name__}: {e}', dict(kind='cphase', theta=th, phi=ph, exponent=0, feasible=False, input_class=fname))
            continue
        pts = []
        for lo, hi in ivs:
            lo, hi = float(lo), float(hi)
            mid = (lo + hi) / 2
            pts += [(mid, True, 'mid'), (lo + 1e-6, True, 'lo+1e-6'), (hi - 1e-6, True, 'hi-1e-6'), (lo + (hi - lo) * 0.25, True, 'quarter'), (-mid, True, '-mid'), (mid + 2, True, 'mid+2'),
                    (lo - 0.01, None, 'lo-0.01'), (hi + 0.01, None, 'hi+0.01')]
        pts += [(1.0, None, '1'), (0.5, None, '0.5'), (-0.25, None, '-0.25'), (0.0, None, '0')]
        for e, feas, tag in pts:
            inside = any(lo - 1e-9 <= (abs(((e + 1) % 2) - 1)) <= hi + 1e-9 for lo, hi in ivs)
            run_cphase(ctx, cirq, mods, conv, checks, f'{fname}:{tag}', th, ph, float(e), bool(feas) if feas is not None else False and inside)


# =====================================================================================================
class Pipeline:
    """Evaluates the Coq expressions of `checks` shard by shard in background threads (each shard is a coqc process) while the streams keep
    producing more: the verdicts are the same as those of one evaluation at the end, only the wall time differs."""
    SH = 150

    def __init__(self, ctx, checks, workers=12):
        from concurrent.futures import ThreadPoolExecutor
        self.ctx, self.checks, self.done, self.futs, self.names = ctx, checks, 0, [], []
        self.hchecks, self.hfuts, self.hdone, self.hcost = [], [], 0, 0
        coq.coq_eval(f'c15_warm_{ctx.seed}', PRE + 'Eval vm_compute in true.\n')        # builds the dependencies once, under the lock
        self.names.append((f'c15_warm_{ctx.seed}', None))
        self.ex = ThreadPoolExecutor(max_workers=workers)

    def flush(self, final=False):
        n = len(self.checks)
        while n - self.done >= self.SH or (final and n > self.done):
            part = self.checks[self.done:self.done + self.SH]
            text = PRE + 'Definition checks : list bool := [\n' + ';\n'.join(c[1] for c in part) + '].\nEval vm_compute in failing (fun b => b) checks.\n'
            name = f'c15_a_{self.ctx.seed}_{self.done // self.SH}'
            self.names.append((name, None))
            self.futs.append((self.done, self.ex.submit(coq.coq_eval, name, text)))
            self.done += len(part)

    def heavy(self, c, cost=1):
        """An expression that may cost seconds (a circuit on 6..11 qubits run on every basis state; cost = basis states x operations): evaluated in
        shards of bounded total cost (~2 s of vm_compute), each submitted as soon as it is full."""
        self.hchecks.append(c)
        self.hcost += cost
        self.ctx.cov['multi_controlled_cost_basis_states_x_operations'] = self.ctx.cov.get('multi_controlled_cost_basis_states_x_operations', 0) + cost
        if self.hcost >= 300000 or len(self.hchecks) - self.hdone >= 12:
            self.hflush()

    def hflush(self):
        part = self.hchecks[self.hdone:]
        if part:
            text = PRE + 'Definition checks : list bool := [\n' + ';\n'.join(c[1] for c in part) + '].\nEval vm_compute in failing (fun b => b) checks.\n'
            name = f'c15_h_{self.ctx.seed}_{self.hdone}'
            self.names.append((name, None))
            self.hfuts.append((self.hdone, self.ex.submit(coq.coq_eval, name, text)))
            self.hdone, self.hcost = len(self.hchecks), 0

    def finish(self):
        """-> the checks whose expression evaluated to false"""
        self.flush(final=True)
        self.hflush()
        try:
            return ([self.checks[s0 + i] for s0, f in self.futs for i in coq.parse_nat_list(coq.parse_evals(f.result())[0])]
                    + [self.hchecks[s0 + i] for s0, f in self.hfuts for i in coq.parse_nat_list(coq.parse_evals(f.result())[0])])
        finally:
            self.ex.shutdown(wait=True)
            drop_case_files(self.names)


PIPE = None


def tick():
    if PIPE is not None:
        PIPE.flush()


def add_heavy(checks, c, cost=1):
    if PIPE is not None:
        PIPE.heavy(c, cost)
    else:
        checks.append(c)


def evaluate(ctx, checks, pipe=None):
    SH = 150

    def run_shards(exprs, tag):
        shards = []
        for s0 in range(0, len(exprs), SH):
            text = PRE + 'Definition checks : list bool := [\n' + ';\n'.join(exprs[s0:s0 + SH]) + '].\nEval vm_compute in failing (fun b => b) checks.\n'
            shards.append((f'c15_{tag}_{ctx.seed}_{s0 // SH}', text))
        try:
            outs = coq.coq_eval_many(shards, workers=14)
        finally:
            drop_case_files(shards)
        return [si * SH + idx for si, out in enumerate(outs) for idx in coq.parse_nat_list(coq.parse_evals(out)[0])]

    failing = pipe.finish() if pipe is not None else [checks[i] for i in run_shards([c[1] for c in checks], 'a')]
    # classify reconstruction failures: beyond the documented tolerance but within 10x of it, or worse
    second = [c for c in failing if 'loose' in c[3]]
    still = set(run_shards([c[3]['loose'] for c in second], 'b')) if second else set()
    minor = {id(c): '10x' for k, c in enumerate(second) if k not in still}
    third = [c for k, c in enumerate(second) if k in still and 'loose2' in c[3]]
    still3 = set(run_shards([c[3]['loose2'] for c in third], 'c')) if third else set()
    minor.update({id(c): '1e-6' for k, c in enumerate(third) if k not in still3})
    fourth = [c for c in failing if 'alt' in c[3] and id(c) not in minor]
    still4 = set(run_shards([c[3]['alt'] for c in fourth], 'd')) if fourth else set()
    alt_ok = {id(c) for k, c in enumerate(fourth) if k not in still4}
    for c in failing:
        stream, _, desc, rep = c
        if callable(desc):
            desc = desc()                              # a diagnostic that is only worth computing for a failing case
        rep = dict(rep)
        sig = rep.pop('signature')
        rep.pop('loose', None), rep.pop('loose2', None), rep.pop('sig_prefix', None), rep.pop('alt', None), rep.pop('class_first', None)
        loose_sig = rep.pop('loose_signature', None)
        alt_sig, alt_note = rep.pop('alt_signature', None), rep.pop('alt_note', None)
        if id(c) in alt_ok:
            sig = alt_sig
            desc += f' [{alt_note}]'
        elif minor.get(id(c)) == '10x':
            sig = loose_sig
            desc += ' [residual within 10x the documented tolerance]'
        elif minor.get(id(c)) == '1e-6':
            sig = loose_sig.replace('within-10x-tolerance', 'beyond-10x-tolerance-below-1e-6')
            desc += ' [residual beyond 10x the documented tolerance but below 1e-6]'
        ctx.disagree(f'validation:{stream}', desc, sig, desc, rep)


def run(ctx):
    mods = env.import_cirq(('cirq_google',))
    cirq = mods['cirq']
    ctx.rule = ('each routine of the frozen list (coverage.routines) x [special-case corpus: identity, local gates, CNOT/CZ/iSWAP/sqrt-iSWAP/SWAP classes, structured unitaries '
                '(diagonal, tensor products, (phased) permutations, controlled, block-diagonal; every routine on each), the known-gate grid of the Sycamore dispatch, non-sorted qubit orders, '
                'frozen + seeded gate tabulations x (the gate of every tabulated KAK vector + the corpus), points 1e-7..5e-6 below the face x=pi/4, '
                '29 named Weyl-chamber points (vertices, edges, faces, interior, B, sqrt-iSWAP region boundary) bare and dressed with Haar local gates and a phase, '
                '+-{1e-10,1e-9,2e-9,1e-8} on every coordinate sitting on a boundary, degenerate spectra, the scale ladder: every decade 3e-7..1e-1 of distance from the singular points '
                '(single-qubit rotations by t0+d about coordinate and oblique axes for t0 in {0, 2pi, pi, -pi, pi/2}, Z Y Z products with middle angle d / pi+d; boundary coordinates of '
                'the Weyl-chamber points moved by 3e-7..1e-3), seeded log-uniform small-angle rotations] + seeded random unitaries (Haar via QR, products of library gates) '
                'x option flags; non-trivial = input is not the identity; distinct by (routine, options, input matrix)')
    ctx.assumptions += ['float instance: binary64 inside vm_compute, tolerance = documented tolerance of each routine (coverage.routines)',
                        '"up to global phase" is accepted when the comparison holds for the phase aligned at the largest entry or for the phase of the inner product (either is a witness of "for some unit factor")',
                        'operations enter the reference semantics through the shared gate vocabulary; others through cirq.unitary (counted)']
    ctx.cov['routines'] = ROUTINES
    ctx.set_obligations(coq.compile_props('C15'))
    n = 1 if ctx.tier == 'quick' else 10
    import time
    t = [time.time()]
    timing = ctx.cov.setdefault('seconds_by_stage', {})

    def lap(stage):
        t.append(time.time())
        timing[stage] = round(t[-1] - t[-2], 1)

    canon_stream(ctx, cirq, 400 * n)
    lap('canon')
    checks = []
    global PIPE
    PIPE = pipe = Pipeline(ctx, checks)
    conv = Conv(cirq, mods)
    inputs = two_qubit_inputs(ctx, cirq, 40 * n, full=ctx.tier != 'quick')
    kak_stream(ctx, cirq, inputs, checks)
    lap('kak')
    tick()
    synth2q_stream(ctx, cirq, mods, conv, inputs, checks, 8 if ctx.tier == 'quick' else 2)
    lap('synth2q')
    class_stream(ctx, cirq, mods, conv, inputs, checks, 8 if ctx.tier == 'quick' else 2)
    lap('class')
    tick()
    known_syc_stream(ctx, cirq, mods, conv, checks, n)
    lap('known_syc')
    tick()
    tabulation_stream(ctx, cirq, mods, conv, inputs, checks, 1 if ctx.tier == 'quick' else 4)
    lap('tabulation')
    tick()
    param_sqrt_iswap_stream(ctx, cirq, mods, conv, checks, n)
    lap('param_sqrt_iswap')
    tick()
    inputs1 = one_qubit_inputs(ctx, cirq, 30 * n)
    ctrl_stream(ctx, cirq, mods, conv, inputs1, checks, n)          # first: its 6..11-qubit cases are evaluated in the background while the other streams run
    lap('multi_controlled')
    tick()
    one_qubit_stream(ctx, cirq, mods, conv, inputs1, checks)
    lap('one_qubit')
    tick()
    linalg_stream(ctx, cirq, inputs1, inputs, checks)
    lap('linalg')
    tick()
    nq_stream(ctx, cirq, mods, conv, inputs1, inputs, checks, n)
    lap('nq')
    ctx.cov['operations_entering_through_cirq_unitary'] = dict(conv.via_unitary)
    ctx.cov['coq_expressions'] = len(checks) + len(pipe.hchecks)
    PIPE = None
    evaluate(ctx, checks, pipe)
    lap('coq_evaluation_after_the_streams')


def replay(ctx, data):
    mods = env.import_cirq(('cirq_google',))
    cirq = mods['cirq']
    kind = data.get('kind')
    if kind == 'canon':
        res = cirq.kak_canonicalize_vector(*data['xyz'], atol=data['atol'])
        bad = canon_oracle(cirq, data['xyz'], data['atol'], res)
        print('replay kak_canonicalize_vector:', bad or 'documented guarantees hold')
        return not bad
    checks = []
    conv = Conv(cirq, mods)
    before = len(ctx.violations) + len(ctx.known_hits)          # violations raised while the case is re-run (exceptions, malformed results) count as well
    if kind == 'synth':                  # cases recorded by add_ops_checks: the routine says which adapter produced them
        r = data['routine']
        if r in ROUTINES_1Q:
            kind = '1q'
        elif r in ('three_qubit_matrix_to_operations', 'quantum_shannon_decomposition'):
            kind = 'nq'
        elif r in ('decompose_multi_controlled_rotation', 'decompose_multi_controlled_x'):
            kind = 'ctrl'
            step = 2 ** data['opts'].get('free', 0)
            data = dict(data, matrix=cmat(from_cmat(data['matrix'])[-2 * step::step, -2 * step::step]))
    if kind == 'kak_decomposition':
        kak_stream(ctx, cirq, [(data['input_class'], from_cmat(data['matrix']), None)], checks)
    elif kind == '1q':
        run_1q(ctx, cirq, mods, conv, checks, data['routine'], data['opts'], data['input_class'], from_cmat(data['matrix']))
    elif kind == 'linalg':
        run_la(ctx, cirq, checks, data['routine'], data['input_class'], from_cmat(data['matrix']), from_cmat(data['matrix2']) if data.get('matrix2') else None)
    elif kind == 'nq':
        run_nq(ctx, cirq, mods, conv, checks, data['routine'], data['opts'], data['input_class'], from_cmat(data['matrix']))
    elif kind == 'ctrl':
        run_ctrl(ctx, cirq, mods, conv, checks, data['routine'], data['opts'], data['input_class'], from_cmat(data['matrix']))
    elif kind == 'prep':
        run_prep(ctx, cirq, mods, conv, checks, data['routine'], data['opts'], data['input_class'], np.array([complex(a, b) for a, b in data['state']]))
    elif kind == 'cliff':
        run_cliff(ctx, cirq, mods, conv, checks, data['input_class'], data['n'], [(g, tuple(i)) for g, i in data['spec']])
    elif kind == 'cphase' or (kind == 'synth' and data['routine'] == 'decompose_cphase_into_two_fsim'):
        run_cphase(ctx, cirq, mods, conv, checks, data['input_class'], data['theta'], data['phi'], data['exponent'], data['feasible'])
    elif kind == 'known':
        run_known(ctx, cirq, mods, conv, checks, data['spec'])
    elif kind == 'param':
        PARAM_TREES.clear()
        run_param(ctx, cirq, mods, conv, checks, data['spec'])
    elif kind == 'tab':
        tab = build_tab(ctx, cirq, data['tab'])
        if tab is None:
            return False
        run_tab(ctx, cirq, mods, conv, checks, data['tab'], tab, data['input_class'], from_cmat(data['target']), data.get('hint'), syc=data.get('syc', 0))
    elif kind == 'tab-build':
        return build_tab(ctx, cirq, data['tab']) is not None
    elif kind == 'class' and data['routine'] in ROUTINES_CLASS:
        opts = dict(data['opts'])
        if opts.pop('form', None) == 'array':
            row = np.asarray(cirq.kak_vector(np.stack([from_cmat(data['matrix'])] * 2)))[1]
            run_class(ctx, cirq, mods, conv, checks, data['routine'], dict(form='array'), data['input_class'], from_cmat(data['matrix']), data.get('hint'), batch_row=row)
        else:
            run_class(ctx, cirq, mods, conv, checks, data['routine'], opts, data['input_class'], from_cmat(data['matrix']), data.get('hint'))
    elif kind == 'synth' and data['routine'] in ROUTINES_2Q:
        run_2q(ctx, cirq, mods, conv, checks, data['routine'], data['opts'], data['input_class'], from_cmat(data['matrix']), data.get('hint'))
    else:
        print('replay: unknown kind', kind)
        return False
    evaluate(ctx, checks)
    return len(ctx.violations) + len(ctx.known_hits) == before
