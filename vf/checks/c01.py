"""C01 — unitary simulation equals the ordered product of operation matrices (DESIGN 5/C01)."""
import math
import numpy as np
from .. import env, coq, runner, gates, tables, circuits

LEVEL = 'proof'
META = dict(
    text='Coq theorems about the reference semantics (matrix-on-axes application commutes on disjoint axes, tabulation round trip, the buffer-swapping loop of apply_unitaries returns the ordered product for every choice of in-place/buffer/fresh strategies; an operation inside one factor of a product state acts on that factor only, so a run whose operations each lie in one factor is the product of the separate runs - the split_untangled_states mode; fifteen slicing kernels incl. SWAP, ISWAP, CCZ, CCX, CSWAP, FSim, qudit Z, n-qubit diagonal and qubit-permutation kernels are the action of the documented matrices; the update rule of the classical basis-state simulator tracks the matrix action up to a phase; axis permutations commute with runs) plus, on every run, a correspondence that evaluates the reference semantics (ordered product of the proven gate matrices) inside Coq on generated circuits and compares every simulation entry point of /repo with it. Repeated blocks: r written-out copies of a block are the block iterated r times and the model of the one-qudit fast path of CircuitOperation._unitary_ (ordered product with the scalars of zero-qubit operations folded in, then the matrix power) acts as that many runs of the block; SwapPowGate at an odd exponent is a global phase times the exchange of the two target digits (so relabelling is exact only for phase 1). Fixed grids for every seed: special exponent x global-shift values, SWAP-only / identity-only moments read at every moment step, every set of allowed control tuples on the classical simulator, initial-state objects reused.',
    note='Trusted: Coq kernel; float instantiation of the model (PrimFloat, tolerances 1e-7 for complex128, 3e-6*sqrt(dim) for complex64); numpy itself (einsum/transpose) is modelled as linear maps, not verified; the Python adapters. The theorems are about the model of the algorithm; the entry points themselves are compared on sampled circuits.',
    technique='Rocq/Coq proof over an executable reference semantics + vm_compute correspondence against every simulator entry point',
)

TOL128 = 1e-7


def flt(x):
    return gates.fl(x)


def order_perm(rng, n):
    p = list(range(n))
    if rng.random() < 0.6:
        rng.shuffle(p)
    return p


def basis_vec(dim, k):
    v = np.zeros(dim, dtype=complex)
    v[k] = 1
    return v


def random_state(rng, dim):
    v = np.array([complex(rng.gauss(0, 1), rng.gauss(0, 1)) for _ in range(dim)])
    return v / np.linalg.norm(v)


def run(ctx):
    mods = env.import_cirq(('cirq_google', 'cirq_ionq'))
    cirq = mods['cirq']
    ctx.rule = ('random circuits (1-5 wires, qubits and qudits d=3,4, 1-14 ops from the whole gate vocabulary with special and '
                'generic parameters, EARLIEST/NEW moment structure) x entry point (Circuit.unitary, final_state_vector, '
                'cirq.final_state_vector, Simulator.simulate with dtype/split options, simulate_moment_steps, simulate_sweep with '
                'symbolic suffix, DensityMatrixSimulator, ClassicalStateSimulator) x initial state (basis index, product state, '
                'full vector) x qubit order; non-trivial = >=2 ops sharing a wire and >=1 non-diagonal gate; distinct by canonical case')
    ctx.assumptions += ['float tolerance 1e-7 (complex128) / 3e-6*sqrt(dim) (complex64)', 'numpy linear algebra trusted',
                        'gate matrices are those of C03 (gate_model: regenerated eigen tables / documented closed forms)']
    err = tables.regenerate(['EigenTables'])
    if err['EigenTables']:
        ctx.mark_broken('table:EigenTables', err['EigenTables'])
    ctx.set_obligations(coq.compile_props('C01'))
    n = 160 if ctx.tier == 'quick' else 1600
    cases = [circuits.random_case(ctx.rng, max_wires=5, max_ops=12) for _ in range(n)]
    cases += [classical_case(ctx.rng) for _ in range(n // 4)]
    cases += [sweep_case(ctx.rng) for _ in range(n // 3)]
    cases += [block_case(ctx.rng) for _ in range(n // 4)]
    cases += eigen_grid(ctx.tier)
    cases += classical_control_grid()
    cases += relabel_grid()
    evaluate(ctx, cirq, mods, cases)


def classical_case(rng):
    """Reversible circuit over X, CX, CCX, SWAP, qubit permutations at exponent 1 (ClassicalStateSimulator vocabulary)."""
    n = rng.randint(2, 5)
    ops = []
    # one wire may be a 4-level system: only powers of its X gate that are the identity are in the vocabulary there
    qudit = rng.randrange(n) if rng.random() < 0.3 else None
    for _ in range(rng.randint(1, 10)):
        fam = rng.choice(['XPow', 'CXPow', 'SwapPow', 'CCXPow', 'Perm', 'Perm', 'Ctrl', 'Ctrl'])
        if qudit is not None and rng.random() < 0.35:
            # multiples of 4 are the identity; 2 is NOT (X**2 of a 4-level system maps |0> to |2>): accepted only if tracked rightly
            g = gates.G('X4Pow', dict(e=float(rng.choice([4, 8, -4, 0, 2, 2, 6])), s=rng.choice([0.0, 0.5])), (4,))
            ops.append(circuits.Op(g, [qudit]))
            continue
        if fam == 'Ctrl':
            sub = gates.G(rng.choice(['XPow', 'SwapPow']), dict(e=1.0, s=0.0), (2,)) 
            if sub.fam == 'SwapPow':
                sub = gates.G('SwapPow', dict(e=1.0, s=0.0), (2, 2))
            nc = rng.choice([1, 1, 2])
            if rng.random() < 0.3 and nc == 2:
                import itertools
                allv = list(itertools.product(range(2), repeat=2))
                cv = ('sop', [list(t) for t in rng.sample(allv, rng.randint(1, 3))])
            else:
                cv = ('pos', [rng.choice([[0], [1], [0, 1]]) for _ in range(nc)])
            g = gates.G('Ctrl', dict(sub=sub, cdims=[2] * nc, cv=cv, bools=False, as_sets=False), (2,) * nc + sub.shape)
        elif fam == 'Perm':
            k = rng.randint(2, min(3, n))
            perm = list(range(k))
            rng.shuffle(perm)
            g = gates.G('Perm', dict(perm=perm), (2,) * k)
        else:
            # exponent 1 (and its equals mod 2) is the base gate; even exponents are the identity up to a phase (any global shift)
            e, sh = rng.choice([(1.0, 0.0), (1.0, 0.0), (3.0, 0.0), (-1.0, 0.0), (2.0, 0.0), (2.0, 0.5), (0.0, 0.25), (4.0, -0.5)])
            g = gates.G(fam, dict(e=e, s=sh), gates.EIG_SHAPE.get(fam, (2, 2)))
        if len(g.shape) > n - (qudit is not None):
            continue
        ws = rng.sample([w for w in range(n) if w != qudit], len(g.shape))
        ops.append(circuits.Op(g, ws))
    c = circuits.Case([4 if w == qudit else 2 for w in range(n)], ops, ['E'] * len(ops))
    c.classical = True
    return c


def classical_control_grid():
    """ClassicalStateSimulator on controlled X / SWAP for EVERY set of allowed control tuples of two controls (sum of products and,
    where it factorises, product of sums too) and a sample of three-control sets, from every basis state (fixed for every seed)."""
    import itertools
    out = []
    two = list(itertools.product(range(2), repeat=2))
    sets = [list(c) for r in range(1, 5) for c in itertools.combinations(two, r)]
    three = list(itertools.product(range(2), repeat=3))
    sets3 = [[three[0], three[7]], [three[1], three[2], three[4]], [three[3], three[5], three[6]], [three[7]], three[1:]]
    for k, sset in enumerate(sets + sets3):
        nc = len(sset[0])
        for sub in (gates.G('XPow', dict(e=1.0, s=0.0), (2,)), gates.G('SwapPow', dict(e=1.0, s=0.0), (2, 2))):
            if sub.fam == 'SwapPow' and k % 3:
                continue
            forms = [('sop', [list(t) for t in sset])]
            per = [sorted({t[i] for t in sset}) for i in range(nc)]
            if len(list(itertools.product(*per))) == len(sset):
                forms.append(('pos', per))
            for cv in forms:
                g = gates.G('Ctrl', dict(sub=sub, cdims=[2] * nc, cv=cv, bools=False, as_sets=(cv[0] == 'pos')), (2,) * nc + sub.shape)
                n = len(g.shape)
                wires = list(range(n))
                if k % 2:
                    wires = wires[::-1]
                case = circuits.Case([2] * n, [circuits.Op(g, wires)], ['E'])
                case.classical = True
                case.all_basis = True
                out.append(case)
    return out


def sweep_case(rng):
    """An entangling numeric prefix, then a symbolic operation, then a suffix rich in exponent-1 SWAP/CX/X (the operations with
    dedicated act_on strategies); simulated for three sweep points, every point compared."""
    n = rng.randint(2, 4)

    def op(fams, e1):
        for _ in range(30):
            fam = rng.choice(fams)
            g = gates.draw(rng, fam)
            if e1 and fam in gates.EIG and rng.random() < 0.7:
                g.p['e'], g.p['s'] = 1.0, 0.0
            if len(g.shape) <= n and all(d == 2 for d in g.shape):
                return circuits.Op(g, rng.sample(range(n), len(g.shape)))
    pre = [op(['HPow', 'CXPow', 'YPow', 'CZPow', 'XPow', 'ISwapPow'], rng.random() < 0.5) for _ in range(rng.randint(2, 5))]
    sym = op(['XPow', 'YPow', 'ZPow', 'CZPow'], False)
    suf = [op(['SwapPow', 'SwapPow', 'CXPow', 'XPow', 'ZPow', 'HPow', 'YPow', 'CZPow'], True) for _ in range(rng.randint(2, 5))]
    c = circuits.Case([2] * n, pre + [sym] + suf, ['E'] * (len(pre) + 1 + len(suf)))
    c.sweep_index = len(pre)
    return c



class BlockCase(circuits.Case):
    """A circuit some of whose operations sit inside CircuitOperations with a repetition count: the reference is the flat list of
    operations with every block written out |r| times (inverted, in reverse order, for r < 0)."""

    def __init__(self, dims, segs):
        flat = []
        for seg in segs:
            if seg[0] == 'op':
                flat.append(seg[1])
            else:
                _, ops_, r = seg
                body = list(ops_) if r > 0 else [circuits.Op(inverse_of(o.g), o.wires) for o in reversed(ops_)]
                flat.extend(body * abs(r))
        super().__init__(dims, flat, ['E'] * len(flat))
        self.segs = segs

    def key(self):
        return [self.dims, [[s[0], s[1].key()] if s[0] == 'op' else [s[0], [o.key() for o in s[1]], s[2]] for s in self.segs]]

    def circuit(self, cirq, mods=None):
        qs = self.qids(cirq)
        c = cirq.Circuit()
        on = lambda o: o.g.cirq_gate(cirq, mods).on(*[qs[w] for w in o.wires])
        for seg in self.segs:
            if seg[0] == 'op':
                c.append(on(seg[1]))
            else:
                c.append(cirq.CircuitOperation(cirq.FrozenCircuit(on(o) for o in seg[1]), repetitions=seg[2]))
        idle = [q for q in qs if q not in c.all_qubits()]
        if idle:
            c.append(cirq.Moment(cirq.IdentityGate(qid_shape=(q.dimension,)).on(q) for q in idle))
        return c, qs


def inverse_of(g):
    if g.fam in gates.EIG:
        return gates.G(g.fam, dict(g.p, e=-g.p['e']), g.shape)
    if g.fam in ('GlobalPhase', 'Rx', 'Ry', 'Rz'):
        return gates.G(g.fam, dict(g.p, rads=-g.p['rads']), g.shape)
    raise ValueError(g.fam)


def block_case(rng):
    """1-3 qubits, a few plain operations and 1-2 repeated blocks on one or two wires; blocks often hold a global-phase operation."""
    n = rng.randint(1, 3)
    invertible = ['XPow', 'YPow', 'ZPow', 'HPow', 'Rx', 'Rz'] + (['CZPow', 'CXPow', 'SwapPow', 'ISwapPow'] if n >= 2 else [])

    def draw_op(wires):
        for _ in range(30):
            g = gates.draw(rng, rng.choice(invertible))
            if len(g.shape) <= len(wires):
                return circuits.Op(g, rng.sample(wires, len(g.shape)))
    segs = []
    for _ in range(rng.randint(2, 4)):
        if rng.random() < 0.55:
            segs.append(('op', draw_op(list(range(n)))))
        else:
            wires = rng.sample(range(n), rng.choice([1, 1, 2]) if n >= 2 else 1)
            ops_ = [draw_op(wires) for _ in range(rng.randint(1, 3))]
            if rng.random() < 0.6:
                ops_.insert(rng.randrange(len(ops_) + 1), circuits.Op(gates.G('GlobalPhase', dict(rads=rng.choice([math.pi / 2, math.pi, 0.7, -1.1, math.pi / 3])), ()), []))
            segs.append(('block', ops_, rng.choice([1, 2, 2, 3, -1, -2, 4])))
    if not any(s[0] == 'block' for s in segs):
        w = [rng.randrange(n)]
        segs.append(('block', [draw_op(w), circuits.Op(gates.G('GlobalPhase', dict(rads=math.pi / 2), ()), [])], 2))
    case = BlockCase([2] * n, segs)
    case.all_entries = True
    return case


def eigen_grid(tier):
    """Every (exponent, global shift) combination of special values for the gate families the simulators treat specially or that
    have integer-phase short-cuts, inside a fixed three-qubit context, through a fixed list of entry points (both split settings)."""
    fams = ['SwapPow', 'ISwapPow', 'CZPow', 'XPow', 'ZPow'] + ([] if tier == 'quick' else ['CXPow', 'YPow', 'HPow', 'ZZPow', 'XXPow', 'YYPow', 'CYPow'])
    exps = [1.0, 3.0, -1.0, 2.0] + ([] if tier == 'quick' else [0.5, 5.0, -3.0, 4.0])
    shifts = [0.0, 1.0, -1.0, 0.5] + ([] if tier == 'quick' else [2.0, 1 / 3, -0.5, 3.0])
    out = []
    E = lambda fam, e, s=0.0: gates.G(fam, dict(e=e, s=s), gates.EIG_SHAPE.get(fam, (2, 2)))
    for fam in fams:
        for e in exps:
            for sft in shifts:
                g = E(fam, e, sft)
                ops_ = [circuits.Op(E('YPow', 0.3), [0]), circuits.Op(E('XPow', 0.4), [1]),
                        circuits.Op(g, [0, 1][:len(g.shape)]), circuits.Op(E('HPow', 1.0), [1]), circuits.Op(E('CZPow', 0.5), [1, 2]),
                        circuits.Op(E('ISwapPow', 0.5), [2, 0])]        # the gate under test appears once: a sign must not cancel
                case = circuits.Case([2, 2, 2], ops_, ['E'] * len(ops_))
                case.all_entries = 'grid'
                out.append(case)
    return out


def moment_step_rows(ctx, cirq, case, c, qs, Sim, split, init_arg, full, label, max_steps=7):
    """simulate_moment_steps with the state READ AT EVERY STEP (state-vector or density matrix): after moment k it must be the model
    state of the operations of the first k moments."""
    rows = []
    n = len(case.dims)
    ident = list(range(n))
    sim = Sim(dtype=np.complex128, split_untangled_states=split)
    for k, step in enumerate(sim.simulate_moment_steps(c, qubit_order=qs, initial_state=init_arg)):
        if k >= max_steps:
            break
        pc = case.prefix_case(c, k + 1)
        if Sim is cirq.Simulator:
            rows.append((f'{label}[state read after moment {k}]', ident, full, np.asarray(step.state_vector(copy=True)), 'vec', TOL128, pc))
        else:
            rows.append((f'{label}[state read after moment {k}]', ident, full, np.asarray(step.density_matrix(copy=True)), 'rho', 1e-6, pc))
    return rows


def relabel_grid():
    """Circuits whose moments hold only SWAPs and/or identities between entangling moments (the operations the product-state simulator
    handles by relabelling), every moment separate; read at every step (fixed for every seed)."""
    E = lambda fam, e, s=0.0: gates.G(fam, dict(e=e, s=s), gates.EIG_SHAPE.get(fam, (2, 2)))
    I1 = gates.G('Identity', {}, (2,))
    I2 = gates.G('Identity', {}, (2, 2))
    out = []
    mids = [[(E('SwapPow', 1.0), [0, 1])], [(E('SwapPow', 3.0), [1, 2])], [(I1, [0])], [(I2, [0, 2])], [(E('SwapPow', 1.0), [0, 2]), (I1, [1])],
            [(E('SwapPow', -1.0), [2, 1])], [(E('SwapPow', 1.0), [0, 1]), (I1, [2])], [(E('ISwapPow', 1.0), [0, 1])]]
    for i, a in enumerate(mids):
        for j, b in enumerate(mids):
            if (i + j) % 2:
                continue
            ops_ = [circuits.Op(E('YPow', 0.3), [0]), circuits.Op(E('XPow', 0.4), [1]), circuits.Op(E('HPow', 1.0), [2])]
            strat = ['E', 'E', 'E']
            for k, (g, w) in enumerate(a):
                ops_.append(circuits.Op(g, w)); strat.append('N' if k == 0 else 'E')
            ops_.append(circuits.Op(E('CZPow', 0.5), [1, 2])); strat.append('N')
            for k, (g, w) in enumerate(b):
                ops_.append(circuits.Op(g, w)); strat.append('N' if k == 0 else 'E')
            ops_.append(circuits.Op(E('XPow', 0.25), [0])); strat.append('N')
            case = circuits.Case([2, 2, 2], ops_, strat)
            case.all_entries = 'steps'
            out.append(case)
    return out


def fixed_entry_points(ctx, cirq, mods, case):
    """A fixed list of entry points (no random choice of which): used for the grids and the block circuits."""
    rng = ctx.rng
    c, qs = case.circuit(cirq, mods)
    n = len(case.dims)
    dim = int(np.prod(case.dims)) if n else 1
    ident = list(range(n))
    out = []
    v0 = random_state(rng, dim)
    k0 = rng.randrange(dim)
    for split in (True, False):
        r = cirq.Simulator(dtype=np.complex128, split_untangled_states=split).simulate(c, qubit_order=qs, initial_state=k0)
        out.append((f'Simulator.simulate[complex128,split={split},int]', ident, basis_vec(dim, k0), np.asarray(r.final_state_vector), 'vec', TOL128))
    v = c.final_state_vector(initial_state=v0, qubit_order=qs, dtype=np.complex128)
    out.append(('Circuit.final_state_vector', ident, v0, np.asarray(v), 'vec', TOL128))
    if dim <= 16 and all(cirq.has_unitary(op) for op in c.all_operations()):
        order = order_perm(rng, n)
        u = c.unitary(qubit_order=[qs[w] for w in order], qubits_that_should_be_present=qs)
        out.append(('Circuit.unitary', order, None, np.asarray(u), 'unitary', TOL128))
    if case.all_entries == 'grid':
        return out
    if case.all_entries == 'steps':
        out = out[:2]
        for Sim in (cirq.Simulator, cirq.DensityMatrixSimulator):
            for split in (True, False):
                out += moment_step_rows(ctx, cirq, case, c, qs, Sim, split, k0, basis_vec(dim, k0), f'{Sim.__name__}.simulate_moment_steps[split={split}]')
        return out
    v = cirq.final_state_vector(c, initial_state=k0, qubit_order=qs, dtype=np.complex128)
    out.append(('cirq.final_state_vector', ident, basis_vec(dim, k0), np.asarray(v), 'vec', TOL128))
    last = None
    for step in cirq.Simulator(dtype=np.complex128, split_untangled_states=True).simulate_moment_steps(c, qubit_order=qs, initial_state=v0):
        last = step
    out.append(('Simulator.simulate_moment_steps[complex128,split=True,vec]', ident, v0, np.asarray(last.state_vector()), 'vec', TOL128))
    r = cirq.DensityMatrixSimulator(dtype=np.complex128).simulate(c, qubit_order=qs, initial_state=k0)
    out.append(('DensityMatrixSimulator.simulate', ident, basis_vec(dim, k0), np.asarray(r.final_density_matrix), 'rho', 1e-6))
    if all(cirq.has_unitary(op) for op in c.all_operations()) and len(c.all_qubits()) == n:
        order = sorted(range(n), key=lambda w: qs[w])
        out.append(('cirq.unitary(circuit)', order, None, np.asarray(cirq.unitary(c.freeze())), 'unitary', TOL128))
    st = cirq.StateVectorSimulationState(initial_state=v0.reshape(case.dims or (1,)) if n else v0, qubits=qs, dtype=np.complex128)
    for op in c.all_operations():
        cirq.act_on(op, st)
    perm = [st.qubits.index(q) for q in qs]
    vec = np.asarray(st.target_tensor).transpose(perm).reshape(-1) if n else np.asarray(st.target_tensor).reshape(-1)
    out.append(('cirq.act_on[state vector]', ident, v0, vec, 'vec', TOL128))
    return out

def entry_points(ctx, cirq, mods, case):
    """Yield (name, order, init_vector(np), result_vector_or_matrix, kind, tol) for the implementation."""
    if getattr(case, 'all_entries', False):
        return fixed_entry_points(ctx, cirq, mods, case)
    rng = ctx.rng
    c, qs = case.circuit(cirq, mods)
    n = len(case.dims)
    dim = int(np.prod(case.dims)) if n else 1
    out = []

    def ordered(order):
        return [qs[w] for w in order]

    def dims_of(order):
        return [case.dims[w] for w in order]

    def init_for(order, kind):
        d = dims_of(order)
        if kind == 'int':
            k = rng.randrange(dim)
            return k, basis_vec(dim, k)
        if kind == 'vec':
            v = random_state(rng, dim)
            return v, v
        # product state given per qubit
        vs = [random_state(rng, x) for x in d]
        full = np.array([1.0 + 0j])
        for v in vs:
            full = np.kron(full, v)
        return vs, full

    if getattr(case, 'sweep_index', None) is not None:
        import sympy
        qs2 = case.qids(cirq)
        k = case.sweep_index
        c2 = cirq.Circuit()
        for i, o in enumerate(case.ops):
            g = (gates.EIG[o.g.fam][1](cirq)(exponent=sympy.Symbol('t'), global_shift=o.g.p['s']) if i == k else o.g.cirq_gate(cirq, mods))
            c2.append(g.on(*[qs2[w] for w in o.wires]))
        order = order_perm(rng, n)
        pts = [round(rng.uniform(-1, 1), 3), case.ops[k].g.p['e'], round(rng.uniform(-1, 1), 3)]
        rng.shuffle(pts)
        sim = cirq.Simulator(dtype=np.complex128, split_untangled_states=rng.random() < 0.7)
        k0 = rng.randrange(dim)
        rs = sim.simulate_sweep(c2, params=cirq.Points('t', pts), qubit_order=[qs2[w] for w in order], initial_state=k0)
        for pt, r in zip(pts, rs):
            import copy
            cc = copy.copy(case)
            cc.ops = list(case.ops)
            gk = gates.G(case.ops[k].g.fam, dict(case.ops[k].g.p, e=pt), case.ops[k].g.shape)
            cc.ops[k] = circuits.Op(gk, case.ops[k].wires)
            out.append((f'Simulator.simulate_sweep[point {pts.index(pt)} of 3]', order, basis_vec(dim, k0), np.asarray(r.final_state_vector), 'vec', TOL128, cc))
        return out
    if getattr(case, 'classical', False):
        order = order_perm(rng, n)
        od = dims_of(order)
        # a basis state with the 4-level wire (if any) in |0>: it is prepared with X gates on the qubits
        import itertools
        if getattr(case, 'all_basis', False):
            all_digits = [list(t) for t in itertools.product(*[range(2) if d == 2 else [0] for d in od])]
        else:
            all_digits = [[0 if d != 2 else rng.randrange(2) for d in od]]
        cc = c + cirq.Circuit(cirq.measure(*ordered(order), key='m'))
        sim = cirq.ClassicalStateSimulator()
        for digits in all_digits:
            k = 0
            for d, x in zip(od, digits):
                k = k * d + x
            prep = cirq.Circuit([cirq.X(qs[w]) for pos, w in enumerate(order) if digits[pos]])
            try:
                res = sim.run(prep + cc, repetitions=1)
            except ValueError as e:
                if 'is not one of' in str(e) or 'Can not apply' in str(e) or 'not supported' in str(e).lower():
                    ctx.count('classical.run:refused', [case.key()], True, sample=dict(refused=str(e)[:120]))
                    return out          # an explicit refusal of an operation outside the classical vocabulary
                raise
            kout = 0
            for d, x in zip(od, res.records['m'][0][0]):
                kout = kout * d + int(x)
            out.append((f'classical.run[basis {k}]' if len(all_digits) > 1 else 'classical.run', order, basis_vec(dim, k), kout, 'basis', TOL128))
        # simulate from an initial state given in every form, TWICE from the same object: the caller's object is not consumed
        digits = all_digits[rng.randrange(len(all_digits))]
        k = 0
        for d, x in zip(od, digits):
            k = k * d + x
        for form, ini in (('list', list(digits)), ('tuple', tuple(digits)), ('ndarray', np.array(digits)), ('int', k)):
            keep = ini.copy() if isinstance(ini, (list, np.ndarray)) else ini
            for attempt in (1, 2):
                try:
                    r = sim.simulate(c, qubit_order=ordered(order), initial_state=ini)
                    fs = r._final_simulator_state
                    basis = [int(x) for x in (fs.basis if hasattr(fs, 'basis') else fs._state.basis)]
                except ValueError as e:
                    if 'is not one of' in str(e) or 'Can not apply' in str(e) or 'not supported' in str(e).lower():
                        break
                    raise
                kout = 0
                for d, x in zip(od, basis):
                    kout = kout * d + x
                out.append((f'classical.simulate[initial state as {form}, call {attempt} with the same object]', order, basis_vec(dim, k), kout, 'basis', TOL128))
                same = (ini == keep).all() if isinstance(ini, np.ndarray) else ini == keep
                if not same:
                    ctx.violation(f'classical.simulate:modifies-initial-state:{form}',
                                  f'ClassicalStateSimulator.simulate changed the caller\'s initial_state {form} from {keep} to {ini} on {case.key()}',
                                  dict(kind='case', case=case.key(), form=form))
                    break
        return out

    # 1. unitary (small systems)
    if dim <= 16 and all(cirq.has_unitary(op) for op in c.all_operations()):
        order = order_perm(rng, n)
        u = c.unitary(qubit_order=ordered(order), qubits_that_should_be_present=qs)
        out.append(('Circuit.unitary', order, None, np.asarray(u), 'unitary', TOL128))
    # 2. final_state_vector, both spellings
    order = order_perm(rng, n)
    kind = rng.choice(['int', 'vec'])
    ini, full = init_for(order, kind)
    if rng.random() < 0.5:
        v = c.final_state_vector(initial_state=ini, qubit_order=ordered(order), dtype=np.complex128)
        out.append(('Circuit.final_state_vector', order, full, np.asarray(v), 'vec', TOL128))
    else:
        v = cirq.final_state_vector(c, initial_state=ini, qubit_order=ordered(order), dtype=np.complex128)
        out.append(('cirq.final_state_vector', order, full, np.asarray(v), 'vec', TOL128))
    # 3. Simulator.simulate with options
    order = order_perm(rng, n)
    kind = rng.choice(['int', 'vec', 'prod']) if all(d == 2 for d in case.dims) else rng.choice(['int', 'vec'])
    ini, full = init_for(order, kind)
    dtype = rng.choice([np.complex64, np.complex128])
    split = rng.random() < 0.5
    sim = cirq.Simulator(dtype=dtype, split_untangled_states=split, seed=1)
    cc = c
    if kind == 'prod':
        ps = cirq.ProductState({q: _proj_state(cirq, v) for q, v in zip(ordered(order), ini)}) if False else None
    tol = TOL128 if dtype == np.complex128 else 3e-6 * math.sqrt(dim) + 2e-6 * len(case.ops)
    if kind == 'prod':
        # product states are handed over as a full vector built by numpy kron (the simulator factorises it itself)
        ini_arg = full.astype(dtype)
    else:
        ini_arg = ini if kind == 'int' else ini.astype(dtype)
    if rng.random() < 0.5:
        keep = ini_arg.copy() if isinstance(ini_arg, np.ndarray) else ini_arg
        r = sim.simulate(cc, qubit_order=ordered(order), initial_state=ini_arg)
        out.append((f'Simulator.simulate[{np.dtype(dtype).name},split={split},{kind}]', order, full, np.asarray(r.final_state_vector), 'vec', tol))
        if isinstance(ini_arg, np.ndarray):
            if not np.array_equal(ini_arg, keep):
                ctx.violation('Simulator.simulate:modifies-initial-state', f'Simulator.simulate changed the caller\'s initial_state array on {case.key()}', dict(kind='case', case=case.key()))
            else:
                r2 = sim.simulate(cc, qubit_order=ordered(order), initial_state=ini_arg)
                out.append((f'Simulator.simulate[{np.dtype(dtype).name},split={split},{kind}, second call with the same initial-state object]', order, full,
                            np.asarray(r2.final_state_vector), 'vec', tol))
    else:
        last = None
        for step in sim.simulate_moment_steps(cc, qubit_order=ordered(order), initial_state=ini_arg):
            last = step
        out.append((f'Simulator.simulate_moment_steps[{np.dtype(dtype).name},split={split},{kind}]', order, full,
                    np.asarray(last.state_vector()), 'vec', tol))
        if dim <= 16:
            k1 = rng.randrange(dim)
            Sim2 = rng.choice([cirq.Simulator, cirq.DensityMatrixSimulator])
            out += moment_step_rows(ctx, cirq, case, c, qs, Sim2, rng.random() < 0.7, k1, basis_vec(dim, k1), f'{Sim2.__name__}.simulate_moment_steps', max_steps=5)
    # 4. simulate_sweep with a symbolic suffix (prefix reuse)
    import sympy
    sym_idx = [i for i, o in enumerate(case.ops) if o.g.fam in gates.EIG and i >= len(case.ops) // 2]
    if sym_idx:
        qs2 = case.qids(cirq)
        c2 = cirq.Circuit()
        res_map = {}
        for i, (o, s) in enumerate(zip(case.ops, case.strategies)):
            if i in sym_idx:
                sym = sympy.Symbol(f'a{i}')
                g = gates.EIG[o.g.fam][1](cirq)(exponent=sym, global_shift=o.g.p['s'])
                res_map[f'a{i}'] = o.g.p['e']
            else:
                g = o.g.cirq_gate(cirq, mods)
            c2.append(g.on(*[qs2[w] for w in o.wires]),
                      strategy=cirq.InsertStrategy.NEW if s == 'N' else cirq.InsertStrategy.EARLIEST)
        order = order_perm(rng, n)
        k = rng.randrange(dim)
        other = {kk: 0.123 for kk in res_map}
        sim = cirq.Simulator(dtype=np.complex128, split_untangled_states=rng.random() < 0.5)
        rs = sim.simulate_sweep(c2, params=[cirq.ParamResolver(other), cirq.ParamResolver(res_map)],
                                qubit_order=[qs2[w] for w in order], initial_state=k)
        out.append(('Simulator.simulate_sweep[second point]', order, basis_vec(dim, k), np.asarray(rs[1].final_state_vector), 'vec', TOL128))
    # 5. density matrix simulator
    if dim <= 32:
        order = order_perm(rng, n)
        k = rng.randrange(dim)
        dsim = cirq.DensityMatrixSimulator(dtype=np.complex128, split_untangled_states=rng.random() < 0.5)
        r = dsim.simulate(cc, qubit_order=ordered(order), initial_state=k)
        out.append(('DensityMatrixSimulator.simulate', order, basis_vec(dim, k), np.asarray(r.final_density_matrix), 'rho', 1e-6))
    # 6. cirq.final_density_matrix (its own option handling: noise=None, ignore_measurement_results)
    if dim <= 32 and rng.random() < 0.5:
        order = order_perm(rng, n)
        kind = rng.choice(['int', 'vec'])
        ini, full = init_for(order, kind)
        rho = cirq.final_density_matrix(c, initial_state=ini, qubit_order=ordered(order), dtype=np.complex128)
        out.append(('cirq.final_density_matrix', order, full, np.asarray(rho), 'rho', 1e-6))
    # 7. compute_amplitudes: every amplitude of the run from |0..0>, asked in a shuffled order of bitstrings
    if all(d == 2 for d in case.dims) and dim <= 64 and rng.random() < 0.5:
        order = order_perm(rng, n)
        bs = list(range(dim))
        rng.shuffle(bs)
        amps = cirq.Simulator(dtype=np.complex128).compute_amplitudes(c, bs, qubit_order=ordered(order))
        v = np.zeros(dim, dtype=np.complex128)
        for b, a in zip(bs, amps):
            v[b] = a
        out.append(('Simulator.compute_amplitudes', order, basis_vec(dim, 0), v, 'vec', TOL128))
    # 8. the unitary protocol on the circuit and on its frozen form (default qubit order = sorted qubits)
    if dim <= 16 and all(cirq.has_unitary(op) for op in c.all_operations()) and len(c.all_qubits()) == n and rng.random() < 0.5:
        order = sorted(range(n), key=lambda w: qs[w])
        u = cirq.unitary(c.freeze() if rng.random() < 0.5 else c)
        out.append(('cirq.unitary(circuit)', order, None, np.asarray(u), 'unitary', TOL128))
    # 9. simulate started from a simulation-state object, and act_on of the operations on such an object one by one
    if rng.random() < 0.5:
        order = order_perm(rng, n)
        v0 = random_state(rng, dim)
        st = cirq.StateVectorSimulationState(initial_state=v0.reshape(dims_of(order) or (1,)) if n else v0, qubits=ordered(order), dtype=np.complex128)
        if rng.random() < 0.5:
            r = cirq.Simulator(dtype=np.complex128).simulate(c, qubit_order=ordered(order), initial_state=st)
            out.append(('Simulator.simulate[state object]', order, v0, np.asarray(r.final_state_vector), 'vec', TOL128))
        else:
            for op in c.all_operations():
                cirq.act_on(op, st)
            vec = np.asarray(st.target_tensor).reshape(-1)
            # act_on may have permuted the axes: read through the state's own qubit order
            perm = [st.qubits.index(q) for q in ordered(order)]
            vec = np.asarray(st.target_tensor).transpose(perm).reshape(-1) if n else vec
            out.append(('cirq.act_on[state vector]', order, v0, vec, 'vec', TOL128))
    return out


def _proj_state(cirq, v):
    return None


def evaluate(ctx, cirq, mods, cases):
    shards, rows_meta = [], []
    SH = 24
    for s0 in range(0, len(cases), SH):
        lines = [gates.COQ_HEADER + 'From VF Require Import Sim.Ref Sim.CtrlApply Sim.SubBlock.\n'
                 'Definition mat_tab (dims : list nat) (U : mat (K:=FC)) : matrix (K:=FC) := map (fun r => map (fun c => U r c) (enum dims)) (enum dims).\n']
        checks = []
        for ci, case in enumerate(cases[s0:s0 + SH]):
            gi = s0 + ci
            try:
                eps = entry_points(ctx, cirq, mods, case)
            except Exception as e:
                import traceback
                ctx.violation(f'raises:{type(e).__name__}', f'simulation raised {type(e).__name__}: {e} on {case.key()}',
                              dict(kind='case', case=case.key(), error=traceback.format_exc()[-1500:]))
                continue
            defined = {}
            for ep in eps:
                (name, order, init, result, kind, tol) = ep[:6]
                ecase = ep[6] if len(ep) > 6 else case
                okey = (tuple(order), id(ecase))
                if okey not in defined:
                    defined[okey] = f'c{gi}_{len(defined)}'
                    lines.append(f'Definition ops_{defined[okey]} : list (gop (K:=FC)) := {ecase.coq_ops(order)}.')
                    lines.append(f'Definition sh_{defined[okey]} : list nat := {ecase.coq_shape(order)}.')
                d = defined[okey]
                T = flt(tol)
                if kind == 'unitary':
                    expr = f'fcll_close {T} (circ_unitary FOps sh_{d} ops_{d}) {gates.fmat(result)}'
                elif kind == 'vec':
                    expr = f'fcl_close {T} (circ_state FOps sh_{d} ops_{d} {gates.fvec(init)}) {gates.fvec(result)}'
                elif kind == 'rho':
                    expr = f'fcll_close {T} (outer FOps (circ_state FOps sh_{d} ops_{d} {gates.fvec(init)})) {gates.fmat(result)}'
                else:  # basis: the reference final state is the basis vector `result`
                    dim = len(init)
                    expr = (f'fcl_close {T} (map (fun z => (PrimFloat.add (PrimFloat.mul (fst z) (fst z)) (PrimFloat.mul (snd z) (snd z)), 0)) '
                            f'(circ_state FOps sh_{d} ops_{d} {gates.fvec(init)})) {gates.fvec(basis_vec(dim, result))}')
                checks.append(expr)
                rows_meta.append((len(shards), len(checks) - 1, gi, name, order, init, result, kind, tol, ecase))
                ctx.count(name.split('[')[0], [case.key(), name, order], case.nontrivial(),
                          sample=dict(dims=case.dims, ops=[[o.g.fam, o.g.p if o.g.fam != 'Matrix' else '<matrix>', o.wires] for o in case.ops],
                                      entry=name, qubit_order=order))
            for bi, seg in enumerate(getattr(case, 'segs', [])):
                # the model of CircuitOperation._unitary_'s one-qudit fast path (fold_pieces, mpow_f), on the block's own pieces
                if seg[0] == 'block' and len({w for o in seg[1] for w in o.wires}) == 1:
                    body = list(seg[1]) if seg[2] > 0 else [circuits.Op(inverse_of(o.g), o.wires) for o in reversed(seg[1])]
                    pieces = '; '.join((f'PMat (mat_of FOps [2%nat] (gate_model FOps {o.g.coq()}))' if o.wires else
                                        f'PScal (mget FOps (gate_model FOps {o.g.coq()}) 0 0)') for o in body)
                    q = cirq.LineQubit(0)
                    cop = cirq.CircuitOperation(cirq.FrozenCircuit(o.g.cirq_gate(cirq, mods).on(*([q] if o.wires else [])) for o in seg[1]), repetitions=seg[2])
                    u = np.asarray(cirq.unitary(cop))
                    checks.append(f'fcll_close {flt(TOL128)} (mat_tab [2%nat] (mpow_f FOps [2%nat] (fold_pieces FOps [2%nat] [{pieces}]) {abs(seg[2])}%nat)) {gates.fmat(u)}')
                    rows_meta.append((len(shards), len(checks) - 1, gi, f'cirq.unitary(CircuitOperation)[one-qubit block {bi}]', [0], None, u, 'unitary', TOL128))
                    ctx.count('CircuitOperation._unitary_[fast path model]', [case.key(), bi], True)
        lines.append('Definition checks : list bool := [\n' + ';\n'.join(checks) + '].')
        lines.append('Eval vm_compute in failing (fun b => b) checks.')
        shards.append((f'c01_{ctx.seed}_{len(shards)}', '\n'.join(lines) + '\n'))
    outs = coq.coq_eval_many(shards, workers=12)
    for si, out in enumerate(outs):
        bad = coq.parse_nat_list(coq.parse_evals(out)[0])
        for (s, idx, gi, name, order, init, result, kind, tol, *ec) in rows_meta:
            if s == si and idx in bad:
                case = ec[0] if ec else cases[gi]
                ctx.mark_broken(f'correspondence:{name}', f'{name} differs from the reference on case {case.key()}')
                # The reference IS the property's statement (ordered product of the operation matrices), so this is a failing input.
                sig = f'{name.split("[")[0]}:' + '+'.join(sorted({o.g.fam for o in case.ops}))
                ctx.violation(sig, f'{name} (qubit order {order}) differs from the ordered product of operation matrices (tol {tol:g}) '
                                   f'on dims={case.dims} ops={[[o.g.fam, o.wires] for o in case.ops]}',
                              dict(kind='case', entry=name, order=order, case=case.key(), tol=tol))


def replay(ctx, data):
    """Re-runs the generating stream with the recorded seed/tier and looks for the recorded signature."""
    import sys
    return runner.replay_by_rerun(sys.modules[__name__], ctx, data)
