"""C08 — gate algebra and predicates are sound with respect to matrices (DESIGN 5/C08)."""
import itertools, math
import numpy as np
from .. import env, coq, runner, gates, tables, circuits

LEVEL = 'proof'
META = dict(
    text='Coq theorems over the regenerated eigen tables, for all parameters at once (generic ring): powers add (U(r1,g1)U(r2,g2)=U(r1r2,g1g2)) for every family, exponent 0 is the identity, the controlled() overrides (C(X^t)=CX^t, C(Y^t)=CY^t, C(Z^t)=CZ^t, C(CZ^t)=CCZ^t, C(CX^t)=CCX^t) hold exactly at global shift 0 and are refuted otherwise, control of a product is the product of controls, phase_by is conjugation by the Z rotation; plus a correspondence that compares the matrices of the objects Cirq constructs (pow, inverse, controlled, controlled_by, phase_by) with the model and checks that every True answer of commutes / == / approx_eq / equal_up_to_global_phase / has_stabilizer_effect and the trace-distance bound is sound for the model matrices. Control-value specifications are modelled (expand, &, |, validate, equality = same selected tuples = same controlled block matrix; the ProductOfSums short-cut of | is only a superset of the union) and compared; fixed grids: trace_distance_bound of every implementing class, has_stabilizer_effect at every combination of quarter / eighth-turn parameters, gates differing only by a global phase inside 14 wrappers, commutes between all pairs of single-qubit Clifford gate objects.',
    note='Trusted: Coq kernel; docstring transcriptions (GateSpecs.v); float instance with tolerances; numpy for the stabilizer-effect and trace-distance oracles. Soundness only: False/None answers of predicates are not alarms. The generic control-of-product theorem is proved for one control (qubit or qutrit) and one-qubit targets; other shapes are compared.',
    technique='Rocq/Coq proof of gate-algebra identities over regenerated tables + vm_compute correspondence on constructed objects and predicate answers',
)

TOL = '0x1p-27'      # ~7.5e-9
TOLP = '0x1p-20'     # ~1e-6 for comparisons up to phase / after products

PRE = gates.COQ_HEADER + '''From VF Require Import Sim.Ref Sim.CtrlApply Gates.CtrlValues.
From Coq Require Import PeanoNat.
Fixpoint mpow_nat (m : matrix (K:=FC)) (n : nat) : matrix := match n with O => mid FOps (length m) | S k => mmul FOps m (mpow_nat m k) end.
Definition mpow_int (m : matrix (K:=FC)) (neg : bool) (n : nat) : matrix := mpow_nat (if neg then mdagger FOps m else m) n.
'''


def mat_gate(u, shape):
    return gates.G('Matrix', dict(m=np.asarray(u, dtype=complex)), shape)



def cv_stream(ctx, cirq, mods, checks, n):
    """Control-value objects: expand / & / | / validate / == / is_trivial compared with Gates/CtrlValues.v (vm_compute), and the
    union reading of `|` decided on the block matrix."""
    rng = ctx.rng
    ll = lambda t: '[' + '; '.join(gates.nlist(list(x)) for x in t) + ']'

    def draw(nq, kind=None):
        kind = kind or rng.choice(['pos', 'pos', 'sop'])
        dims = [rng.choice([2, 2, 2, 3, 4]) for _ in range(nq)]
        if kind == 'pos':
            data = [sorted(rng.sample(range(d), rng.randint(1, min(d, 2)))) for d in dims]
            return ('pos', data, cirq.ProductOfSums([tuple(v) for v in data]) if rng.random() < 0.7 else
                    cirq.ProductOfSums([v[0] if len(v) == 1 else tuple(v) for v in data]), dims)
        import itertools as it
        allt = list(it.product(*[range(d) for d in dims]))
        data = sorted(set(rng.sample(allt, rng.randint(1, min(len(allt), 4)))))
        return ('sop', [list(t) for t in data], cirq.SumOfProducts(data), dims)

    def model_expand(kind, data):
        return f'(pos_expand {ll(data)})' if kind == 'pos' else ll(data)

    fixed = [(('pos', [[0], [0]]), ('pos', [[1], [1]])), (('pos', [[0, 1], [1]]), ('pos', [[1], [0]])), (('pos', [[0]]), ('pos', [[1]])),
             (('pos', [[0], [1], [2]]), ('pos', [[2], [0], [1]])), (('pos', [[1], [1]]), ('sop', [[0, 0], [1, 1]])),
             (('sop', [[0, 1]]), ('sop', [[1, 0]])), (('pos', [[0, 1], [0, 1]]), ('pos', [[1], [1]]))]
    mk = lambda kd: (kd[0], kd[1], cirq.ProductOfSums([tuple(v) for v in kd[1]]) if kd[0] == 'pos' else cirq.SumOfProducts(kd[1]),
                     [max(max(t) for t in kd[1]) + 1] * len(kd[1][0] if kd[0] == 'sop' else kd[1]))
    cases = [(mk(a), mk(b)) for a, b in fixed]
    for _ in range(60 * n):
        nq = rng.choice([1, 2, 2, 3])
        a = draw(nq)
        b = draw(nq if rng.random() < 0.7 else rng.choice([1, 2]))
        cases.append((a, b))
    for (ka, da, ca, dimsa), (kb, db, cb, dimsb) in cases:
        key = [ka, da, kb, db]
        ea, eb = model_expand(ka, da), model_expand(kb, db)
        # expand
        got = [list(t) for t in ca.expand()]
        ctx.count('cv_expand', [ka, da], len(got) > 1, sample=dict(cv=[ka, da], expand=got))
        checks.append(('cv_expand', f'cv_same {ea} {ll(got)} && Nat.eqb (length {ll(got)}) (length (nodup (list_eq_dec Nat.eq_dec) {ea}))',
                       f'expand() of {ca!r} is not the set of tuples the specification allows', dict(signature=f'cv:expand:{ka}', cv=[ka, da])))
        # & (both the ProductOfSums short-cut and the general path)
        both = ca & cb
        got = [list(t) for t in both.expand()]
        ctx.count('cv_and', key, True, sample=dict(a=[ka, da], b=[kb, db], result=repr(both)))
        model = f'(pos_expand (pos_and {ll(da)} {ll(db)}))' if ka == kb == 'pos' else f'(sop_and {ea} {eb})'
        checks.append(('cv_and', f'cv_same {model} {ll(got)} && cv_same (sop_and {ea} {eb}) {ll(got)}',
                       f'({ca!r}) & ({cb!r}) = {both!r} is not the product of the two specifications',
                       dict(signature=f'cv:and:{ka}-{kb}', a=[ka, da], b=[kb, db])))
        if cirq.num_qubits(both) != len(da if ka == 'pos' else da[0]) + len(db if kb == 'pos' else db[0]):
            checks.append(('cv_and', 'false', f'num_qubits of ({ca!r}) & ({cb!r}) is not the sum', dict(signature='cv:and:num_qubits', a=[ka, da], b=[kb, db])))
        # | : the documented union
        na, nb = cirq.num_qubits(ca), cirq.num_qubits(cb)
        try:
            either = ca | cb
        except ValueError:
            either = None
        ctx.count('cv_or', key, either is not None, sample=dict(a=[ka, da], b=[kb, db], result=repr(either)))
        if (either is None) != (na != nb):
            checks.append(('cv_or', 'false', f'({ca!r}) | ({cb!r}): {"raised" if either is None else "did not raise"} with {na} and {nb} control qudits',
                           dict(signature='cv:or:arity', a=[ka, da], b=[kb, db])))
        elif either is not None:
            got = [list(t) for t in either.expand()]
            multi = ka == kb == 'pos' and na > 1
            checks.append(('cv_or', f'cv_same (sop_or {ea} {eb}) {ll(got)}',
                           f'({ca!r}) | ({cb!r}) = {either!r} selects {got}, not the union of the two selections',
                           dict(signature='cv:or:pos-pos-multi-qudit' if multi else f'cv:or:{ka}-{kb}', a=[ka, da], b=[kb, db])))
            if multi:   # what the short-cut does compute is pinned too, so a different wrong answer is a different finding
                checks.append(('cv_or', f'cv_same (pos_expand (pos_or {ll(da)} {ll(db)})) {ll(got)}',
                               f'({ca!r}) | ({cb!r}) = {either!r} is not even the per-qudit union', dict(signature='cv:or:pos-pos-per-qudit', a=[ka, da], b=[kb, db])))
        # validate against the drawn shape and against a shape one level too small somewhere
        for shape in (dimsa, [max(1, d - 1) if i == len(dimsa) - 1 else d for i, d in enumerate(dimsa)], dimsa[:-1], dimsa + [2]):
            try:
                ca.validate(shape)
                ok = True
            except ValueError:
                ok = False
            ctx.count('cv_validate', [ka, da, shape], not ok)
            model = f'pos_valid {ll(da)} {gates.nlist(shape)}' if ka == 'pos' else f'sop_valid {ll(da)} {gates.nlist(shape)}'
            checks.append(('cv_validate', f'Bool.eqb ({model}) {"true" if ok else "false"}',
                           f'{ca!r}.validate({shape}) {"accepted" if ok else "refused"}; the model of validate says otherwise',
                           dict(signature=f'cv:validate:{ka}', cv=[ka, da], shape=shape)))
        # equality and hash agree with the selections; is_trivial
        eq = ca == cb
        ctx.count('cv_eq', key, bool(eq))
        checks.append(('cv_eq', f'Bool.eqb (cv_same {ea} {eb}) {"true" if eq else "false"}', f'({ca!r}) == ({cb!r}) answered {eq}; the selected tuples say otherwise',
                       dict(signature='cv:eq', a=[ka, da], b=[kb, db])))
        if eq and hash(ca) != hash(cb):
            checks.append(('cv_eq', 'false', f'{ca!r} == {cb!r} but the hashes differ', dict(signature='cv:hash', a=[ka, da], b=[kb, db])))
        if ka == 'pos':
            checks.append(('cv_trivial', f'Bool.eqb (pos_trivial {ll(da)}) {"true" if ca.is_trivial else "false"}', f'is_trivial of {ca!r}',
                           dict(signature='cv:is_trivial', cv=[ka, da])))

def run(ctx):
    mods = env.import_cirq(('cirq_google', 'cirq_ionq'))
    cirq = mods['cirq']
    ctx.rule = ('constructed objects (g**a for special/generic a, inverse, controlled()/controlled_by with every control-value form, '
                'phase_by) compared with the model matrix; predicate streams on generated pairs (shared wires, equal/shifted/perturbed '
                'parameters): a True answer must be sound for the model matrices; non-trivial = the object is not the identity / the '
                'predicate answered True; distinct by canonical case')
    ctx.assumptions += ['soundness only for predicates', 'float tolerances 7.5e-9 (entries) / 1e-6 (products, up to phase)']
    err = tables.regenerate(['EigenTables'])
    if err['EigenTables']:
        ctx.mark_broken('table:EigenTables', err['EigenTables'])
    ctx.set_obligations(coq.compile_props('C08'))
    n = 1 if ctx.tier == 'quick' else 8
    checks = []   # (stream, coq bool expr, description, replay dict)
    pow_stream(ctx, cirq, mods, checks, 110 * n)
    pow_grid(ctx, cirq, mods, checks)
    ctrl_stream(ctx, cirq, mods, checks, 90 * n)
    phase_stream(ctx, cirq, mods, checks, 90 * n)
    predicate_stream(ctx, cirq, mods, checks, n)
    cv_stream(ctx, cirq, mods, checks, n)
    tdb_grid(ctx, cirq, mods, checks)
    phase_pair_grid(ctx, cirq, mods, checks)
    evaluate(ctx, checks)


def evaluate(ctx, checks):
    SH = 60
    shards = []
    for s0 in range(0, len(checks), SH):
        part = checks[s0:s0 + SH]
        text = PRE + 'Definition checks : list bool := [\n' + ';\n'.join(c[1] for c in part) + '].\nEval vm_compute in failing (fun b => b) checks.\n'
        shards.append((f'c08_{ctx.seed}_{s0 // SH}', text))
    outs = coq.coq_eval_many(shards, workers=12)
    for si, out in enumerate(outs):
        for idx in coq.parse_nat_list(coq.parse_evals(out)[0]):
            stream, _, desc, rep = checks[si * SH + idx]
            ctx.disagree(f'correspondence:{stream}', desc, rep.pop('signature'), desc, dict(kind=stream, **rep))


def unitary_of(cirq, x):
    return np.asarray(cirq.unitary(x), dtype=complex)


def pow_stream(ctx, cirq, mods, checks, n):
    rng = ctx.rng
    eigf = list(gates.EIG) + ['X4Pow', 'Z4Pow', 'PI']
    other = ['FSim', 'PhasedFSim', 'PhasedX', 'PhasedXZ', 'PhasedISwap', 'Matrix', 'Diagonal', 'Ctrl', 'CSwap', 'QFT', 'PhaseGrad', 'Perm',
             'Rx', 'Ry', 'Rz', 'Identity', 'GlobalPhase', 'Givens', 'MS']
    for k in range(n):
        if rng.random() < 0.6:
            fam = rng.choice(eigf)
            g = gates.draw(rng, fam)
            a = gates.draw_exp(rng)
            cg = g.cirq_gate(cirq, mods)
            how = rng.choice(['pow', 'pow', 'inverse', 'powpow'])
            if how == 'inverse':
                a = -1.0
                obj = cirq.inverse(cg)
            elif how == 'powpow':
                b = rng.choice([2.0, 0.5, -1.0, 3.0])
                obj = (cg ** a) ** b
                a = a * b
            else:
                obj = cg ** a
            p2 = dict(g.p)
            p2['e'] = g.p['e'] * a
            g2 = gates.G(fam, p2, g.shape)
            u = unitary_of(cirq, obj)
            ctx.count('pow', [g.key(), a, how], not np.allclose(u, np.eye(len(u))), sample=dict(gate=g.key(), power=a, how=how))
            checks.append(('pow', f'fcll_close {TOLP} (gate_model FOps {g2.coq()}) {gates.fmat(u)}',
                           f'({fam} {g.p}) {how} {a}: matrix differs from the family at exponent e*a', dict(signature=f'pow:{fam}:{how}', gate=g.key(), power=a, how=how)))
        else:
            fam = rng.choice(other)
            g = gates.draw(rng, fam)
            a = rng.choice([-1, 2, 3, -2, 0])
            cg = g.cirq_gate(cirq, mods)
            obj = cirq.pow(cg, a, None)
            if obj is None or not cirq.has_unitary(obj):
                continue
            u = unitary_of(cirq, obj)
            ctx.count('pow', [g.key(), a, 'int'], not np.allclose(u, np.eye(len(u))), sample=dict(gate=g.key(), power=a, how='integer power'))
            checks.append(('pow', f'fcll_close {TOLP} (mpow_int (gate_model FOps {g.coq()}) {"true" if a < 0 else "false"} {abs(a)}%nat) {gates.fmat(u)}',
                           f'({fam} {g.key()[1]}) ** {a}: matrix is not the matrix power', dict(signature=f'pow:{fam}:int', gate=g.key(), power=a)))


def pow_grid(ctx, cirq, mods, checks):
    """Every non-eigen family x every integer exponent x every spelling (gate ** a, cirq.inverse(gate), (op ** a).gate,
    cirq.inverse(op)): run for every seed, so a fast path at one (family, exponent) cannot hide behind the random stream."""
    rng = ctx.rng
    other = ['FSim', 'PhasedFSim', 'PhasedX', 'PhasedXZ', 'PhasedISwap', 'Matrix', 'Diagonal', 'Ctrl', 'CSwap', 'QFT', 'PhaseGrad', 'Perm',
             'Rx', 'Ry', 'Rz', 'Identity', 'GlobalPhase', 'Givens', 'MS']
    for fam in other:
        for a in (-1, 2, 3, -2, 0):
            g = gates.draw(rng, fam)
            if fam == 'Matrix':
                # a generic (non-symmetric, non-normal-looking) unitary: transposes and conjugates are all different matrices
                while np.allclose(g.p['m'], g.p['m'].T, atol=1e-3):
                    g = gates.draw(rng, fam)
            cg = g.cirq_gate(cirq, mods)
            forms = [('gate**a', lambda: cirq.pow(cg, a, None))]
            if a == -1:
                forms.append(('inverse(gate)', lambda: cirq.inverse(cg, None)))
            if g.shape:
                qs = cirq.LineQid.for_qid_shape(g.shape)
                forms.append(('op**a', lambda: cirq.pow(cg.on(*qs), a, None)))
                if a == -1:
                    forms.append(('inverse(op)', lambda: cirq.inverse(cg.on(*qs), None)))
            for how, mk in forms:
                obj = mk()
                if obj is None or not cirq.has_unitary(obj):
                    continue
                u = unitary_of(cirq, obj)
                ctx.count('pow_grid', [fam, a, how], not np.allclose(u, np.eye(len(u))), sample=dict(gate=g.key(), power=a, how=how))
                checks.append(('pow_grid', f'fcll_close {TOLP} (mpow_int (gate_model FOps {g.coq()}) {"true" if a < 0 else "false"} {abs(a)}%nat) {gates.fmat(u)}',
                               f'{how} with a = {a} of ({fam} {g.key()[1]}): matrix is not the matrix power',
                               dict(signature=f'pow:{fam}:int', gate=g.key(), power=a, how=how)))


def ctrl_stream(ctx, cirq, mods, checks, n):
    rng = ctx.rng
    for k in range(n):
        g = gates.draw(rng, 'Ctrl')
        p = g.p
        sub = p['sub'].cirq_gate(cirq, mods)
        kind, vals = p['cv']
        if kind == 'pos':
            cv = [v[0] if (len(v) == 1 and not p.get('as_sets')) else tuple(v) for v in vals]
            if p.get('bools'):
                cv = [bool(v) if isinstance(v, int) else v for v in cv]
        else:
            cv = cirq.SumOfProducts([tuple(t) for t in vals])
        how = rng.choice(['controlled', 'controlled_by', 'nested'])
        try:
            if how == 'controlled':
                obj = sub.controlled(num_controls=len(p['cdims']), control_values=cv, control_qid_shape=tuple(p['cdims']))
                u = unitary_of(cirq, obj)
            elif how == 'controlled_by':
                tq = cirq.LineQid.for_qid_shape(p['sub'].shape, start=10)
                cq = cirq.LineQid.for_qid_shape(p['cdims'], start=0)
                op = sub.on(*tq).controlled_by(*cq, control_values=cv)
                u = np.asarray(cirq.Circuit(op).unitary(qubit_order=list(cq) + list(tq)), dtype=complex)
            else:
                if kind != 'pos' or len(p['cdims']) < 2:
                    continue
                inner = cirq.ControlledGate(sub, num_controls=len(cv) - 1, control_values=cv[1:], control_qid_shape=tuple(p['cdims'][1:]))
                obj = cirq.ControlledGate(inner, num_controls=1, control_values=cv[:1], control_qid_shape=tuple(p['cdims'][:1]))
                u = unitary_of(cirq, obj)
        except Exception as e:
            ctx.violation(f'ctrl:{how}:raises', f'{how} of {g.key()} raised {type(e).__name__}: {e}', dict(kind='ctrl', gate=g.key(), how=how))
            continue
        ctx.count('controlled', [g.key(), how], True, sample=dict(gate=g.key(), how=how))
        checks.append(('controlled', f'fcll_close {TOLP} (gate_model FOps {g.coq()}) {gates.fmat(u)}',
                       f'{how}({p["sub"].fam}, cdims={p["cdims"]}, cv={p["cv"]}, bools={p.get("bools")}): not the block matrix of the construction',
                       dict(signature=f'controlled:{how}:{p["sub"].fam}', gate=g.key(), how=how)))


def phase_stream(ctx, cirq, mods, checks, n):
    rng = ctx.rng
    fams = ['XPow', 'YPow', 'ZPow', 'PhasedX', 'PhasedXZ', 'CZPow', 'ZZPow', 'ISwapPow', 'SwapPow', 'FSim', 'PhasedFSim', 'PhasedISwap',
            'CXPow', 'Rx', 'Ry', 'Rz', 'XXPow', 'YYPow', 'Ctrl', 'CCZPow', 'HPow', 'Matrix', 'Diagonal']
    for k in range(n):
        g = gates.draw(rng, rng.choice(fams))
        if not g.shape or any(d != 2 for d in g.shape):
            continue
        cg = g.cirq_gate(cirq, mods)
        phi = rng.choice([0.25, 0.5, -0.25, 0.125, 1.0, round(rng.uniform(-1, 1), 3)])
        qi = rng.randrange(len(g.shape))
        obj = cirq.phase_by(cg, phi, qi, default=None)
        if obj is None or not cirq.has_unitary(obj):
            ctx.count('phase_by', [g.key(), phi, qi, 'unsupported'], False)
            continue
        u = unitary_of(cirq, obj)
        nq = len(g.shape)
        z = lambda sign: gates.G('ZPow', dict(e=sign * 2 * phi, s=0.0), (2,)).coq()
        ops = f'[({z(-1)}, [{qi}]%nat); ({g.coq()}, {gates.nlist(range(nq))}); ({z(1)}, [{qi}]%nat)]'
        ctx.count('phase_by', [g.key(), phi, qi], True, sample=dict(gate=g.key(), phase_turns=phi, qubit_index=qi))
        checks.append(('phase_by', f'fcll_close_phase {TOLP} {gates.fmat(u)} (circ_unitary FOps {gates.nlist(g.shape)} {ops})',
                       f'phase_by({g.fam} {g.key()[1]}, {phi}, {qi}) is not Z^(2phi) G Z^(-2phi) up to global phase',
                       dict(signature=f'phase_by:{g.fam}', gate=g.key(), phase_turns=phi, qubit_index=qi)))


def near(rng, g):
    """A gate that is likely equal / approximately equal / equal up to phase to g."""
    p = dict(g.p)
    r = rng.random()
    if 'e' in p:
        if r < 0.3:
            p['e'] = p['e'] + rng.choice([2.0, -2.0, 4.0, 1.0, -1.0, 0.5])
        elif r < 0.5:
            p['e'] = p['e'] + rng.choice([1e-9, -1e-9, 1e-7, 1e-5])
        elif r < 0.65 and 's' in p:
            p['s'] = rng.choice(gates.SPECIAL_SHIFT)
    elif r < 0.5:
        for k in list(p):
            if isinstance(p[k], float):
                p[k] = p[k] + rng.choice([0.0, 2 * math.pi, 1e-9, 1e-6, -2 * math.pi])
    return gates.G(g.fam, p, g.shape)


def is_clifford(u):
    n = int(round(math.log2(len(u))))
    P = [np.eye(2), np.array([[0, 1], [1, 0]]), np.array([[0, -1j], [1j, 0]]), np.diag([1, -1])]
    paulis = []
    for idx in itertools.product(range(4), repeat=n):
        m = np.eye(1)
        for i in idx:
            m = np.kron(m, P[i])
        paulis.append(m)
    gens = []
    for q in range(n):
        for a in (1, 3):
            idx = [0] * n
            idx[q] = a
            m = np.eye(1)
            for i in idx:
                m = np.kron(m, P[i])
            gens.append(m)
    for gmat in gens:
        c = u @ gmat @ u.conj().T
        if not any(np.allclose(c, s * p, atol=1e-6) for p in paulis for s in (1, -1)):
            return False
    return True


def true_trace_distance_bound(u):
    ang = np.sort(np.angle(np.linalg.eigvals(u)))
    if len(ang) == 1:
        return 0.0
    gaps = np.diff(np.concatenate([ang, [ang[0] + 2 * math.pi]]))
    span = 2 * math.pi - gaps.max()
    return 1.0 if span >= math.pi else math.sin(span / 2)


def commute_check(ctx, cirq, mods, checks, ga, wa, gb, wb, nw):
    qs = cirq.LineQubit.range(nw)
    opa, opb = ga.cirq_gate(cirq, mods).on(*[qs[w] for w in wa]), gb.cirq_gate(cirq, mods).on(*[qs[w] for w in wb])
    ans = cirq.commutes(opa, opb, atol=1e-8, default=None)
    yes = (ans is True) or cirq.definitely_commutes(opa, opb, atol=1e-8)
    overlap = bool(set(wa) & set(wb))
    ctx.count('commutes', [ga.key(), wa, gb.key(), wb], yes and overlap, sample=dict(a=[ga.key(), wa], b=[gb.key(), wb], commutes=ans))
    if yes and overlap:
        sh = gates.nlist([2] * nw)
        ab = f'[({ga.coq()}, {gates.nlist(wa)}); ({gb.coq()}, {gates.nlist(wb)})]'
        ba = f'[({gb.coq()}, {gates.nlist(wb)}); ({ga.coq()}, {gates.nlist(wa)})]'
        return ('commutes', f'fcll_close {TOLP} (circ_unitary FOps {sh} {ab}) (circ_unitary FOps {sh} {ba})',
                f'cirq.commutes said True but the matrices do not commute: {ga.fam}{ga.key()[1]} on {wa} vs {gb.fam}{gb.key()[1]} on {wb}',
                dict(signature=f'commutes:{ga.fam}:{gb.fam}', a=[ga.key(), wa], b=[gb.key(), wb]))
    return None


def predicate_stream(ctx, cirq, mods, checks, n):
    rng = ctx.rng
    fams = [f for f in gates.CORE_FAMILIES if f not in ('QFT',)]
    E = lambda fam, e, s=0.0: gates.G(fam, dict(e=e, s=s), gates.EIG_SHAPE.get(fam, (2, 2)))
    # ---- commutes: a grid over family pairs x exponents x wire layouts (only True answers reach Coq) ----
    one = ['XPow', 'YPow', 'ZPow', 'HPow']
    two = ['CZPow', 'CXPow', 'ZZPow', 'XXPow', 'YYPow', 'SwapPow', 'ISwapPow', 'CYPow']
    exps = [1.0, 0.5, 0.25, 0.3, 2.0]
    cands = []
    for fa in one:
        for fb in one:
            for ea in exps:
                for eb in exps:
                    cands.append((E(fa, ea), [0], E(fb, eb), [0], 1))
    for fa in one:
        for fb in two:
            for ea in exps[:4]:
                for eb in exps[:4]:
                    for wa in ([0], [1]):
                        cands.append((E(fa, ea), wa, E(fb, eb), [0, 1], 2))
                        cands.append((E(fb, eb), [0, 1], E(fa, ea), wa, 2))
    for fa in two:
        for fb in two:
            for ea in (1.0, 0.5, 0.3):
                for eb in (1.0, 0.3):
                    for wb in ([0, 1], [1, 0], [1, 2], [2, 0]):
                        cands.append((E(fa, ea), [0, 1], E(fb, eb), wb, 3))
    three = [E('CCZPow', 1.0), E('CCZPow', 0.5), E('CCXPow', 1.0), E('CCXPow', 0.3), E('CCYPow', 1.0), gates.G('CSwap', {}, (2, 2, 2))]
    for g3 in three:
        for fa in one:
            for ea in (1.0, 0.5, 0.3):
                for wa in ([0], [1], [2]):
                    cands.append((E(fa, ea), wa, g3, [0, 1, 2], 3))
                    cands.append((g3, [0, 1, 2], E(fa, ea), wa, 3))
        for fb in two:
            for eb in (1.0, 0.3):
                for wb in ([0, 1], [1, 0], [1, 2], [2, 1], [0, 2], [2, 0]):
                    cands.append((E(fb, eb), wb, g3, [0, 1, 2], 3))
                    cands.append((g3, [0, 1, 2], E(fb, eb), wb, 3))
        for h3 in three:
            for wb in ([0, 1, 2], [1, 0, 2], [2, 1, 0], [0, 2, 1]):
                cands.append((g3, [0, 1, 2], h3, wb, 3))
    for _ in range(60 * n):
        ga, gb = (gates.draw(rng, rng.choice(gates.FAST + ['ZZPow', 'CCZPow', 'Rz', 'Rx', 'PhasedX', 'ISwapPow', 'XXPow', 'Diagonal', 'Ctrl', 'GlobalPhase', 'Identity', 'FSim', 'PhasedISwap'])) for _ in range(2))
        nw = 3
        if any(d != 2 for d in ga.shape + gb.shape) or len(ga.shape) > nw or len(gb.shape) > nw:
            continue
        cands.append((ga, rng.sample(range(nw), len(ga.shape)), gb, rng.sample(range(nw), len(gb.shape)), nw))
    found = []
    for c in cands:
        r = commute_check(ctx, cirq, mods, checks, *c)
        if r is not None:
            found.append(r)
    rng.shuffle(found)
    # keep one per (family pair) first so every claimed rule is examined, then fill up
    seen, keep, rest = set(), [], []
    for r in found:
        k = (r[3]['signature'], str(r[3]['a'][1]), str(r[3]['b'][1]))      # per family pair AND wire layout
        (keep if k not in seen else rest).append(r)
        seen.add(k)
    checks.extend(keep + rest[:max(0, 500 * n - len(keep))])
    # ---- commutes between single-qubit Clifford gate objects (tableau rule), every ordered pair, as gates and as operations,
    #      and against the Pauli/H/S gate objects: the matrices (tied to the model by C03's Clifford rows) decide ----
    allc = list(cirq.SingleQubitCliffordGate.all_single_qubit_cliffords)
    q0 = cirq.LineQubit(0)
    others = [('X', cirq.X), ('Y', cirq.Y), ('Z', cirq.Z), ('H', cirq.H), ('S', cirq.S), ('X**0.5', cirq.X**0.5)]
    pairs = [((f'clifford[{i}]', a), (f'clifford[{j}]', b)) for i, a in enumerate(allc) for j, b in enumerate(allc)]
    pairs += [((f'clifford[{i}]', a), o) for i, a in enumerate(allc) for o in others]
    pairs += [(o, (f'clifford[{i}]', a)) for i, a in enumerate(allc) for o in others]
    for (na, a), (nb, b) in pairs:
        for form in ('gate', 'op'):
            xa, xb = (a, b) if form == 'gate' else (a.on(q0), b.on(q0))
            ans = cirq.commutes(xa, xb, atol=1e-8, default=None)
            ctx.count('commutes_clifford', [na, nb, form], ans is True, sample=dict(a=na, b=nb, form=form, commutes=ans))
            if ans is True:
                ma, mb = (gates.G('Matrix', dict(m=unitary_of(cirq, x)), (2,)) for x in (a, b))
                anti = bool(np.allclose(ma.p['m'] @ mb.p['m'], -(mb.p['m'] @ ma.p['m']), atol=1e-9))    # the one recorded way to be wrong
                ab, ba = f'[({ma.coq()}, [0%nat]); ({mb.coq()}, [0%nat])]', f'[({mb.coq()}, [0%nat]); ({ma.coq()}, [0%nat])]'
                checks.append(('commutes_clifford', f'fcll_close {TOLP} (circ_unitary FOps [2%nat] {ab}) (circ_unitary FOps [2%nat] {ba})',
                               f'cirq.commutes({na}, {nb}) as {form}s said True but the matrices do not commute',
                               dict(signature=(f'commutes:clifford:{form}:anticommuting-pair' if anti else f'commutes:clifford:{form}:{na}:{nb}')
                                    if na.startswith('clifford') and nb.startswith('clifford') else f'commutes:clifford-mixed:{form}',
                                    a=na, b=nb, form=form)))
    # ---- has_stabilizer_effect: grid over families x special exponents x shifts (numpy oracle on the matrix) ----
    stab_fams = gates.FAST + ['ISwapPow', 'CCZPow', 'CCXPow', 'ZZPow', 'XXPow', 'YYPow', 'CYPow']
    grid = [E(f, e, s) for f in stab_fams for e in gates.SPECIAL_EXP + [0.3, 1.0000001] for s in (0.0, 0.5, -0.5, 0.25)]
    grid += [gates.draw(rng, rng.choice(['PhasedX', 'PhasedXZ', 'GlobalPhase', 'Rx', 'Ry', 'Rz', 'FSim', 'Ctrl', 'Identity', 'PhasedISwap', 'CSwap', 'MS', 'Givens', 'Diagonal', 'Matrix'])) for _ in range(120 * n)]
    # every combination of quarter / eighth-turn values of ALL the parameters of the multi-parameter families (closed-form answers
    # keyed on a conjunction of special values), fixed for every seed
    import itertools as _it
    qexp = [0.0, 0.25, 0.5, 0.75, 1.0, 1.5, -0.5, -0.25, 2.0, 0.125]
    qang = [0.0, math.pi / 4, math.pi / 2, math.pi, 3 * math.pi / 2, -math.pi / 2, math.pi / 8, 2 * math.pi]
    for fam in ('PhasedX', 'PhasedXZ', 'PhasedISwap', 'FSim', 'Givens', 'MS', 'Rx', 'Ry', 'Rz'):
        base = gates.draw(rng, fam)
        names = [k for k, v in base.p.items() if isinstance(v, float) and (k in gates.EXP_LIKE or k in gates.ANGLE_LIKE)]
        for vals in _it.product(*[(qexp if k in gates.EXP_LIKE else qang) for k in names]):
            grid.append(gates.G(fam, dict(base.p, **dict(zip(names, vals))), base.shape))
    for g in grid:
        if any(d != 2 for d in g.shape) or not g.shape:
            continue
        cg = g.cirq_gate(cirq, mods)
        ans = cirq.has_stabilizer_effect(cg)
        ctx.count('has_stabilizer_effect', g.key(), bool(ans), sample=dict(gate=g.key(), answer=ans))
        if ans and not is_clifford(unitary_of(cirq, cg)):
            # the matrix is the model's (C03); numpy decides whether it normalises the Pauli group
            checks.append(('has_stabilizer_effect', 'false',
                           f'has_stabilizer_effect answered True for {g.fam} {g.key()[1]} but the matrix does not map Paulis to Paulis',
                           dict(signature=f'stabilizer:{g.fam}', gate=g.key())))
    # ---- equality of controlled operations: same sub-operation, same controls, control values attached in every way ----
    import itertools
    for k in range(n * 60):
        sub = gates.draw(rng, rng.choice(['XPow', 'ZPow', 'HPow', 'YPow', 'CZPow', 'PhasedX', 'Rz']))
        nc = rng.choice([2, 2, 3])
        cdims = [rng.choice([2, 2, 3]) for _ in range(nc)]
        cqs = [cirq.LineQid(i, dimension=d) for i, d in enumerate(cdims)]
        tqs = cirq.LineQubit.range(nc, nc + len(sub.shape))
        sop = rng.random() < 0.3

        def draw_cv():
            if sop:
                allv = list(itertools.product(*[range(d) for d in cdims]))
                return ('sop', [list(t) for t in rng.sample(allv, rng.randint(1, min(3, len(allv))))])
            return ('pos', [sorted(rng.sample(range(d), rng.randint(1, max(1, d - 1)))) for d in cdims])
        cv1 = draw_cv()
        r = rng.random()
        if r < 0.5:        # the same value sets, attached to the controls in another order
            perm = list(range(nc)); rng.shuffle(perm)
            cv2 = (cv1[0], [[t[j] for j in perm] for t in cv1[1]] if sop else [cv1[1][j] for j in perm])
            if not sop and any(any(v >= cdims[i] for v in vs) for i, vs in enumerate(cv2[1])):
                continue
            if sop and any(any(t[i] >= cdims[i] for i in range(nc)) for t in cv2[1]):
                continue
        elif r < 0.75:
            cv2 = draw_cv()
        else:
            cv2 = cv1
        # second spelling may also list the controls (with their values) in another order: that is the same operation
        order2 = list(range(nc))
        if rng.random() < 0.5:
            rng.shuffle(order2)

        def build(cv, order):
            subop = sub.cirq_gate(cirq, mods).on(*tqs)
            if cv[0] == 'sop':
                vals = cirq.SumOfProducts([tuple(t[j] for j in order) for t in cv[1]])
            else:
                vals = [tuple(cv[1][j]) for j in order]
            return subop.controlled_by(*[cqs[j] for j in order], control_values=vals)
        a, b = build(cv1, list(range(nc))), build(cv2, order2)
        eq = (a == b)
        ap = cirq.approx_eq(a, b, atol=1e-7)
        up = cirq.equal_up_to_global_phase(a, b, atol=1e-7)
        hh = eq and (hash(a) != hash(b))
        ga = gates.G('Ctrl', dict(sub=sub, cdims=cdims, cv=cv1), tuple(cdims) + tuple(sub.shape))
        gb = gates.G('Ctrl', dict(sub=sub, cdims=cdims, cv=cv2), tuple(cdims) + tuple(sub.shape))
        ctx.count('equality_controlled_op', [sub.key(), cdims, cv1, cv2, order2], bool(eq or ap or up),
                  sample=dict(sub=sub.key(), control_dims=cdims, values_a=cv1, values_b=cv2, order_b=order2, eq=eq, approx_eq=ap, up_to_phase=up))
        if hh:
            checks.append(('equality_controlled_op', 'false', f'two equal controlled operations hash differently: {a!r} / {b!r}',
                           dict(signature='equality:controlled_op:hash', sub=sub.key(), cdims=cdims, cv1=cv1, cv2=cv2, order2=order2)))
        if eq or ap or up:
            close = 'fcll_close' if (eq or ap) else 'fcll_close_phase'
            checks.append(('equality_controlled_op', f'{close} 0x1p-18 (gate_model FOps {ga.coq()}) (gate_model FOps {gb.coq()})',
                           f'{"==" if eq else "approx_eq" if ap else "equal_up_to_global_phase"} answered True for controlled operations with control values {cv1} and {cv2} '
                           f'(controls {cdims}, sub {sub.fam} {sub.p}) but the block matrices differ',
                           dict(signature='equality:controlled_op', sub=sub.key(), cdims=cdims, cv1=cv1, cv2=cv2, order2=order2)))
    # ---- equality of one gate on permuted qubits (interchangeable-qubit declarations): a True answer means the matrix is
    #      invariant under that permutation of its qubits.  Fixed grid for every seed + random draws ----
    pass
    perm_cands = []
    for fam in ('CZPow', 'CXPow', 'CYPow', 'SwapPow', 'ISwapPow', 'XXPow', 'YYPow', 'ZZPow', 'CCZPow', 'CCXPow', 'CCYPow'):
        for e in (1.0, 0.5, 0.3):
            perm_cands.append(E(fam, e))
    perm_cands.append(gates.G('CSwap', {}, (2, 2, 2)))
    for th in (0.0, math.pi / 2, -math.pi / 2, math.pi, 0.3):
        for ph in (0.0, 0.7):
            perm_cands.append(gates.G('FSim', dict(theta=th, phi=ph), (2, 2)))
        for chi in (0.0, 0.4, math.pi, -math.pi / 2):
            for zeta in (0.0, 0.3, math.pi):
                perm_cands.append(gates.G('PhasedFSim', dict(theta=th, zeta=zeta, chi=chi, gamma=0.2, phi=0.5), (2, 2)))
    for _ in range(40 * n):
        perm_cands.append(gates.draw(rng, rng.choice(['PhasedFSim', 'PhasedISwap', 'Givens', 'MS', 'FSim', 'ISwapPow', 'CCZPow', 'CSwap', 'Diagonal'])))
    for g in perm_cands:
        k = len(g.shape)
        if k < 2 or k > 3 or any(d != 2 for d in g.shape):
            continue
        cg = g.cirq_gate(cirq, mods)
        qs = cirq.LineQubit.range(k)
        for perm in itertools.permutations(range(k)):
            if list(perm) == list(range(k)):
                continue
            a, b = cg.on(*qs), cg.on(*[qs[i] for i in perm])
            eq = (a == b)
            ap = cirq.approx_eq(a, b, atol=1e-7)
            up = cirq.equal_up_to_global_phase(a, b, atol=1e-7)
            ctx.count('equality_permuted_qubits', [g.key(), list(perm)], bool(eq or ap or up), sample=dict(gate=g.key(), perm=list(perm), eq=eq, approx_eq=ap, up_to_phase=up))
            if eq and hash(a) != hash(b):
                checks.append(('equality_permuted_qubits', 'false', f'{g.fam} {g.key()[1]} on {list(perm)}: equal operations hash differently',
                               dict(signature=f'equality:permuted:{g.fam}:hash', gate=g.key(), perm=list(perm))))
            if eq or ap or up:
                close = 'fcll_close' if (eq or ap) else 'fcll_close_phase'
                sh = gates.nlist([2] * k)
                checks.append(('equality_permuted_qubits',
                               f'{close} 0x1p-18 (circ_unitary FOps {sh} [({g.coq()}, {gates.nlist(range(k))})]) (circ_unitary FOps {sh} [({g.coq()}, {gates.nlist(perm)})])',
                               f'{"==" if eq else "approx_eq" if ap else "equal_up_to_global_phase"} answered True for {g.fam} {g.key()[1]} on qubits (0..{k - 1}) and on the permutation {list(perm)} but the matrices differ',
                               dict(signature=f'equality:permuted:{g.fam}', gate=g.key(), perm=list(perm))))
    # ---- equality family and trace-distance bound ----
    for k in range(n * 160):
        mode = rng.choice(['equal', 'equal', 'tdb', 'tdb'])
        if mode == 'equal':
            g = gates.draw(rng, rng.choice([f for f in fams if f not in ('Matrix', 'Ctrl', 'Perm', 'Identity', 'CSwap')]))
            g2 = near(rng, g)
            a, b = g.cirq_gate(cirq, mods), g2.cirq_gate(cirq, mods)
            eq = (a == b)
            ap = cirq.approx_eq(a, b, atol=1e-7)
            up = cirq.equal_up_to_global_phase(a, b, atol=1e-7)
            ctx.count('equality', [g.key(), g2.key()], bool(eq or ap or up), sample=dict(a=g.key(), b=g2.key(), eq=eq, approx_eq=ap, up_to_phase=up))
            if eq or ap:
                checks.append(('equality', f'fcll_close 0x1p-18 (gate_model FOps {g.coq()}) (gate_model FOps {g2.coq()})',
                               f'{"==" if eq else "approx_eq"} answered True for {g.fam} {g.p} vs {g2.p} but the matrices differ by more than 4e-6',
                               dict(signature=f'equality:{g.fam}', a=g.key(), b=g2.key(), eq=eq, approx=ap)))
            if up:
                checks.append(('equality', f'fcll_close_phase 0x1p-18 (gate_model FOps {g.coq()}) (gate_model FOps {g2.coq()})',
                               f'equal_up_to_global_phase answered True for {g.fam} {g.p} vs {g2.p} but the matrices are not proportional',
                               dict(signature=f'equal_up_to_phase:{g.fam}', a=g.key(), b=g2.key())))
        else:
            g = gates.draw(rng, rng.choice(fams))
            cg = g.cirq_gate(cirq, mods)
            if not g.shape:
                continue
            # the bound is asked of gates, of operations, and of operations controlled through controlled_by
            # (ControlledOperation has its own implementation, distinct from ControlledGate's)
            form = rng.choice(['gate', 'op', 'controlled_by', 'controlled_by'])
            if form != 'gate':
                qs = cirq.LineQid.for_qid_shape(g.shape, start=2)
                cg = cg.on(*qs)
                if form == 'controlled_by':
                    nc = rng.choice([1, 1, 2])
                    cq = cirq.LineQubit.range(nc)
                    cg = cg.controlled_by(*cq, control_values=[rng.choice([0, 1]) for _ in range(nc)])
            b = cirq.trace_distance_bound(cg)
            t = true_trace_distance_bound(unitary_of(cirq, cg))
            ctx.count('trace_distance_bound', [g.key(), form], t > 1e-6, sample=dict(gate=g.key(), form=form, bound=b, actual=t))
            if not (b >= t - 1e-7):
                checks.append(('trace_distance_bound', 'false',
                               f'trace_distance_bound({g.fam} {g.key()[1]}) = {b} is below the actual value {t}',
                               dict(signature=f'tdb:{form}:{g.fam}', gate=g.key(), form=form, bound=b, actual=t)))


def tdb_grid(ctx, cirq, mods, checks):
    """trace_distance_bound of every class that implements it itself, over a fixed grid of exponents x global shifts (and copy counts /
    control patterns for the composite ones), as gate, operation, tagged operation and controlled_by operation: never below the actual
    maximal trace distance of the object's matrix (the matrices are the ones C03 ties to the model; numpy computes the eigenphase arc)."""
    exps = [0.05, 0.25, 0.45, 0.5, 0.75, 1.0, 1.25, 1.5, 1.95, 2.0, -0.3]
    shifts = [0.0, 0.5, -0.5, 0.3]
    q = cirq.LineQubit.range(6)
    objs = []
    eig = [cirq.XPowGate, cirq.YPowGate, cirq.ZPowGate, cirq.HPowGate, cirq.CZPowGate, cirq.CXPowGate, cirq.SwapPowGate, cirq.ISwapPowGate,
           cirq.XXPowGate, cirq.YYPowGate, cirq.ZZPowGate, cirq.CCZPowGate, cirq.CCXPowGate]
    for cls in eig:
        for e in exps:
            for sh in shifts:
                objs.append((f'{cls.__name__}(exponent={e}, global_shift={sh})', cls(exponent=e, global_shift=sh)))
    for e in exps:
        objs += [(f'PhasedXPowGate(exponent={e}, phase_exponent=0.3, global_shift={sh})', cirq.PhasedXPowGate(exponent=e, phase_exponent=0.3, global_shift=sh)) for sh in shifts]
        objs += [(f'ms({e}*pi/2)', cirq.ms(e * math.pi / 2)), (f'rx({e}*pi)', cirq.rx(e * math.pi)), (f'rz({e}*pi)', cirq.rz(e * math.pi)),
                 (f'PhasedISwapPowGate(phase_exponent=0.2, exponent={e})', cirq.PhasedISwapPowGate(phase_exponent=0.2, exponent=e)),
                 (f'FSimGate({e}, {e / 2})', cirq.FSimGate(e, e / 2)), (f'CSWAP**{e}' if False else f'givens({e})', cirq.givens(e))]
        for en in (0.0, 0.3, -0.4):
            objs.append((f'PauliStringPhasor(X0*Z1, exponent_neg={e}, exponent_pos={en})',
                         cirq.PauliStringPhasor(cirq.X(q[0]) * cirq.Z(q[1]), exponent_neg=e, exponent_pos=en)))
    objs += [('CSWAP', cirq.CSWAP), ('IdentityGate(2)', cirq.IdentityGate(2)), ('WaitGate', cirq.WaitGate(cirq.Duration(nanos=5))),
             ('GlobalPhaseGate(1j)', cirq.GlobalPhaseGate(1j))]
    subs = [(f'X**{e}', cirq.X**e) for e in (0.1, 0.25, 0.45, 0.5, 0.75, 1.0, 1.3)] + [(f'Z**{e}', cirq.Z**e) for e in (0.25, 0.45, 0.5)] + \
           [('rz(0.7)', cirq.rz(0.7)), ('H**0.5', cirq.H**0.5), ('XPowGate(exponent=0.25, global_shift=0.5)', cirq.XPowGate(exponent=0.25, global_shift=0.5))]
    for sn, sg in subs:
        for ncopy in (1, 2, 3, 4, 5):
            objs.append((f'ParallelGate({sn}, {ncopy})', cirq.ParallelGate(sg, ncopy)))
        objs.append((f'parallel_gate_op({sn}, 3 qubits)', cirq.parallel_gate_op(sg, *q[:3])))
        for cv in ([1], [0], [1, 1], [0, 1]):
            objs.append((f'ControlledGate({sn}, control_values={cv})', cirq.ControlledGate(sg, num_controls=len(cv), control_values=cv)))
        objs.append((f'ControlledGate({sn}, control_qid_shape=(3,), control_values=[2])', cirq.ControlledGate(sg, control_values=[2], control_qid_shape=(3,))))
        objs.append((f'ControlledGate({sn}, SumOfProducts 00|11)', cirq.ControlledGate(sg, control_values=cirq.SumOfProducts([(0, 0), (1, 1)]))))
    for name, obj in objs:
        forms = [('as given', obj)]
        if isinstance(obj, cirq.Gate):
            qs = cirq.LineQid.for_gate(obj, start=2)
            op = obj.on(*qs)
            forms += [('operation', op), ('tagged operation', op.with_tags('t')), ('controlled_by(q0)', op.controlled_by(q[0])),
                      ('controlled_by(q0, q1; values 0, 1)', op.controlled_by(q[0], q[1], control_values=[0, 1]))]
        for fname, x in forms:
            if int(np.prod(cirq.qid_shape(x) or (1,))) > 64:
                continue
            try:
                b = cirq.trace_distance_bound(x)
                t = true_trace_distance_bound(unitary_of(cirq, x))
            except Exception as e:
                ctx.violation('tdb_grid:raises', f'trace_distance_bound / unitary of {name} [{fname}] raised {type(e).__name__}: {e}', dict(kind='tdb_grid', obj=name, form=fname))
                continue
            ctx.count('tdb_grid', [name, fname], t > 1e-6, sample=dict(obj=name, form=fname, bound=b, actual=t))
            if not (b >= t - 1e-7):
                checks.append(('tdb_grid', 'false', f'trace_distance_bound({name} [{fname}]) = {b} is below the actual maximal trace distance {t}',
                               dict(signature=f'tdb_grid:{type(obj).__name__}:{fname}', obj=name, form=fname, bound=float(b), actual=float(t))))


def phase_pair_grid(ctx, cirq, mods, checks):
    """Pairs of gates that differ ONLY by a global phase, put inside every wrapper that turns (or does not turn) that phase into a
    relative one - ControlledGate / controlled_by with one or two controls, a qutrit control, ParallelGate, CircuitOperation, tags -
    and asked ==, approx_eq and equal_up_to_global_phase: a True answer must hold for the matrices of the two wrapped objects
    (fixed for every seed)."""
    q = cirq.LineQubit.range(6)
    th = 0.37 * math.pi
    rnd = gates.random_unitary(ctx.rng, 2)
    pairs = [('rz(t) / Z**(t/pi)', cirq.rz(th), cirq.Z**(th / math.pi)), ('rx(t) / X**(t/pi)', cirq.rx(th), cirq.X**(th / math.pi)),
             ('ry(pi) / Y', cirq.ry(math.pi), cirq.Y), ('XPow(0.3) / XPow(0.3, shift 0.5)', cirq.X**0.3, cirq.XPowGate(exponent=0.3, global_shift=0.5)),
             ('Z / ZPow(1, shift -0.5)', cirq.Z, cirq.ZPowGate(exponent=1.0, global_shift=-0.5)), ('H / HPow(1, shift 0.25)', cirq.H, cirq.HPowGate(exponent=1.0, global_shift=0.25)),
             ('MatrixGate(U) / MatrixGate(iU)', cirq.MatrixGate(rnd), cirq.MatrixGate(1j * rnd)), ('MatrixGate(U) / MatrixGate(-U)', cirq.MatrixGate(rnd), cirq.MatrixGate(-rnd)),
             ('ms(pi/4) / XX**0.5', cirq.ms(math.pi / 4), cirq.XX**0.5), ('CZ**0.5 / CZPow(0.5, shift 1)', cirq.CZ**0.5, cirq.CZPowGate(exponent=0.5, global_shift=1.0)),
             ('PhasedX(0.5, 0.2) / PhasedX(0.5, 0.2, shift 0.3)', cirq.PhasedXPowGate(exponent=0.5, phase_exponent=0.2), cirq.PhasedXPowGate(exponent=0.5, phase_exponent=0.2, global_shift=0.3)),
             ('X / X (control: same gate)', cirq.X, cirq.X), ('S / Z**0.5', cirq.S, cirq.Z**0.5), ('T / ZPow(0.25, shift 2)', cirq.T, cirq.ZPowGate(exponent=0.25, global_shift=2.0))]
    wrappers = [('bare gate', lambda g: g), ('ControlledGate', lambda g: cirq.ControlledGate(g)), ('ControlledGate(control value 0)', lambda g: cirq.ControlledGate(g, control_values=[0])),
                ('ControlledGate(2 controls)', lambda g: cirq.ControlledGate(g, num_controls=2)),
                ('ControlledGate(qutrit control, values 1 or 2)', lambda g: cirq.ControlledGate(g, control_values=[(1, 2)], control_qid_shape=(3,))),
                ('ControlledGate(ControlledGate)', lambda g: cirq.ControlledGate(cirq.ControlledGate(g))),
                ('gate.controlled()', lambda g: g.controlled()), ('operation', lambda g: g.on(*q[1:1 + cirq.num_qubits(g)])),
                ('operation.controlled_by(q0)', lambda g: g.on(*q[1:1 + cirq.num_qubits(g)]).controlled_by(q[0])),
                ('tagged operation.controlled_by(q0)', lambda g: g.on(*q[1:1 + cirq.num_qubits(g)]).with_tags('t').controlled_by(q[0])),
                ('ParallelGate x2', lambda g: cirq.ParallelGate(g, 2) if cirq.num_qubits(g) == 1 else None),
                ('ControlledGate(ParallelGate x2)', lambda g: cirq.ControlledGate(cirq.ParallelGate(g, 2)) if cirq.num_qubits(g) == 1 else None),
                ('CircuitOperation', lambda g: cirq.CircuitOperation(cirq.FrozenCircuit(g.on(*q[1:1 + cirq.num_qubits(g)])))),
                ('CircuitOperation.controlled_by(q0)', lambda g: cirq.CircuitOperation(cirq.FrozenCircuit(g.on(*q[1:1 + cirq.num_qubits(g)]))).controlled_by(q[0]))]
    for pname, a, b in pairs:
        for wname, w in wrappers:
            try:
                wa, wb = w(a), w(b)
            except Exception:
                continue
            if wa is None:
                continue
            for x, y, order in ((wa, wb, 'a,b'), (wb, wa, 'b,a')):
                try:
                    answers = {'==': bool(x == y), 'approx_eq': bool(cirq.approx_eq(x, y, atol=1e-8)), 'equal_up_to_global_phase': bool(cirq.equal_up_to_global_phase(x, y, atol=1e-8))}
                    ux, uy = unitary_of(cirq, x), unitary_of(cirq, y)
                except Exception as e:
                    ctx.violation('phase_pair:raises', f'{wname} of {pname} ({order}): a predicate or cirq.unitary raised {type(e).__name__}: {e}', dict(kind='phase_pair', pair=pname, wrapper=wname))
                    continue
                for pred, ans in answers.items():
                    ctx.count('phase_pair', [pname, wname, order, pred], ans, sample=dict(pair=pname, wrapper=wname, predicate=pred, answer=ans))
                    if not ans or ux.shape != uy.shape:
                        if ans:
                            checks.append(('phase_pair', 'false', f'{pred} answered True for {wname} of {pname} but the two objects have different shapes', dict(signature=f'phase_pair:{pred}:{wname}', pair=pname, wrapper=wname)))
                        continue
                    shp = tuple(cirq.qid_shape(x))
                    ga, gb = gates.G('Matrix', dict(m=ux), shp), gates.G('Matrix', dict(m=uy), shp)
                    close = 'fcll_close_phase' if pred == 'equal_up_to_global_phase' else 'fcll_close'
                    checks.append(('phase_pair', f'{close} 0x1p-18 (gate_model FOps {ga.coq()}) (gate_model FOps {gb.coq()})',
                                   f'{pred} answered True for {wname} of {pname} ({order}) but the matrices of the two wrapped objects ' +
                                   ('are not proportional' if pred == 'equal_up_to_global_phase' else 'differ'),
                                   dict(signature=f'phase_pair:{pred}:{wname}', pair=pname, wrapper=wname, order=order)))


def replay(ctx, data):
    """Re-runs the generating stream with the recorded seed/tier and looks for the recorded signature."""
    import sys
    return runner.replay_by_rerun(sys.modules[__name__], ctx, data)
