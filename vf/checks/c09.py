"""C09 — noisy and mixed-state simulation implements the channel semantics (DESIGN 5/C09)."""
import itertools
import math
import random
import numpy as np
from .. import env, coq, runner, gates, tables, opsem, mcircuits
from ..scripted import enumerate_runs, BranchExplosion

LEVEL = 'proof'
META = dict(
    text='Coq theorems: every library channel (bit/phase flip, (asymmetric) depolarize, amplitude, generalized amplitude and phase damping, reset) is trace preserving for all parameter values (sum K^dagger K = I as ring identities in the amplitude parameters), the Kraus evolution preserves the trace of every 2x2 matrix, measurement branches carry the whole mass, the density-operator reference semantics is the ensemble reference semantics averaged (for every operation list and register shape: the final density operator is the weighted sum of the outer products of the pure branches), and the constant-noise-model moment transformer adds exactly one noise moment per non-virtual moment. On every run: Cirq\'s Kraus/mixture/superoperator/Choi descriptions are compared with the documented Kraus operators evaluated in Coq; the density-matrix simulator\'s final state (all measurement branches enumerated) and the state-vector simulator\'s trajectories (all Kraus branches enumerated through a scripted seed, weighted by the probability Cirq assigned) are compared with the reference ensemble; noise-model simulation is compared with the model of the circuit the noise model produces; multi-qubit channels without qubit-exchange symmetry are applied to every ordered choice of target qubits (ascending, descending and merged axes) in both simulators; cirq.kraus(moment), Moment._superoperator_ and Circuit._superoperator_ applied to a generic pure state are compared with the reference semantics of the operations for every storage order of the moment\'s operations; the Choi matrix computed from Kraus operators is proved (two generic single-qubit Kraus operators) to be the matrix of the definition sum_ij E(|i><j|) (x) |i><j|, the reshuffled superoperator, Hermitian, and to act as the Kraus operators do, and cirq.kraus_to_choi / operation_to_choi / superoperator_to_choi and the superoperator entry points are compared with it on channels with complex entries (phase gates, x-rotations, compositions, dense random Kraus sets, two-qubit gates, products); noise models whose output depends on the whole moment sequence (user models defined by noisy_moments: position, following moment, history, pairs; ThermalNoiseModel and NoiseModelFromNoiseProperties) are simulated through Circuit.with_noise, DensityMatrixSimulator(noise=) and cirq.final_density_matrix(noise=) and compared with the reference semantics of the circuit the model produces for the whole sequence, with the Gallina list model of a position-dependent model, and with the rate equation of the thermal Lindbladians.',
    note='Trusted: Coq kernel; docstring transcription of the Kraus operators (Gates/Channels.v); float instance (tolerance 2e-6); the scripted seed standing for numpy.random; numpy for the Choi/superoperator inversion oracles and the eigenvalue (positivity) check. Thermal models: the Kraus operators come from Cirq (only the populations are checked against an independent rate equation); cirq_google device-derived noise properties are not generated.',
    technique='Rocq/Coq proof of trace preservation for the channel library + exact branch enumeration of both simulators compared with the reference ensemble by vm_compute',
)

TOL = '0x1p-19'
PRE = gates.COQ_HEADER + 'From VF Require Import Sim.Ref Sim.Measure Gates.Channels Gates.Choi Sim.Noise Sim.NoiseSeq.\n' + '''
Fixpoint fclll_close (tol : float) (a b : list (list (list FC))) : bool :=
  match a, b with
  | [], [] => true
  | x :: a', y :: b' => fcll_close tol x y && fclll_close tol a' b'
  | _, _ => false
  end.
Definition R (x : float) : FC := (x, 0).
Definition nmoment_eqb (a b : nmoment) : bool := list_eqb (fun x y => Nat.eqb (fst x) (fst y) && Bool.eqb (snd x) (snd y)) a b.
'''


def run(ctx):
    cirq = env.import_cirq()
    ctx.rule = ('library channels at special and generic parameters (descriptions vs documented Kraus operators); random circuits (1-3 wires) '
                'mixing unitaries, every library channel, resets and measurements: DensityMatrixSimulator and Simulator trajectories with every '
                'branch enumerated; constant noise models; a fixed grid of asymmetric 2-/3-qubit Kraus and mixture channels on every ordered target tuple x qubit order x split option x '
                'entangled/product preparation; a fixed grid of moments in every storage order (Kraus / superoperator descriptions of moments and circuits on a generic state); '
                'a fixed pool of channels with complex Choi/superoperator entries (Choi and superoperator entry points vs the Gallina definitions; non-trivial = complex Choi matrix); '
                'a fixed grid of sequence-dependent noise models (4 noisy_moments-defined user models, noisy_moment-/noisy_operation-defined ones, ThermalNoiseModel, '
                'NoiseModelFromNoiseProperties) x circuits with idling qubits x three simulation entry points; '
                'non-trivial = >=1 channel with >=2 branches of non-zero weight; distinct by circuit text')
    ctx.assumptions += ['float tolerance 2e-6', 'scripted seed stands for numpy.random']
    ctx.set_obligations(coq.compile_props('C09'))
    n = 1 if ctx.tier == 'quick' else 8
    checks = []
    channel_stream(ctx, cirq, checks, n)
    circuit_stream(ctx, cirq, checks, 90 * n)
    channel_pair_grid(ctx, cirq, checks)
    noise_stream(ctx, cirq, checks, 40 * n)
    mux_noise_stream(ctx, cirq, checks, 40 * n)
    kraus_axes_grid(ctx, cirq, checks, n)
    moment_description_grid(ctx, cirq, checks, n)
    description_conversion_grid(ctx, cirq, checks, n)
    sequence_noise_grid(ctx, cirq, checks, n)
    evaluate(ctx, checks)


def R(x):
    return f'(R {gates.fl(x)})'


def kraus_lit(ks):
    return '[' + '; '.join(gates.fmat(k) for k in ks) + ']'


def channel_stream(ctx, cirq, checks, n):
    rng = ctx.rng
    ps = [0.0, 1.0, 0.5, 0.25, 0.1, 0.75] + [round(rng.random(), 4) for _ in range(6 * n)]
    chans = []
    for p in ps:
        chans += [('bit_flip', cirq.bit_flip(p), f'kraus_bit_flip FOps {R(math.sqrt(1 - p))} {R(math.sqrt(p))}', dict(p=p)),
                  ('phase_flip', cirq.phase_flip(p), f'kraus_phase_flip FOps {R(math.sqrt(1 - p))} {R(math.sqrt(p))}', dict(p=p)),
                  ('depolarize', cirq.depolarize(p), f'kraus_depolarize FOps {R(math.sqrt(1 - p))} {R(math.sqrt(p / 3))}', dict(p=p)),
                  ('amplitude_damp', cirq.amplitude_damp(p), f'kraus_amp_damp FOps {R(math.sqrt(1 - p))} {R(math.sqrt(p))}', dict(gamma=p)),
                  ('phase_damp', cirq.phase_damp(p), f'kraus_phase_damp FOps {R(math.sqrt(1 - p))} {R(math.sqrt(p))}', dict(gamma=p))]
        g = rng.choice(ps)
        chans.append(('generalized_amplitude_damp', cirq.generalized_amplitude_damp(p, g),
                      f'kraus_gen_amp_damp FOps {R(math.sqrt(p))} {R(math.sqrt(1 - p))} {R(math.sqrt(1 - g))} {R(math.sqrt(g))}', dict(p=p, gamma=g)))
        px, py, pz = [round(rng.random() / 3.2, 4) for _ in range(3)]
        chans.append(('asymmetric_depolarize', cirq.asymmetric_depolarize(px, py, pz),
                      f'kraus_asym_depol FOps {R(math.sqrt(1 - px - py - pz))} {R(math.sqrt(px))} {R(math.sqrt(py))} {R(math.sqrt(pz))}', dict(px=px, py=py, pz=pz)))
    chans.append(('reset', cirq.ResetChannel(), 'kraus_reset2 FOps', {}))
    for name, ch, spec, params in chans:
        ks = cirq.kraus(ch)
        ctx.count('channel:' + name, [name, params], True, sample=dict(channel=name, params=params))
        checks.append(('channel:' + name, f'fclll_close {TOL} ({spec}) {kraus_lit(ks)}',
                       f'cirq.kraus({name} {params}) differs from the documented Kraus operators', dict(signature=f'kraus:{name}', channel=name, params=params)))
        sup = cirq.kraus_to_superoperator(ks)
        checks.append(('superoperator:' + name, f'fcll_close {TOL} (kraus_superop FOps 4 ({spec})) {gates.fmat(sup)}',
                       f'kraus_to_superoperator({name} {params}) is not sum K (x) conj K', dict(signature=f'superoperator:{name}', channel=name, params=params)))
        # conversions (numpy oracles on the real code): all descriptions act identically on random matrices
        bad = conversion_oracles(cirq, ch, ks, rng)
        if bad:
            ctx.violation(f'conversions:{name}:{bad[0]}', f'{name} {params}: ' + '; '.join(bad), dict(kind='channel', channel=name, params=params))


def apply_kraus(ks, rho):
    return sum(k @ rho @ k.conj().T for k in ks)


def conversion_oracles(cirq, ch, ks, rng):
    bad = []
    d = ks[0].shape[0]
    rho = np.array([[complex(rng.gauss(0, 1), rng.gauss(0, 1)) for _ in range(d)] for _ in range(d)])
    want = apply_kraus(ks, rho)
    sup = cirq.kraus_to_superoperator(ks)
    if not np.allclose((sup @ rho.reshape(-1)).reshape(d, d), want, atol=1e-8):
        bad.append('superoperator does not act as sum K rho K^dagger')
    choi = cirq.kraus_to_choi(ks)
    if not np.allclose(choi, reference_choi(ks), atol=1e-8):
        bad.append('kraus_to_choi is not sum_ij E(|i><j|) (x) |i><j|')
    if not np.allclose(cirq.choi_to_superoperator(choi), sup, atol=1e-8) or not np.allclose(cirq.superoperator_to_choi(sup), choi, atol=1e-8):
        bad.append('choi <-> superoperator conversions are not mutually inverse')
    for nm, back in (('superoperator_to_kraus', cirq.superoperator_to_kraus(sup)), ('choi_to_kraus', cirq.choi_to_kraus(choi))):
        if not np.allclose(apply_kraus(back, rho), want, atol=1e-7):
            bad.append(f'{nm} does not reproduce the channel')
    if cirq.has_mixture(ch):
        mix = cirq.mixture(ch)
        if not np.allclose(sum(p * (u @ rho @ u.conj().T) for p, u in mix), want, atol=1e-8) or abs(sum(p for p, _ in mix) - 1) > 1e-9:
            bad.append('mixture and kraus describe different maps')
    if not np.allclose(cirq.operation_to_superoperator(ch.on(*cirq.LineQid.for_gate(ch))) if hasattr(cirq, 'operation_to_superoperator') else sup, sup, atol=1e-8):
        bad.append('operation_to_superoperator differs')
    if not np.allclose(sum(k.conj().T @ k for k in ks), np.eye(d), atol=1e-8):
        bad.append('not trace preserving')
    return bad


def reference_choi(ks):
    """The Choi matrix from its definition J = sum_ij E(|i><j|) (x) |i><j| (E applied through the Kraus operators)."""
    d = ks[0].shape[1]
    out = 0
    for i in range(d):
        for j in range(d):
            e = np.zeros((d, d), dtype=complex)
            e[i, j] = 1
            out = out + np.kron(apply_kraus(ks, e), e)
    return out


def valid_density(rho, atol=1e-6):
    return abs(np.trace(rho) - 1) < atol and np.allclose(rho, rho.conj().T, atol=atol) and np.linalg.eigvalsh((rho + rho.conj().T) / 2).min() > -atol


def keyed_case(cirq, rng):
    """A channel that records its Kraus index under a key, acting on a qubit that is entangled with others."""
    n = rng.randint(2, 3)
    qs = cirq.LineQubit.range(n)
    c = cirq.Circuit(cirq.H(qs[0]), cirq.CNOT(qs[0], qs[1]))
    if n == 3 and rng.random() < 0.5:
        c.append(cirq.CNOT(qs[1], qs[2]))
    for _ in range(rng.randint(0, 2)):
        g = gates.draw(rng, rng.choice(['XPow', 'YPow', 'HPow', 'PhasedX']))
        c.append(g.cirq_gate(cirq).on(qs[rng.randrange(n)]))
    if rng.random() < 0.5:
        g = rng.choice([0.2, 0.36, 0.5])
        ch = rng.choice([cirq.KrausChannel([np.array([[1, 0], [0, math.sqrt(1 - g)]]), np.diag([0, math.sqrt(g)])], key='k'),
                         cirq.MixedUnitaryChannel([(1 - g, np.eye(2)), (g, np.diag([1, -1]).astype(complex))], key='k'),
                         cirq.KrausChannel([np.array([[1, 0], [0, math.sqrt(1 - g)]]), np.array([[0, math.sqrt(g)], [0, 0]])], key='k')])
        c.append(ch.on(qs[rng.randrange(n)]))
    else:
        a, b = rng.sample(range(n), 2)
        c.append(mcircuits.random_channel2(cirq, rng, keyed=True).on(qs[a], qs[b]))
    for _ in range(rng.randint(0, 2)):
        g = gates.draw(rng, rng.choice(['XPow', 'HPow', 'CXPow', 'CZPow']))
        if len(g.shape) <= n:
            c.append(g.cirq_gate(cirq).on(*[qs[w] for w in rng.sample(range(n), len(g.shape))]))
    return c, qs


def circuit_stream(ctx, cirq, checks, n):
    rng = ctx.rng
    for i in range(n + n // 3):
        if i >= n:
            c, qs = keyed_case(cirq, rng)
        else:
            c, qs = mcircuits.random_mcircuit(cirq, rng, channels=True, qudits=False, mid=rng.random() < 0.6, cc=rng.random() < 0.5, max_ops=7,
                                              max_digits=2, confusion=False)
        try:
            mops, meas, _ = opsem.circuit_to_mops(cirq, c, qs)
        except opsem.Unsupported:
            continue
        dim = 2 ** len(qs)
        shape = gates.nlist([2] * len(qs))
        k0 = rng.randrange(dim)
        model = f'(dexec_rho FOps {shape} {mops} {gates.fvec(np.eye(dim)[k0])})'
        desc = str(c).replace('\n', ' | ')[:400]
        has_channel = any(not cirq.has_unitary(op) and not cirq.is_measurement(op) for op in c.all_operations())
        superoperator_case(ctx, cirq, checks, c, random.Random(ctx.seed * 100003 + i), 'random-circuit', desc)
        for entry in ('DensityMatrixSimulator.simulate', 'Simulator.simulate[trajectories]'):
            split = rng.random() < 0.7
            try:
                if entry.startswith('Density'):
                    br = enumerate_runs(lambda s: np.array(cirq.DensityMatrixSimulator(seed=s, split_untangled_states=split, dtype=np.complex128)
                                                           .simulate(c, qubit_order=qs, initial_state=k0).final_density_matrix))
                    rho = sum(p * st for p, st, _ in br)
                else:
                    br = enumerate_runs(lambda s: np.array(cirq.Simulator(seed=s, split_untangled_states=split, dtype=np.complex128)
                                                           .simulate(c, qubit_order=qs, initial_state=k0).final_state_vector))
                    rho = sum(p * np.outer(st, st.conj()) for p, st, _ in br)
            except BranchExplosion:
                ctx.count(entry + ':skipped-too-many-branches', [desc, entry], False)
                continue
            except Exception as e:
                import traceback
                ctx.violation(f'{entry}:raises:{type(e).__name__}', f'{entry} raised {type(e).__name__}: {e} on {desc}',
                              dict(kind='circuit', entry=entry, circuit=repr(c), error=traceback.format_exc()[-1200:]))
                continue
            total = sum(p for p, _, _ in br)
            ctx.count(entry, [desc, entry, split, k0], has_channel and len(br) >= 2, sample=dict(circuit=desc, entry=entry, branches=len(br), total=total))
            if abs(total - 1) > 1e-6 or not valid_density(rho):
                ctx.violation(f'{entry}:invalid-density', f'{entry}: branch probabilities sum to {total}; result is not a valid density matrix on {desc}',
                              dict(kind='circuit', entry=entry, circuit=repr(c)))
                continue
            if entry.startswith('Density'):
                for p, st, _ in br:
                    if not valid_density(st):
                        ctx.violation(f'{entry}:branch-invalid-density', f'{entry}: a branch state is not a valid density matrix on {desc}',
                                      dict(kind='circuit', entry=entry, circuit=repr(c)))
            checks.append((entry, f'fcl_close {TOL} {model} {gates.fvec(rho.reshape(-1))}',
                           f'{entry}: the final (branch-averaged) density matrix differs from applying each operation\'s channel in order on {desc}',
                           dict(signature=f'{entry}:{chan_features(cirq, c)}', entry=entry, circuit=repr(c))))


def chan_features(cirq, c):
    f = set()
    for op in c.all_operations():
        if not cirq.has_unitary(op) and not cirq.is_measurement(op):
            f.add(type(op.gate).__name__)
        if isinstance(op.untagged, cirq.ClassicallyControlledOperation):
            f.add('cc')
        if cirq.is_measurement(op):
            f.add('measure')
    return ','.join(sorted(f))


def noise_stream(ctx, cirq, checks, n):
    rng = ctx.rng
    for i in range(n):
        c, qs = mcircuits.random_mcircuit(cirq, rng, channels=False, qudits=False, mid=False, cc=False, max_ops=6, max_digits=2, confusion=False, resets=False)
        noise_gate = rng.choice([cirq.depolarize(0.1), cirq.bit_flip(0.2), cirq.amplitude_damp(0.3), cirq.phase_damp(0.25)])
        prepend = rng.random() < 0.3
        nm = cirq.ConstantQubitNoiseModel(noise_gate, prepend=prepend)
        # sprinkle a virtual moment
        if rng.random() < 0.4:
            c.insert(rng.randint(0, len(c)), cirq.Moment(cirq.Z(qs[0]).with_tags(cirq.VirtualTag())))
        # ... and moments that MIX a virtual operation with physical ones (only a wholly virtual moment is skipped by the noise model)
        if i % 2 == 0:
            free = [(mi, q) for mi, m in enumerate(c) for q in qs if not m.operates_on([q]) and len(m) >= 1
                    and not any(cirq.is_measurement(o) for o in m)]
            if free:
                mi, q = rng.choice(free)
                c[mi] = c[mi].with_operation(rng.choice([cirq.Z, cirq.X, cirq.S])(q).with_tags(cirq.VirtualTag()))
            else:
                c.insert(0, cirq.Moment(cirq.H(qs[0]), *([cirq.Z(qs[1]).with_tags(cirq.VirtualTag())] if len(qs) > 1 else [])))
        desc = str(c).replace('\n', ' | ')[:300]
        noisy = c.with_noise(nm)
        # structure vs the Gallina model of noisy_moments
        ids, enc = {}, []
        for m in c:
            row = []
            for op in m:
                ids.setdefault(op, len(ids))
                row.append(f'({ids[op]}%nat, {"true" if cirq.VirtualTag() in op.tags else "false"})')
            enc.append('[' + '; '.join(row) + ']')
        system = sorted(c.all_qubits())
        qid = {q: i for i, q in enumerate(system)}
        out = []
        for m in noisy:
            row = []
            for op in m:
                if op in ids:
                    row.append(f'({ids[op]}%nat, {"true" if cirq.VirtualTag() in op.tags else "false"})')
                else:
                    row.append(f'({1000 + qid[op.qubits[0]]}%nat, true)')
            out.append('[' + '; '.join(row) + ']')
        ctx.count('noise-model:structure', [desc, repr(noise_gate), prepend], True, sample=dict(circuit=desc, noise=repr(noise_gate), prepend=prepend))
        checks.append(('noise-model:structure',
                       f'list_eqb nmoment_eqb (noisy_moments {"true" if prepend else "false"} {gates.nlist(range(len(system)))} [{"; ".join(enc)}]) [{"; ".join(out)}]',
                       f'with_noise(ConstantQubitNoiseModel({noise_gate!r}, prepend={prepend})) does not produce [moment, noise moment] per non-virtual moment on {desc}',
                       dict(signature=f'noise-structure:{prepend}', circuit=repr(c), noise=repr(noise_gate), prepend=prepend)))
        # simulate(noise=m) = simulate(circuit produced by the noise model), through the reference semantics of the latter
        try:
            mops, meas, _ = opsem.circuit_to_mops(cirq, noisy, qs)
        except opsem.Unsupported:
            continue
        dim = 2 ** len(qs)
        br = enumerate_runs(lambda s: np.array(cirq.DensityMatrixSimulator(seed=s, noise=nm, dtype=np.complex128).simulate(c, qubit_order=qs).final_density_matrix))
        rho = sum(p * st for p, st, _ in br)
        ctx.count('noise-model:simulate', [desc, repr(noise_gate), prepend], True)
        sig = 'noise-simulate'
        # Known defect class (known_findings/C09.json): the density-matrix simulator splits the circuit into a measurement-free
        # prefix and a suffix BEFORE applying the (moment based) noise model.  If the implementation equals that replica
        # (built with Cirq's own splitter), the disagreement is that finding and nothing else.
        from cirq.sim.simulator import split_into_matching_protocol_then_general
        pre, suf = split_into_matching_protocol_then_general(c, lambda op: not cirq.measurement_keys_touched(op))
        replica = cirq.Circuit()
        for part in (pre, suf):
            if len(part):
                replica += part.with_noise(nm)
        brr = enumerate_runs(lambda s: np.array(cirq.DensityMatrixSimulator(seed=s, dtype=np.complex128).simulate(replica, qubit_order=qs).final_density_matrix))
        if np.allclose(sum(p * st for p, st, _ in brr), rho, atol=1e-7) and any(cirq.is_measurement(op) for op in c.all_operations()):
            sig = 'noise-simulate:DensityMatrixSimulator:split-before-noise'
        checks.append(('noise-model:simulate', f'fcl_close {TOL} (dexec_rho FOps {gates.nlist([2] * len(qs))} {mops} {gates.fvec(np.eye(dim)[0])}) {gates.fvec(rho.reshape(-1))}',
                       f'DensityMatrixSimulator(noise={noise_gate!r}) differs from simulating the circuit the noise model produces on {desc}',
                       dict(signature=sig, circuit=repr(c), noise=repr(noise_gate), prepend=prepend)))


def channel_pair_grid(ctx, cirq, checks):
    """Every ordered pair of library channels at special (0, 1) and generic parameters applied one after the other to one qubit of an
    entangled pair, through DensityMatrixSimulator with and without split_untangled_states (fixed for every seed): in-place fast paths
    of one channel must not disturb the buffers the next one uses."""
    chans = [cirq.phase_damp(0.0), cirq.phase_damp(1.0), cirq.phase_damp(0.25), cirq.amplitude_damp(0.0), cirq.amplitude_damp(1.0),
             cirq.amplitude_damp(0.3), cirq.bit_flip(0.0), cirq.bit_flip(0.2), cirq.phase_flip(0.0), cirq.depolarize(0.0), cirq.depolarize(0.1),
             cirq.generalized_amplitude_damp(0.0, 0.0), cirq.generalized_amplitude_damp(0.3, 0.4), cirq.ResetChannel(), cirq.Z, cirq.H]
    q0, q1 = cirq.LineQubit.range(2)
    qs = [q0, q1]
    k = 0
    for a in chans:
        for b in chans:
            if cirq.has_unitary(a) and cirq.has_unitary(b):
                continue
            k += 1
            if ctx.tier == 'quick' and k % 2 and not (isinstance(a, type(cirq.phase_damp(0.0))) or isinstance(b, cirq.ResetChannel)):
                continue
            c = cirq.Circuit(cirq.H(q0), cirq.CNOT(q0, q1), cirq.X(q1) ** 0.3, a.on(q0), b.on(q0), b.on(q1) if k % 3 == 0 else cirq.I(q1))
            try:
                mops, meas, _ = opsem.circuit_to_mops(cirq, c, qs)
            except opsem.Unsupported:
                continue
            split = bool(k % 2)
            desc = f'{a!r} then {b!r} (split_untangled_states={split})'
            try:
                rho = np.asarray(cirq.DensityMatrixSimulator(dtype=np.complex128, split_untangled_states=split).simulate(c, qubit_order=qs).final_density_matrix)
            except Exception as e:
                ctx.violation('channel-pair:raises', f'DensityMatrixSimulator raised {type(e).__name__}: {e} on {desc}', dict(kind='channel-pair', circuit=repr(c)))
                continue
            ctx.count('channel-pair', [repr(a), repr(b), split], True, sample=dict(first=repr(a), second=repr(b), split=split))
            checks.append(('channel-pair', f'fcl_close {TOL} (dexec_rho FOps {gates.nlist([2, 2])} {mops} {gates.fvec(np.eye(4)[0])}) {gates.fvec(rho.reshape(-1))}',
                           f'DensityMatrixSimulator: {desc} on one qubit of an entangled pair differs from the channel semantics',
                           dict(signature='channel-pair', circuit=repr(c), first=repr(a), second=repr(b), split=split)))


def mux_noise_stream(ctx, cirq, checks, n):
    """cirq.final_density_matrix(circuit, noise=model) with classically controlled operations (its own code path: noise first, then
    measurements deferred and dephased) = the averaged state of the circuit the noise model produces, through the reference semantics."""
    rng = ctx.rng
    for i in range(n):
        k = rng.randint(2, 3)
        qs = cirq.LineQubit.range(k)
        c = cirq.Circuit()
        for _ in range(rng.randint(1, 3)):
            if rng.random() < 0.4:
                a, b = rng.sample(range(k), 2)
                c.append(rng.choice([cirq.CNOT, cirq.CZ])(qs[a], qs[b]))
            else:
                c.append(rng.choice([cirq.H, cirq.X ** 0.5, cirq.Y ** 0.25, cirq.rx(0.7)])(qs[rng.randrange(k)]))
        form = ['classical-control', 'classical-control', 'joint-measurement', 'no-measurement'][i % 4]
        if form == 'classical-control':
            m = rng.randrange(k)
            c.append(cirq.measure(qs[m], key='a'))
            t = rng.randrange(k)
            c.append(rng.choice([cirq.X, cirq.H, cirq.Y ** 0.5])(qs[t]).with_classical_controls('a'))
            if rng.random() < 0.5:
                c.append(rng.choice([cirq.H, cirq.T])(qs[rng.randrange(k)]))
        elif form == 'joint-measurement':
            # one key over several qubits (dephasing spreads it over several moments), optionally a second key
            ws = rng.sample(range(k), rng.randint(2, k))
            c.append(cirq.measure(*[qs[w] for w in ws], key='a', invert_mask=tuple(rng.random() < 0.3 for _ in ws)))
            if rng.random() < 0.4:
                c.append(cirq.measure(qs[rng.randrange(k)], key='b'))
        noise_gate = rng.choice([cirq.depolarize(0.1), cirq.bit_flip(0.2), cirq.amplitude_damp(0.3), cirq.phase_damp(0.25)])
        nm = cirq.ConstantQubitNoiseModel(noise_gate)
        desc = str(c).replace('\n', ' | ')[:300]
        noisy = c.with_noise(nm)
        try:
            mops, meas, _ = opsem.circuit_to_mops(cirq, noisy, qs)
        except opsem.Unsupported:
            continue
        dim = 2 ** k
        try:
            rho = np.asarray(cirq.final_density_matrix(c, noise=nm, qubit_order=qs, dtype=np.complex128))
        except Exception as e:
            ctx.violation('mux-noise:raises', f'cirq.final_density_matrix(noise={noise_gate!r}) raised {type(e).__name__}: {e} on {desc}',
                          dict(kind='mux-noise', circuit=repr(c), noise=repr(noise_gate)))
            continue
        ctx.count('noise-model:final_density_matrix', [desc, repr(noise_gate)], True, sample=dict(circuit=desc, noise=repr(noise_gate)))
        checks.append(('noise-model:final_density_matrix',
                       f'fcl_close {TOL} (dexec_rho FOps {gates.nlist([2] * k)} {mops} {gates.fvec(np.eye(dim)[0])}) {gates.fvec(rho.reshape(-1))}',
                       f'cirq.final_density_matrix(noise={noise_gate!r}) differs from the averaged state of the circuit the noise model produces on {desc}',
                       dict(signature=f'noise-mux:{form}', circuit=repr(c), noise=repr(noise_gate))))


def flat(x):
    """repr on one line (violation texts are read line by line)."""
    return ' '.join(repr(x).split())


def generic_state(rng, dim):
    """A normalised state vector with generic complex amplitudes (two different linear maps on operators differ on the outer product
    of a generic vector, because those outer products span the operator space)."""
    v = np.array([complex(rng.gauss(0, 1), rng.gauss(0, 1)) for _ in range(dim)])
    return v / np.linalg.norm(v)


def random_kraus_set(rng, n_ops, dim):
    """A trace-preserving Kraus set without any symmetry: the blocks of a random isometry."""
    a = np.array([[complex(rng.gauss(0, 1), rng.gauss(0, 1)) for _ in range(dim)] for _ in range(n_ops * dim)])
    q, _ = np.linalg.qr(a)
    return [q[i * dim:(i + 1) * dim, :] for i in range(n_ops)]


def multi_qubit_channels(cirq, rng):
    """Channels on 2 and 3 qubits that are NOT symmetric under exchanging their qubits, one per application strategy:
    Kraus only (dense random, product of two different single-qubit channels, keyed) and mixture."""
    g, h = rng.choice([0.3, 0.45, 0.6]), rng.choice([0.2, 0.35])
    p = rng.choice([0.25, 0.4])
    damp, pdamp = cirq.kraus(cirq.amplitude_damp(g)), cirq.kraus(cirq.phase_damp(h))
    Y, S = np.array([[0, -1j], [1j, 0]]), np.diag([1, 1j])
    two = [('random-kraus', cirq.KrausChannel(random_kraus_set(rng, 3, 4))),
           ('amplitude_damp(x)identity', cirq.KrausChannel([np.kron(k, np.eye(2)) for k in damp])),
           ('amplitude_damp(x)phase_damp[keyed]', cirq.KrausChannel([np.kron(a, b) for a in damp for b in pdamp], key='k')),
           ('mixture Y(x)S', cirq.MixedUnitaryChannel([(1 - p, np.eye(4)), (p, np.kron(Y, S))]))]
    three = [('random-kraus', cirq.KrausChannel(random_kraus_set(rng, 2, 8))),
             ('amplitude_damp(x)identity(x)phase_damp', cirq.KrausChannel([np.kron(np.kron(a, np.eye(2)), b) for a in damp for b in pdamp]))]
    return two, three


def kraus_axes_grid(ctx, cirq, checks, reps):
    """Multi-qubit channels without qubit-exchange symmetry applied to EVERY ordered choice of target qubits of a 2- and 3-qubit
    register, under the default and a permuted qubit order, from entangled and from product preparations, with and without
    split_untangled_states (so the channel's axes in the simulation state are ascending, descending and produced by a product-state
    merge): Simulator trajectories (every Kraus branch enumerated, weighted by the probability Cirq assigned) and
    DensityMatrixSimulator against the reference ensemble.  The grid is the same for every seed; only the parameters are random."""
    rng = ctx.rng
    k = 0
    for rep in range(reps):
        two, three = multi_qubit_channels(cirq, rng)
        for n in (2, 3):
            qs = cirq.LineQubit.range(n)
            perms = list(itertools.permutations(range(n)))
            targets = [(t, two) for t in itertools.permutations(range(n), 2)] + ([(t, three) for t in perms] if n == 3 else [])
            for tgt, pool in targets:
                for cname, ch in pool:
                    for split in (False, True):
                        for which_order in (0, 1):
                            k += 1
                            order = perms[0] if which_order == 0 else perms[1 + k % (len(perms) - 1)]
                            entangled = k % 3 != 0
                            c = cirq.Circuit(cirq.ry(round(rng.uniform(0.3, 2.8), 3)).on(q) for q in qs)
                            c.append(cirq.rx(round(rng.uniform(0.3, 2.8), 3)).on(qs[-1]))
                            if entangled:
                                c.append(cirq.CNOT(qs[i], qs[i + 1]) for i in range(n - 1))
                                c.append(cirq.rz(round(rng.uniform(0.2, 1.5), 3)).on(q) for q in qs)
                                c.append(cirq.ry(round(rng.uniform(0.3, 2.8), 3)).on(qs[0]))
                            c.append(ch.on(*[qs[t] for t in tgt]))
                            axes_grid_case(ctx, cirq, checks, c, [qs[o] for o in order], split,
                                           f'{cname} on qubits {tgt} after {"an entangled" if entangled else "a product"} preparation, qubit_order={order}, '
                                           f'split_untangled_states={split}', f'{len(tgt)}q:{cname}')


def axes_grid_case(ctx, cirq, checks, c, order, split, label, sigtail):
    try:
        mops, meas, _ = opsem.circuit_to_mops(cirq, c, order)
    except opsem.Unsupported:
        return
    dim = 2 ** len(order)
    model = f'(dexec_rho FOps {gates.nlist([2] * len(order))} {mops} {gates.fvec(np.eye(dim)[0])})'
    for entry in ('Simulator.simulate[trajectories]', 'DensityMatrixSimulator.simulate'):
        stream = 'axes-grid:' + entry
        desc = f'{label}: {flat(c)}'
        try:
            if entry.startswith('Density'):
                br = enumerate_runs(lambda s: np.array(cirq.DensityMatrixSimulator(seed=s, split_untangled_states=split, dtype=np.complex128)
                                                       .simulate(c, qubit_order=order).final_density_matrix))
                rho = sum(p * st for p, st, _ in br)
                norms = [abs(np.trace(st)) for _, st, _ in br]
            else:
                br = enumerate_runs(lambda s: np.array(cirq.Simulator(seed=s, split_untangled_states=split, dtype=np.complex128)
                                                       .simulate(c, qubit_order=order).final_state_vector))
                rho = sum(p * np.outer(st, st.conj()) for p, st, _ in br)
                norms = [float(np.linalg.norm(st)) for _, st, _ in br]
        except BranchExplosion:
            ctx.count(stream + ':skipped-too-many-branches', [desc, entry], False)
            continue
        except Exception as e:
            import traceback
            ctx.violation(f'{stream}:raises:{type(e).__name__}', f'{entry} raised {type(e).__name__}: {e} on {desc}',
                          dict(kind='axes-grid', entry=entry, circuit=repr(c), error=traceback.format_exc()[-1200:]))
            continue
        total = sum(p for p, _, _ in br)
        ctx.count(stream, [desc, entry], len(br) >= 2, sample=dict(case=label, entry=entry, branches=len(br), total=total))
        if abs(total - 1) > 1e-6 or not np.all(np.isfinite(rho)) or not valid_density(rho) or not np.allclose(norms, 1.0, atol=1e-6):
            ctx.violation(f'{stream}:invalid-density:{sigtail}',
                          f'{entry}: branch probabilities sum to {total}, branch norms {np.round(norms, 6).tolist()}: not a valid ensemble / density matrix on {desc}',
                          dict(kind='axes-grid', entry=entry, circuit=repr(c), qubit_order=repr(order), split=split))
            continue
        checks.append((stream, f'fcl_close {TOL} {model} {gates.fvec(rho.reshape(-1))}',
                       f'{entry}: sum over branches of probability x branch state differs from sum_k K rho K^dagger (reference semantics) for {desc}',
                       dict(signature=f'{stream}:{sigtail}', entry=entry, circuit=repr(c), qubit_order=repr(order), split=split)))


def superoperator_case(ctx, cirq, checks, c, rng, form, desc):
    """Circuit._superoperator_ (qubits in sorted order) applied to the outer product of a generic state = the reference semantics of the
    circuit's operations in order.  Measurements enter through their averaged (dephasing) channel, which is what dexec_rho computes."""
    qs = sorted(c.all_qubits())
    if not qs or any(q.dimension != 2 for q in qs):
        return
    try:
        if not c._has_superoperator_():
            return
        mops, meas, _ = opsem.circuit_to_mops(cirq, c, qs)
    except opsem.Unsupported:
        return
    d = 2 ** len(qs)
    psi = generic_state(rng, d)
    rho0 = np.outer(psi, psi.conj())
    try:
        sup = np.asarray(c._superoperator_())
        got = (sup @ rho0.reshape(-1)).reshape(d, d)
    except Exception as e:
        ctx.violation(f'circuit-superoperator:raises:{type(e).__name__}', f'Circuit._superoperator_ raised {type(e).__name__}: {e} on {desc}',
                      dict(kind='circuit-superoperator', circuit=repr(c)))
        return
    has_channel = any(not cirq.has_unitary(op) for op in c.all_operations())
    ctx.count('description:Circuit._superoperator_', [desc, form], has_channel, sample=dict(circuit=desc, form=form))
    checks.append(('description:Circuit._superoperator_',
                   f'fcl_close {TOL} (dexec_rho FOps {gates.nlist([2] * len(qs))} {mops} {gates.fvec(psi)}) {gates.fvec(got.reshape(-1))}',
                   f'Circuit._superoperator_ (qubits sorted) applied to a generic pure state differs from applying each operation\'s channel in order on {desc}',
                   dict(signature=f'circuit-superoperator:{form}', circuit=repr(c), psi=[[z.real, z.imag] for z in psi])))


def moment_case(ctx, cirq, checks, m, rng, form):
    """cirq.kraus(moment) and Moment._superoperator_ (both on sorted(moment.qubits)) describe the channel obtained by applying the
    moment's operations (each through its own Kraus operators, on its own qubits) one after the other."""
    qs = sorted(m.qubits)
    desc = flat(m)
    if not cirq.has_kraus(m):
        ctx.violation(f'moment-description:no-kraus:{form}', f'cirq.has_kraus is False for a moment all of whose operations have Kraus operators: {desc}',
                      dict(kind='moment-description', moment=desc))
        return
    try:
        mops, meas, _ = opsem.circuit_to_mops(cirq, cirq.Circuit(m), qs)
    except opsem.Unsupported:
        return
    d = 2 ** len(qs)
    psi = generic_state(rng, d)
    rho0 = np.outer(psi, psi.conj())
    model = f'(dexec_rho FOps {gates.nlist([2] * len(qs))} {mops} {gates.fvec(psi)})'
    try:
        ks = [np.asarray(k) for k in cirq.kraus(m)]
        sup = np.asarray(m._superoperator_())
    except Exception as e:
        ctx.violation(f'moment-description:raises:{type(e).__name__}', f'cirq.kraus / _superoperator_ raised {type(e).__name__}: {e} on {desc}',
                      dict(kind='moment-description', moment=desc))
        return
    if any(k.shape != (d, d) for k in ks) or sup.shape != (d * d, d * d) or not np.allclose(sum(k.conj().T @ k for k in ks), np.eye(d), atol=1e-8):
        ctx.violation(f'moment-description:not-trace-preserving:{form}', f'cirq.kraus(moment) is not a trace-preserving set of {d}x{d} operators for {desc}',
                      dict(kind='moment-description', moment=desc))
        return
    nontrivial = sum(1 for op in m if not cirq.has_unitary(op)) >= 1 and len(m) >= 2
    for entry, got in (('cirq.kraus(moment)', apply_kraus(ks, rho0)), ('Moment._superoperator_', (sup @ rho0.reshape(-1)).reshape(d, d))):
        ctx.count('description:' + entry, [desc, entry], nontrivial, sample=dict(moment=desc, form=form, entry=entry))
        checks.append(('description:' + entry, f'fcl_close {TOL} {model} {gates.fvec(got.reshape(-1))}',
                       f'{entry} (qubits sorted) applied to a generic pure state differs from applying the channels of the moment\'s operations for {desc}',
                       dict(signature=f'moment-description:{entry}:{form}', moment=desc, psi=[[z.real, z.imag] for z in psi])))


def one_qubit_pool(cirq, rng):
    p, g = round(rng.uniform(0.05, 0.45), 3), round(rng.uniform(0.1, 0.9), 3)
    return [cirq.bit_flip(p), cirq.phase_flip(p), cirq.depolarize(p), cirq.amplitude_damp(g), cirq.phase_damp(g),
            cirq.generalized_amplitude_damp(p, g), cirq.asymmetric_depolarize(0.1, 0.2, 0.05), cirq.ResetChannel(),
            cirq.KrausChannel([np.array([[1, 0], [0, math.sqrt(1 - g)]]), np.array([[0, math.sqrt(g)], [0, 0]])]),
            cirq.MixedUnitaryChannel([(0.25, np.eye(2)), (0.75, np.array([[0, 1], [1, 0]], dtype=complex))]),
            cirq.H, cirq.X ** round(rng.uniform(0.1, 0.9), 3), cirq.ry(round(rng.uniform(0.3, 2.8), 3)), cirq.S]


def moment_description_grid(ctx, cirq, checks, reps):
    """Moments whose operations are STORED in every order relative to the order of their qubits (all permutations of 2 and 3
    single-qubit operations with pairwise different factors; a single-qubit operation next to a two-qubit gate/channel on every
    arrangement of three qubits, in both storage orders; grid and named qubits; moments with a measurement), and circuits in which a
    lone operation sits on each qubit of a wider register (Circuit._superoperator_ pads such moments with identities) or whose moments
    are stored out of qubit order.  Fixed for every seed; parameters random."""
    rng = ctx.rng
    for rep in range(reps):
        pool = one_qubit_pool(cirq, rng)
        two, _ = multi_qubit_channels(cirq, rng)
        two_ops = [cirq.CNOT, cirq.CZ ** round(rng.uniform(0.1, 0.9), 3), cirq.ISWAP ** 0.5] + [ch for _, ch in two if not cirq.is_measurement(ch)]
        lq = cirq.LineQubit.range(3)
        # (1) every storage order of k single-qubit operations with pairwise different factors, at least one a channel
        for k in (2, 3):
            for draw in range(2 if k == 2 else 3):
                while True:
                    gs = rng.sample(pool, k)
                    if any(not cirq.has_unitary(g) for g in gs):
                        break
                for perm in itertools.permutations(range(k)):
                    moment_case(ctx, cirq, checks, cirq.Moment(gs[i].on(lq[i]) for i in perm), rng, f'{k}x1q')
        # (2) a single-qubit operation and a two-qubit operation: every arrangement of the three qubits, both storage orders
        j = 0
        for a, b, c in itertools.permutations(range(3)):
            for first_single in (True, False):
                j += 1
                one = rng.choice([g for g in pool if not cirq.has_unitary(g)]).on(lq[a])
                twoq = two_ops[j % len(two_ops)].on(lq[b], lq[c])
                moment_case(ctx, cirq, checks, cirq.Moment([one, twoq] if first_single else [twoq, one]), rng, '1q+2q')
        # (3) qubits whose sorted order is not their creation / storage order
        gq = [cirq.GridQubit(1, 0), cirq.GridQubit(0, 1), cirq.GridQubit(0, 0)]
        nq = [cirq.NamedQubit('c'), cirq.NamedQubit('a'), cirq.NamedQubit('b')]
        for qset in (gq, nq):
            gs = rng.sample([g for g in pool if not cirq.has_unitary(g)], 3)
            moment_case(ctx, cirq, checks, cirq.Moment(g.on(q) for g, q in zip(gs, qset)), rng, 'other-qubit-types')
        # (4) a measurement (its Kraus operators are the projectors) stored before / after a channel on an earlier qubit
        for perm in ((0, 1), (1, 0), (2, 0), (1, 2)):
            ops = {perm[0]: cirq.measure(lq[perm[0]], key='m'), perm[1]: rng.choice([g for g in pool if not cirq.has_unitary(g)]).on(lq[perm[1]])}
            moment_case(ctx, cirq, checks, cirq.Moment(ops[perm[0]], ops[perm[1]]), rng, 'measure+1q')
        # (5) circuits: a lone operation on each qubit of a wider register; moments stored out of qubit order
        for n in (2, 3):
            qs = lq[:n]
            for w in range(n):
                ch = rng.choice([g for g in pool if not cirq.has_unitary(g)])
                c = cirq.Circuit(cirq.Moment(cirq.ry(round(rng.uniform(0.3, 2.8), 3)).on(q) for q in qs),
                                 cirq.Moment(cirq.CNOT(qs[i], qs[i + 1]) for i in range(0, n - 1, 2)),
                                 cirq.Moment(ch.on(qs[w])),
                                 cirq.Moment(rng.choice(pool).on(qs[(w + 1) % n])),
                                 cirq.Moment(cirq.CNOT(qs[-1], qs[0])),
                                 cirq.Moment(rng.choice(pool).on(qs[w])))
                superoperator_case(ctx, cirq, checks, c, rng, 'lone-operation', flat(c))
            for perm in list(itertools.permutations(range(n)))[1:]:
                gs = rng.sample([g for g in pool if not cirq.has_unitary(g)], n)
                c = cirq.Circuit(cirq.Moment(cirq.ry(round(rng.uniform(0.3, 2.8), 3)).on(q) for q in reversed(qs)),
                                 cirq.Moment(cirq.CNOT(qs[i + 1], qs[i]) for i in range(0, n - 1, 2)),
                                 cirq.Moment(gs[i].on(qs[i]) for i in perm))
                superoperator_case(ctx, cirq, checks, c, rng, 'stored-out-of-order', flat(c))


def compose_kraus(later, earlier):
    """Kraus operators of `later` applied after `earlier`."""
    return [np.asarray(b) @ np.asarray(a) for b in later for a in earlier]


def conversion_pool(cirq, rng):
    """Channels whose descriptions have genuinely COMPLEX entries (phase-type unitaries, x-rotations, channels composed with them, dense
    random Kraus sets, two-qubit gates and product channels) next to real ones: (name, gate on 1 or 2 qubits)."""
    t, th, g, p = round(rng.uniform(0.1, 0.9), 3), round(rng.uniform(0.3, 2.8), 3), round(rng.uniform(0.1, 0.9), 3), round(rng.uniform(0.05, 0.45), 3)
    K = cirq.kraus
    one = [('S', cirq.S), ('T', cirq.T), (f'Z**{t}', cirq.Z ** t), (f'rx({th})', cirq.rx(th)), (f'ry({th})', cirq.ry(th)), ('H', cirq.H),
           (f'Y**{t}', cirq.Y ** t), (f'PhasedXPow({t},{g})', cirq.PhasedXPowGate(phase_exponent=t, exponent=g)),
           (f'amplitude_damp({g}) after S after H', cirq.KrausChannel(compose_kraus(K(cirq.amplitude_damp(g)), compose_kraus(K(cirq.S), K(cirq.H))))),
           (f'depolarize({p}) after rx({th})', cirq.KrausChannel(compose_kraus(K(cirq.depolarize(p)), K(cirq.rx(th))))),
           (f'T after phase_damp({g}) after ry({th})', cirq.KrausChannel(compose_kraus(K(cirq.T), compose_kraus(K(cirq.phase_damp(g)), K(cirq.ry(th)))))),
           ('random-kraus(2 operators)', cirq.KrausChannel(random_kraus_set(rng, 2, 2))),
           ('random-kraus(3 operators)', cirq.KrausChannel(random_kraus_set(rng, 3, 2))),
           (f'mixture I/S/rx', cirq.MixedUnitaryChannel([(0.5, np.eye(2)), (0.3, cirq.unitary(cirq.S)), (0.2, cirq.unitary(cirq.rx(th)))]))]
    two = [('sqrt(ISWAP)', cirq.ISWAP ** 0.5), (f'CZ**{t}', cirq.CZ ** t), ('CNOT', cirq.CNOT), (f'FSim({th},{t})', cirq.FSimGate(th, t)),
           ('random-kraus(3 operators, 2 qubits)', cirq.KrausChannel(random_kraus_set(rng, 3, 4))),
           (f'(depolarize({p}) after rx({th})) (x) bit_flip({p})',
            cirq.KrausChannel([np.kron(a, b) for a in compose_kraus(K(cirq.depolarize(p)), K(cirq.rx(th))) for b in K(cirq.bit_flip(p))])),
           (f'amplitude_damp({g}) (x) S', cirq.KrausChannel([np.kron(a, cirq.unitary(cirq.S)) for a in K(cirq.amplitude_damp(g))]))]
    return one + two


def description_conversion_grid(ctx, cirq, checks, reps):
    """Kraus -> Choi / superoperator descriptions (gate-level and operation-level entry points) of channels with complex entries against the
    Gallina definitions evaluated on the Kraus operators (Gates/Choi.v: sum_k vec(K) vec(K)^dagger, proved equal to the defining formula,
    to the reshuffled superoperator, and to act as the Kraus operators do), plus the numpy conversion oracles (all descriptions act
    identically on a random matrix, conversions invert each other).  The pool is the same for every seed; only parameters are random."""
    rng = ctx.rng
    for rep in range(reps):
        for name, gate in conversion_pool(cirq, rng):
            nq = cirq.num_qubits(gate)
            d = 2 ** nq
            op = gate.on(*cirq.LineQubit.range(nq))
            ks = [np.asarray(k, dtype=complex) for k in cirq.kraus(gate)]
            lit = kraus_lit(ks)
            complex_choi = bool(np.abs(reference_choi(ks).imag).max() > 1e-3)
            rep_d = dict(channel=name, gate=flat(gate))
            for entry, fn in (('cirq.kraus_to_choi', lambda: cirq.kraus_to_choi(ks)), ('cirq.operation_to_choi', lambda: cirq.operation_to_choi(op)),
                              ('cirq.superoperator_to_choi(kraus_to_superoperator)', lambda: cirq.superoperator_to_choi(cirq.kraus_to_superoperator(ks)))):
                try:
                    got = np.asarray(fn())
                except Exception as e:
                    ctx.violation(f'description:{entry}:raises', f'{entry} raised {type(e).__name__}: {e} for {name}: {flat(gate)}', dict(kind='description', **rep_d))
                    continue
                ctx.count('description:' + entry, [name, entry], complex_choi, sample=dict(channel=name, entry=entry, complex_entries=complex_choi))
                checks.append(('description:' + entry, f'fcll_close {TOL} (kraus_choi FOps {d * d} {lit}) {gates.fmat(got)}',
                               f'{entry} of {name} is not the Choi matrix sum_k vec(K_k) vec(K_k)^dagger = sum_ij E(|i><j|) (x) |i><j| of its Kraus operators '
                               f'(gate: {flat(gate)})', dict(signature=f'description:{entry}:{"complex" if complex_choi else "real"}', **rep_d)))
            for entry, fn in (('cirq.kraus_to_superoperator', lambda: cirq.kraus_to_superoperator(ks)),
                              ('cirq.operation_to_superoperator', lambda: cirq.operation_to_superoperator(op)),
                              ('cirq.choi_to_superoperator(kraus_to_choi)', lambda: cirq.choi_to_superoperator(cirq.kraus_to_choi(ks)))):
                try:
                    got = np.asarray(fn())
                except Exception as e:
                    ctx.violation(f'description:{entry}:raises', f'{entry} raised {type(e).__name__}: {e} for {name}: {flat(gate)}', dict(kind='description', **rep_d))
                    continue
                ctx.count('description:' + entry, [name, entry], complex_choi, sample=dict(channel=name, entry=entry, complex_entries=complex_choi))
                checks.append(('description:' + entry, f'fcll_close {TOL} (kraus_superop FOps {d * d} {lit}) {gates.fmat(got)}',
                               f'{entry} of {name} is not the superoperator sum_k K_k (x) conj K_k of its Kraus operators (gate: {flat(gate)})',
                               dict(signature=f'description:{entry}:{"complex" if complex_choi else "real"}', **rep_d)))
            bad = conversion_oracles(cirq, gate, ks, rng)
            if bad:
                ctx.violation(f'conversions:{"complex" if complex_choi else "real"}:{bad[0]}', f'{name} ({flat(gate)}): ' + '; '.join(bad),
                              dict(kind='description', **rep_d))


class OpList:
    """Operations in application order (what opsem.circuit_to_mops reads)."""
    def __init__(self, ops):
        self.ops = list(ops)

    def all_operations(self):
        return iter(self.ops)


def sequence_models(cirq, rng):
    """User noise models given by their meaning `spec(moments, system_qubits) -> one op tree per moment`.  The first four are defined
    through NoiseModel.noisy_moments and depend on MORE than the single moment (position, the following moment, what came before, pairs
    of moments); the last two are defined through noisy_moment / noisy_operation (the default delegation chain)."""
    g0, p = rng.choice([0.07, 0.1, 0.13]), rng.choice([0.1, 0.2, 0.25])

    def drift_gate(k):
        return cirq.amplitude_damp(round(g0 * (k + 1), 4))

    def drift(moments, qubits):
        return [[m, cirq.Moment(drift_gate(k).on_each(qubits))] for k, m in enumerate(moments)]

    def idle_next(moments, qubits):
        out = []
        for k, m in enumerate(moments):
            tq = [q for q in qubits if k + 1 == len(moments) or not moments[k + 1].operates_on([q])]
            out.append([m, cirq.Moment(cirq.bit_flip(p).on_each(tq))] if tq else [m])
        return out

    def cumulative(moments, qubits):
        out, n2 = [], 0
        for m in moments:
            n2 += sum(1 for op in m if len(op.qubits) >= 2)
            out.append([m, cirq.Moment(cirq.depolarize(round(min(0.3, 0.03 * (1 + 2 * n2)), 4)).on_each(sorted(m.qubits)))] if len(m) else [m])
        return out

    def paired(moments, qubits):
        return [[m, cirq.Moment(cirq.phase_damp(p).on_each(qubits))] if k % 2 == 1 else [m] for k, m in enumerate(moments)]

    def per_moment(m, qubits):
        idle = [q for q in qubits if not m.operates_on([q])]
        return [m, cirq.Moment(cirq.phase_flip(p).on_each(idle))] if idle else [m]

    def per_op(op):
        return [op] + [cirq.asymmetric_depolarize(0.05, p / 2, 0.1).on(q) for q in op.qubits]

    def make(name, spec):
        class SeqModel(cirq.NoiseModel):
            def noisy_moments(self, moments, system_qubits):
                return spec(list(moments), list(system_qubits))

            def __repr__(self):
                return f'<noise model defined by noisy_moments: {name}>'
        return SeqModel()

    class MomentModel(cirq.NoiseModel):
        def noisy_moment(self, moment, system_qubits):
            return per_moment(moment, list(system_qubits))

        def __repr__(self):
            return f'<noise model defined by noisy_moment: phase_flip({p}) on the qubits idle in the moment>'

    class OpModel(cirq.NoiseModel):
        def noisy_operation(self, operation):
            return per_op(operation)

        def __repr__(self):
            return f'<noise model defined by noisy_operation: asymmetric_depolarize after every operation>'

    descr = {'drift': f'amplitude_damp({g0}*(k+1)) on every qubit after the moment at position k',
             'idle-next': f'bit_flip({p}) after a moment on the qubits NOT used by the following moment',
             'cumulative': 'depolarize(0.03*(1+2*number of two-qubit gates so far)) on the qubits of the moment',
             'paired': f'phase_damp({p}) on every qubit after every second moment'}
    models = [(n, descr[n], make(descr[n], sp), sp) for n, sp in (('drift', drift), ('idle-next', idle_next), ('cumulative', cumulative), ('paired', paired))]
    models.append(('noisy_moment-defined', repr(MomentModel()), MomentModel(), lambda ms, qs: [per_moment(m, qs) for m in ms]))
    models.append(('noisy_operation-defined', repr(OpModel()), OpModel(), lambda ms, qs: [[per_op(op) for op in m] for m in ms]))
    return models, drift_gate


def sequence_circuits(cirq, rng):
    """Measurement-free circuits of 3-5 moments on 2 and 3 qubits, every one with idling qubits and a two-qubit gate (fixed shapes)."""
    a, b, c = cirq.LineQubit.range(3)
    r = lambda: round(rng.uniform(0.3, 2.8), 3)
    M = cirq.Moment
    return [([a, b], cirq.Circuit(M(cirq.X(a), cirq.H(b)), M(cirq.CNOT(b, a)), M(cirq.Y(a) ** 0.5), M(cirq.rx(r()).on(b)))),
            ([b, a], cirq.Circuit(M(cirq.ry(r()).on(a), cirq.ry(r()).on(b)), M(cirq.rx(r()).on(a)), M(cirq.rx(r()).on(a)), M(cirq.CZ(a, b) ** 0.5))),
            ([a, b, c], cirq.Circuit(M(cirq.H(a), cirq.ry(r()).on(b), cirq.ry(r()).on(c)), M(cirq.CNOT(a, b)), M(cirq.rx(r()).on(c)),
                                     M(cirq.CZ(b, c)), M(cirq.H(a)))),
            ([c, a, b], cirq.Circuit(M(cirq.ry(r()).on(c)), M(cirq.CNOT(c, a), cirq.ry(r()).on(b)), M(cirq.S(b)), M(cirq.ISWAP(a, b) ** 0.5, cirq.T(c))))]


def tree_ops(cirq, trees):
    """The operations of the circuit a noise model produces (one op tree per moment), in application order."""
    return [op for t in trees for op in cirq.Circuit(t).all_operations()]


def per_qubit_sequences(cirq, ops, qs):
    return {q: [op for op in ops if q in op.qubits] for q in qs}


def noise_entries(cirq, c, model, qs):
    dm = lambda **kw: cirq.DensityMatrixSimulator(dtype=np.complex128, **kw)
    return [('simulate(circuit.with_noise(model))', lambda: dm().simulate(c.with_noise(model), qubit_order=qs).final_density_matrix),
            ('DensityMatrixSimulator(noise=model).simulate(circuit)', lambda: dm(noise=model).simulate(c, qubit_order=qs).final_density_matrix),
            ('cirq.final_density_matrix(circuit, noise=model)', lambda: cirq.final_density_matrix(c, noise=model, qubit_order=qs, dtype=np.complex128))]


def produced_circuit_case(ctx, cirq, checks, c, qs, model, mname, mdesc, ref_ops):
    """Every way of simulating `c` under `model` = the reference semantics of `ref_ops` (the operations of the circuit the noise model
    produces for the WHOLE moment sequence, in order); Circuit.with_noise is that circuit (same operations in the same order on every qubit)."""
    desc = f'model {mdesc}; circuit {flat(c)}'
    rep = dict(kind='noise-sequence', model=mdesc, circuit=repr(c), qubit_order=repr(qs))
    try:
        noisy = c.with_noise(model)
        if per_qubit_sequences(cirq, list(noisy.all_operations()), qs) != per_qubit_sequences(cirq, ref_ops, qs):
            ctx.violation(f'noise-sequence:with_noise-structure:{mname}',
                          f'circuit.with_noise(model) is not the circuit the noise model produces for the circuit (model.noisy_moments on the whole moment '
                          f'sequence and the sorted qubits): some qubit sees different operations; {desc}; got {flat(noisy)}', rep)
        mops, _, _ = opsem.circuit_to_mops(cirq, OpList(ref_ops), qs)
    except opsem.Unsupported:
        return
    except Exception as e:
        ctx.violation(f'noise-sequence:raises:{mname}', f'with_noise raised {type(e).__name__}: {e}; {desc}', rep)
        return
    dim = 2 ** len(qs)
    model_term = f'(dexec_rho FOps {gates.nlist([2] * len(qs))} {mops} {gates.fvec(np.eye(dim)[0])})'
    for entry, fn in noise_entries(cirq, c, model, qs):
        try:
            rho = np.asarray(fn())
        except Exception as e:
            ctx.violation(f'noise-sequence:{entry}:raises:{mname}', f'{entry} raised {type(e).__name__}: {e}; {desc}', dict(entry=entry, **rep))
            continue
        ctx.count('noise-sequence:' + entry, [mdesc, flat(c), entry], len(c) >= 2, sample=dict(model=mdesc, circuit=flat(c)[:300], entry=entry))
        if not valid_density(rho):
            ctx.violation(f'noise-sequence:{entry}:invalid-density:{mname}', f'{entry}: the result is not a valid density matrix; {desc}', dict(entry=entry, **rep))
            continue
        checks.append(('noise-sequence:' + entry, f'fcl_close {TOL} {model_term} {gates.fvec(rho.reshape(-1))}',
                       f'{entry} differs from applying, in order, the channels of the circuit the noise model produces for the whole moment sequence; {desc}',
                       dict(signature=f'noise-sequence:{entry}:{mname}', entry=entry, **{k: v for k, v in rep.items() if k != 'kind'})))


def sequence_noise_grid(ctx, cirq, checks, reps):
    """Noise models whose output depends on the whole sequence of moments (user models through noisy_moments; thermal and
    NoiseProperties-derived library models, which re-derive their system qubits from the moments they are handed) on fixed circuits with
    idling qubits, through Circuit.with_noise, DensityMatrixSimulator(noise=...) and cirq.final_density_matrix(noise=...).  References:
    the model's own meaning applied to the whole circuit (Gallina reference semantics), the Gallina list model of the position-dependent
    model (structure), and for thermal models the rate equation of the documented Lindbladians on circuits of X/Z gates (populations)."""
    rng = ctx.rng
    for rep in range(reps):
        models, drift_gate = sequence_models(cirq, rng)
        for qs, c in sequence_circuits(cirq, rng):
            system = sorted(c.all_qubits())
            for mname, mdesc, model, spec in models:
                produced_circuit_case(ctx, cirq, checks, c, qs, model, mname, mdesc, tree_ops(cirq, spec(list(c.moments), system)))
            # structure of the position-dependent model against Sim/NoiseSeq.v
            model = models[0][2]
            ids = {}
            enc = ['[' + '; '.join(f'({ids.setdefault(op, len(ids))}%nat, false)' for op in m) + ']' for m in c]
            level = {drift_gate(k): k for k in range(len(c) + 1)}
            qid = {q: i for i, q in enumerate(system)}
            out = []
            for m in c.with_noise(model):
                out.append('[' + '; '.join(f'({ids[op]}%nat, false)' if op in ids else f'({1000 + 100 * level.get(op.gate, 99) + qid[op.qubits[0]]}%nat, true)'
                                           for op in m) + ']')
            ctx.count('noise-sequence:structure', [flat(c)], True, sample=dict(circuit=flat(c)[:300], model=models[0][1]))
            checks.append(('noise-sequence:structure',
                           f'list_eqb nmoment_eqb (seq_noisy_moments {gates.nlist(range(len(system)))} [{"; ".join(enc)}]) [{"; ".join(out)}]',
                           f'circuit.with_noise(model) for the position-dependent model ({models[0][1]}) is not [moment k, noise moment of level k] for '
                           f'k = 0, 1, ...: got {flat(c.with_noise(model))} for circuit {flat(c)}',
                           dict(signature='noise-sequence:with_noise-structure:drift', circuit=repr(c), model=models[0][1])))
        thermal_grid(ctx, cirq, checks, rng)


def thermal_grid(ctx, cirq, checks, rng):
    a, b, c3 = cirq.LineQubit.range(3)
    M = cirq.Moment
    tx, tz = rng.choice([60.0, 100.0, 140.0]), rng.choice([180.0, 250.0])
    cool, heat, deph = rng.choice([1.5e-3, 2e-3, 3e-3]), rng.choice([0.0, 4e-4]), rng.choice([5e-4, 1e-3])
    durations = {cirq.XPowGate: tx, cirq.ZPowGate: tz, cirq.HPowGate: tx, cirq.CZPowGate: tz}

    def thermal(qubits, tagged):
        return cirq.devices.ThermalNoiseModel(qubits=set(qubits), gate_durations_ns=dict(durations), heat_rate_GHz=heat, cool_rate_GHz=cool,
                                              dephase_rate_GHz=deph, require_physical_tag=tagged)

    def wrapped(qubits):
        class Props(cirq.devices.NoiseProperties):
            def build_noise_models(self):
                return [thermal(qubits, True)]
        return cirq.devices.NoiseModelFromNoiseProperties(Props())

    pop_circuits = [([a, b], cirq.Circuit(M(cirq.X(a), cirq.X(b)), M(cirq.X(a)), M(cirq.X(a)))),
                    ([a, b, c3], cirq.Circuit(M(cirq.X(b), cirq.X(c3)), M(cirq.Z(a)), M(cirq.X(a), cirq.X(c3)), M(cirq.X(b)), M(cirq.Z(c3), cirq.X(a)))),
                    ([b, a], cirq.Circuit(M(cirq.X(a)), M(cirq.X(b)), M(cirq.X(a)), M(cirq.X(b))))]
    general = [([a, b], cirq.Circuit(M(cirq.H(a), cirq.X(b)), M(cirq.CZ(a, b)), M(cirq.H(a)), M(cirq.H(a)))),
               ([a, b, c3], cirq.Circuit(M(cirq.H(a), cirq.H(b), cirq.X(c3)), M(cirq.CZ(a, b)), M(cirq.X(a) ** 0.5), M(cirq.CZ(b, c3)), M(cirq.H(b))))]
    mtext = f'gate durations X/H {tx} ns, Z/CZ {tz} ns; cool {cool}, heat {heat}, dephase {deph} per ns'
    for qs, c in pop_circuits + general:
        system = sorted(c.all_qubits())
        for mname, model in (('ThermalNoiseModel', thermal(system, False)), ('NoiseModelFromNoiseProperties[thermal]', wrapped(system))):
            mdesc = f'{mname} ({mtext})'
            # the circuit the model produces for the whole moment sequence (the entry point the simulators use)
            produced_circuit_case(ctx, cirq, checks, c, qs, model, mname, mdesc, tree_ops(cirq, model.noisy_moments(list(c.moments), system)))
            if not any(c is pc for _, pc in pop_circuits):
                continue
            # rate equation of the documented Lindbladians (cooling sqrt(gc) a, heating sqrt(gh) a^dagger; dephasing leaves populations):
            # during a moment of duration t every system qubit's excited population relaxes to gh/(gc+gh) with factor exp(-(gc+gh) t); X swaps.
            want = {}
            for q in system:
                p1 = 0.0
                for m in c:
                    op = m.operation_at(q)
                    if op is not None and isinstance(op.gate, cirq.XPowGate):
                        p1 = 1 - p1
                    t = max(next(d for k, d in durations.items() if isinstance(o.gate, k)) for o in m)
                    peq = heat / (cool + heat)
                    p1 = peq + (p1 - peq) * math.exp(-(cool + heat) * t)
                want[q] = p1
            for entry, fn in noise_entries(cirq, c, model, qs):
                try:
                    rho = np.asarray(fn())
                except Exception:
                    continue   # reported by produced_circuit_case
                diag = np.real(np.diag(rho)).reshape((2,) * len(qs))
                got = {q: float(diag.sum(axis=tuple(i for i in range(len(qs)) if i != qs.index(q)))[1]) for q in system}
                ctx.count('noise-sequence:thermal-populations', [mdesc, flat(c), entry], True, sample=dict(model=mdesc, circuit=flat(c)[:300], entry=entry))
                worst = max(system, key=lambda q: abs(got[q] - want[q]))
                if abs(got[worst] - want[worst]) > 1e-6:
                    ctx.violation(f'noise-sequence:{entry}:thermal-populations:{mname}',
                                  f'{entry}: excited population of {worst!r} is {got[worst]:.6f}, the rate equation of the thermal model over all moment '
                                  f'durations (idle moments included) gives {want[worst]:.6f}; model {mdesc}; circuit {flat(c)}',
                                  dict(kind='noise-sequence', entry=entry, model=mdesc, circuit=repr(c), qubit_order=repr(qs),
                                       expected={repr(q): want[q] for q in system}, got={repr(q): got[q] for q in system}))


def evaluate(ctx, checks):
    SH = 30
    shards = []
    for s0 in range(0, len(checks), SH):
        part = checks[s0:s0 + SH]
        text = PRE + 'Definition checks : list bool := [\n' + ';\n'.join(c[1] for c in part) + '].\nEval vm_compute in failing (fun b => b) checks.\n'
        shards.append((f'c09_{ctx.seed}_{s0 // SH}', text))
    outs = coq.coq_eval_many(shards, workers=12)
    for si, out in enumerate(outs):
        for idx in coq.parse_nat_list(coq.parse_evals(out)[0]):
            stream, _, desc, rep = checks[si * SH + idx]
            ctx.disagree(f'correspondence:{stream}', desc, rep.pop('signature'), desc, dict(kind=stream, **rep))


def replay(ctx, data):
    """Re-runs the generating stream with the recorded seed/tier and looks for the recorded signature."""
    import sys
    return runner.replay_by_rerun(sys.modules[__name__], ctx, data)
