"""Shared generator of circuits over the gate vocabulary (DESIGN A.4): wires with dimensions, operations
drawn from vf.gates families, moment structure varied through insertion strategies."""
import numpy as np
from . import gates


class Op:
    def __init__(self, g, wires):
        self.g, self.wires = g, list(wires)

    def key(self):
        return [self.g.key(), self.wires]


class Case:
    """wires: list of dimensions; ops: list[Op]; strategies: per-op 'E'|'N'."""

    def __init__(self, dims, ops, strategies):
        self.dims, self.ops, self.strategies = list(dims), ops, strategies

    def key(self):
        return [self.dims, [o.key() for o in self.ops], self.strategies]

    def qids(self, cirq):
        return [cirq.LineQubit(i) if d == 2 else cirq.LineQid(i, dimension=d) for i, d in enumerate(self.dims)]

    def circuit(self, cirq, mods=None):
        qs = self.qids(cirq)
        c = cirq.Circuit()
        self.op_of = {}        # id(cirq operation) -> Op, to read the circuit back moment by moment
        self._keep = []
        for o, s in zip(self.ops, self.strategies):
            op = o.g.cirq_gate(cirq, mods).on(*[qs[w] for w in o.wires])
            self.op_of[id(op)] = o
            self._keep.append(op)
            c.append(op, strategy=cirq.InsertStrategy.NEW if s == 'N' else cirq.InsertStrategy.EARLIEST)
        # every wire is present: a trailing identity moment on the wires no operation touches
        idle = [q for q in qs if q not in c.all_qubits()]
        if idle:
            c.append(cirq.Moment(cirq.IdentityGate(qid_shape=(q.dimension,)).on(q) for q in idle))
        return c, qs

    def prefix_case(self, circuit, k):
        """The case made of the operations of the first k moments of `circuit` (built by self.circuit), in moment order."""
        ops = [self.op_of[id(op)] for m in circuit[:k] for op in m if id(op) in self.op_of]
        return Case(self.dims, ops, ['E'] * len(ops))

    def nontrivial(self):
        """>= 2 operations sharing a wire and >= 1 non-diagonal gate."""
        share = any(set(a.wires) & set(b.wires) for i, a in enumerate(self.ops) for b in self.ops[i + 1:])
        nondiag = any(o.g.fam not in ('ZPow', 'CZPow', 'ZZPow', 'CCZPow', 'Rz', 'Diagonal', 'GlobalPhase', 'Identity',
                                      'PhaseGrad', 'Z4Pow', 'IonqZZ') for o in self.ops)
        return share and nondiag

    def coq_ops(self, order=None):
        """Gallina list of (gate, axes); axes are positions in `order` (a permutation of wire indices)."""
        pos = {w: i for i, w in enumerate(order if order is not None else range(len(self.dims)))}
        return '[' + ';\n  '.join(f'({o.g.coq()}, {gates.nlist([pos[w] for w in o.wires])})' for o in self.ops) + ']'

    def coq_shape(self, order=None):
        order = order if order is not None else range(len(self.dims))
        return gates.nlist([self.dims[w] for w in order])


FAST = gates.FAST


def random_case(rng, max_wires=5, max_ops=14, qudits=True, families=None, min_wires=1):
    n = rng.randint(min_wires, max_wires)
    dims = []
    for _ in range(n):
        r = rng.random()
        dims.append(2 if (not qudits or r < 0.85) else (3 if r < 0.93 else 4))
    fams = families or gates.CORE_FAMILIES
    ops, strategies = [], []
    for _ in range(rng.randint(1, max_ops)):
        for _attempt in range(20):
            fam = rng.choice(FAST) if rng.random() < 0.5 else rng.choice(fams + gates.QUDIT_FAMILIES)
            g = gates.draw(rng, fam)
            # wires whose dimensions match the gate's shape
            need = list(g.shape)
            avail = list(range(n))
            rng.shuffle(avail)
            chosen = []
            for d in need:
                w = next((w for w in avail if dims[w] == d and w not in chosen), None)
                if w is None:
                    break
                chosen.append(w)
            if len(chosen) == len(need):
                ops.append(Op(g, chosen))
                strategies.append('N' if rng.random() < 0.2 else 'E')
                break
    return Case(dims, ops, strategies)
