#!/venv/bin/python
"""usage: tools_keepseed.py <seed dir> <prop> <caught|missed-then-caught|missed> "<note>" — store a confirmed seeded change under seeded/<id>/"""
import json, os, shutil, sys
src, prop, outcome, note = sys.argv[1:5]
sid = os.path.basename(src.rstrip('/')).replace('seed-', '')
dst = os.path.join('/verif/seeded', sid)
os.makedirs(dst, exist_ok=True)
for f in ('patch.diff', 'demo.py'):
    shutil.copy(os.path.join(src, f), os.path.join(dst, f))
meta = json.load(open(os.path.join(src, 'meta.json')))
meta.update(property=prop, confirmed=dict(
    ran=[f'git -C /tmp/wt apply seeded/{sid}/patch.diff   (scratch worktree of /repo HEAD, removed afterwards)',
         f'/venv/bin/python seeded/{sid}/demo.py /tmp/wt  -> exit 1', f'/venv/bin/python seeded/{sid}/demo.py /repo -> exit 0',
         f'VERIF_REPO=/tmp/wt ./check {prop} --tier quick'],
    outcome=outcome, note=note))
json.dump(meta, open(os.path.join(dst, 'meta.json'), 'w'), indent=1)
print('kept', dst)
