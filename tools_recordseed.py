#!/venv/bin/python
"""usage: tools_recordseed.py <seed id> <tools_seed.sh output file> [note] -- writes meta.json 'confirmed' from a tools_seed.sh run."""
import json, re, sys
sid, out = sys.argv[1], open(sys.argv[2], errors="replace").read()
note = sys.argv[3] if len(sys.argv) > 3 else ''
p = f'/verif/seeded/{sid}/meta.json'
m = json.load(open(p))
viol = [l for l in out.splitlines() if 'VIOLATION' in l]
found = [l for l in viol if 'no-failing-input-found' not in l]
outcome = 'caught' if found else ('reported (no failing input found)' if viol else 'missed')
prev = m.get('confirmed') or {}
hist = prev.get('history', [])
if prev.get('outcome'):
    hist.append(dict(outcome=prev['outcome'], note=prev.get('note', '')))
m.setdefault('property', sid[:3])
m['confirmed'] = dict(ran=[f'./tools_seed.sh seeded/{sid} {prev.get("caught_by") or sid[:3]} 0'],
                      demo_changed_tree='exit 1' if 'changed tree: exit 1' in out else 'NOT exit 1',
                      demo_clean_tree='exit 0' if 'clean tree: exit 0' in out else 'NOT exit 0', outcome=outcome, note=note)
if prev.get('caught_by'):
    m['confirmed']['caught_by'] = prev['caught_by']
if hist:
    m['confirmed']['history'] = hist
json.dump(m, open(p, 'w'), indent=1)
print(sid, outcome)
