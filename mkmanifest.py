#!/venv/bin/python
"""Regenerate MANIFEST.json from the META of each check module (vf/checks/cXX.py)."""
import importlib, json, os, re, sys
sys.path.insert(0, os.path.dirname(os.path.abspath(__file__)))
props = [json.loads(l) for l in open('properties.jsonl')]
checks, na = [], []
for p in props:
    pid = p['id']
    try:
        src = open(f'vf/checks/{pid.lower()}.py').read()
    except FileNotFoundError:
        na.append(dict(property_id=pid, reason='not yet claimed: the check for this property has not been built in this round (see DESIGN.md section 5 for the planned proof); no technique switch'))
        continue
    g = {}
    m = re.search(r'^META = dict\((.*?)^\)', src, re.S | re.M)
    exec('META = dict(' + m.group(1) + ')', g)
    M = g['META']
    level = re.search(r"^LEVEL = '(\w+)'", src, re.M).group(1)
    checks.append(dict(
        property_id=pid,
        quick_cmd=f'./check {pid} --tier quick',
        thorough_cmd=f'./check {pid} --tier thorough',
        evidence_file=f'/verif/evidence/{pid}.json',
        replay_cmd_template=f'./check {pid} --replay {{path}}',
        engine='coq-model',
        level_claimed=dict(category=level, text=M['text'], design_ref=M.get('design_ref', f'DESIGN.md section 5 / {pid}')),
        level_note=M['note'],
        technique=M['technique'],
    ))
man = dict(
    version=1,
    setup_cmd='./setup.sh',
    hooks=dict(guard='CIRQ_VERIF', enable='no source hooks are needed: every observation point is reachable through public API (scripted seed objects, fake samplers, fake gRPC client); checks export CIRQ_VERIF=1 for uniformity',
               baseline_off_cmd='cd /repo && /venv/bin/python -m pytest -ra -q -p no:cacheprovider --timeout=900 --continue-on-collection-errors',
               source_commits=[], add_only=True),
    engines=[dict(name='coq-model', path='/verif/coq', serves_properties=[c['property_id'] for c in checks],
                  kind_free_text='Coq 8.16 development: executable Gallina models + theorems (Props/Cxx.v), tables regenerated from /repo on every run (coq/Generated), correspondence by evaluating the model with vm_compute on the cases the implementation ran (vf/)')],
    checks=checks,
    notes=open('MANIFEST.notes.txt').read().strip() if os.path.exists('MANIFEST.notes.txt') else '',
    not_applicable=na,
)
json.dump(man, open('MANIFEST.json', 'w'), indent=1)
print('checks:', [c['property_id'] for c in checks], 'unclaimed:', [n['property_id'] for n in na])
