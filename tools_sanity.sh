#!/bin/bash
# quick sanity before a commit: every python file parses, MANIFEST and evidence files are valid, no forbidden Coq token
cd "$(dirname "$0")"
rc=0
for f in vf/*.py vf/checks/*.py mkmanifest.py; do /venv/bin/python -c "import ast,sys; ast.parse(open('$f').read())" 2>/dev/null || { echo "SYNTAX ERROR in $f"; rc=1; }; done
python3-vt - <<'PY' || rc=1
import json, jsonschema, glob, sys
jsonschema.validate(json.load(open('MANIFEST.json')), json.load(open('/root/.vp/MANIFEST.schema.json')))
sch = json.load(open('/root/.vp/EVIDENCE.schema.json'))
for f in glob.glob('evidence/C*.json'):
    jsonschema.validate(json.load(open(f)), sch)
for f in glob.glob('known_findings/C*.json'):
    json.load(open(f))
print('manifest, evidence, known_findings: valid')
PY
if grep -rnE '\b(Admitted|admit|Axiom|Parameter|Conjecture|Admit Obligations)\b|Unset Guard|bypass_check|type-in-type|impredicative-set' coq --include='*.v' | grep -vE '^\S+:\s*[0-9]+:\s*\(\*.*\*\)\s*$' ; then echo "forbidden token"; rc=1; fi
[ $rc = 0 ] && echo "sanity ok"
exit $rc
