#!/bin/bash
# usage: tools_seed.sh <seed dir> <prop> — confirm a seeded change (demo fails with it, passes without) and run the check on it
S="$1"; P="$2"
[ -d /tmp/wt ] || git -C /repo worktree add -q --detach /tmp/wt HEAD
git -C /tmp/wt checkout -q --detach "$(git -C /repo rev-parse HEAD)"; git -C /tmp/wt checkout -q -- .
if ! git -C /tmp/wt apply "$S/patch.diff"; then echo "PATCH DOES NOT APPLY"; exit 3; fi
cd /tmp; /venv/bin/python -W ignore "$S/demo.py" /tmp/wt > /tmp/demo_changed.out 2>&1; echo "demo on changed tree: exit $?"
/venv/bin/python -W ignore "$S/demo.py" /repo > /tmp/demo_clean.out 2>&1; echo "demo on clean tree: exit $?"
cd /verif; VERIF_REPO=/tmp/wt ./check "$P" 2>&1 | grep -v "^KNOWN-FINDING" | grep -E "VIOLATION|^\[$P\]|HARNESS|what:" | cut -c1-330 | head -8
git -C /tmp/wt checkout -q -- .
