#!/bin/bash
# usage: tools_seed.sh <seed dir> <prop> [seed...] — confirm a seeded change (demo fails with it, passes without) and run the
# check on it in a scratch worktree of /repo HEAD (removed afterwards). Safe to run for several seeds in parallel.
S="$(cd "$1" && pwd)"; P="$2"; shift 2; SEEDS="${*:-0}"
N="$(basename "$S")"; WT="/tmp/wtseed-$N"
git -C /repo worktree remove --force "$WT" 2>/dev/null
git -C /repo worktree add -q --detach "$WT" HEAD || exit 3
trap 'git -C /repo worktree remove --force "$WT" 2>/dev/null' EXIT
if ! git -C "$WT" apply "$S/patch.diff"; then echo "[$N] PATCH DOES NOT APPLY"; exit 3; fi
cd /tmp; /venv/bin/python -W ignore "$S/demo.py" "$WT" > "/tmp/demo_changed_$N.out" 2>&1; echo "[$N] demo on changed tree: exit $?"
/venv/bin/python -W ignore "$S/demo.py" /repo > "/tmp/demo_clean_$N.out" 2>&1; echo "[$N] demo on clean tree: exit $?"
cd /verif
for sd in $SEEDS; do
  VERIF_SEED=$sd VERIF_REPO="$WT" ./check "$P" 2>&1 | grep -v "^KNOWN-FINDING" | grep -E "VIOLATION|^\[$P\]|HARNESS|what:" | cut -c1-330 | head -6 | sed "s/^/[$N seed $sd] /"
done
