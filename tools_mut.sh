#!/bin/bash
# usage: tools_mut.sh <prop> <file relative to repo> <sed expression>   — self-test helper (scratch worktree /tmp/wt)
set -e
P="$1"; F="$2"; E="$3"
[ -d /tmp/wt ] || git -C /repo worktree add -q --detach /tmp/wt HEAD
git -C /tmp/wt checkout -q --detach "$(git -C /repo rev-parse HEAD)"
git -C /tmp/wt checkout -q -- .
sed -i "$E" "/tmp/wt/$F"
if git -C /tmp/wt diff --quiet; then echo "MUTATION DID NOT APPLY"; exit 3; fi
git -C /tmp/wt diff | grep '^[-+]' | grep -v '^+++\|^---' | head -6
cd /verif; VERIF_REPO=/tmp/wt ./check "$P" 2>&1 | grep -E "VIOLATION|^\[$P\]|HARNESS|KNOWN" | cut -c1-260 | head -6
git -C /tmp/wt checkout -q -- .
