(* C20 — vocabulary shared by the regenerated retry table (Generated/RetryTable.v) and the stream models. *)
From Coq Require Import Bool.

(* the kind of the execution coroutine's current request (StreamManager._manage_execution: current_request) *)
Inductive req := CreateProgJob | CreateJob | GetResult.

(* quantum.StreamError.Code — every member of the enum; vf/tables_c20.py fails closed if the enum changes *)
Inductive code :=
| CODE_UNSPECIFIED | INTERNAL | INVALID_ARGUMENT | PERMISSION_DENIED
| PROGRAM_ALREADY_EXISTS | JOB_ALREADY_EXISTS | PROGRAM_DOES_NOT_EXIST | JOB_DOES_NOT_EXIST
| PROCESSOR_DOES_NOT_EXIST | INVALID_PROCESSOR_FOR_JOB.

(* exceptions a broken stream can raise: google.api_core.exceptions classes (X<ClassName>), a harness-defined subclass
   of ServiceUnavailable, and an exception that is not a GoogleAPICallError at all *)
Inductive exn :=
| XInternalServerError | XServiceUnavailable | XUnknown | XSubServiceUnavailable
| XBadGateway | XDeadlineExceeded | XDataLoss
| XAborted | XCancelled | XNotFound | XPermissionDenied | XResourceExhausted | XInvalidArgument
| XRuntimeError.

Definition req_eqb (a b : req) : bool :=
  match a, b with CreateProgJob, CreateProgJob | CreateJob, CreateJob | GetResult, GetResult => true | _, _ => false end.

Definition code_idx (c : code) : nat :=
  match c with
  | CODE_UNSPECIFIED => 0 | INTERNAL => 1 | INVALID_ARGUMENT => 2 | PERMISSION_DENIED => 3
  | PROGRAM_ALREADY_EXISTS => 4 | JOB_ALREADY_EXISTS => 5 | PROGRAM_DOES_NOT_EXIST => 6 | JOB_DOES_NOT_EXIST => 7
  | PROCESSOR_DOES_NOT_EXIST => 8 | INVALID_PROCESSOR_FOR_JOB => 9
  end.
Definition code_eqb (a b : code) : bool := Nat.eqb (code_idx a) (code_idx b).

Definition exn_idx (x : exn) : nat :=
  match x with
  | XInternalServerError => 0 | XServiceUnavailable => 1 | XUnknown => 2 | XSubServiceUnavailable => 3
  | XBadGateway => 4 | XDeadlineExceeded => 5 | XDataLoss => 6
  | XAborted => 7 | XCancelled => 8 | XNotFound => 9 | XPermissionDenied => 10 | XResourceExhausted => 11
  | XInvalidArgument => 12 | XRuntimeError => 13
  end.
Definition exn_eqb (a b : exn) : bool := Nat.eqb (exn_idx a) (exn_idx b).
