(* C20 — provenance of outcomes in the manager model (Async/Stream.v): a submit future is completed only by an event that
   concerns its own job, and the response to the current request of a waiting execution takes effect at that execution.
   These are the statements the step oracles `foreign` / `undelivered` of vf/checks/c20.py judge the real run by. *)
From Coq Require Import List Bool Arith Lia.
From VF Require Import Async.StreamTypes Generated.RetryTable Async.Stream Async.StreamProofs.
Import ListNotations.

(* what may complete the future of submit e with outcome o when event ev happens in state m *)
Definition caused (m : mgr) (ev : event) (e : nat) (o : eoutcome) : Prop :=
  match ev with
  | Respond k =>
      exists id p rest, take_nth k (pending m) = Some ((id, p), rest) /\ lookup id (subs m) = Some e /\ waits m e id /\
        match p with MRes r => o = OReturned r | MErr c => o = ORaisedStream c end
  | RespondCancel k =>
      exists id p rest, take_nth k (pending m) = Some ((id, p), rest) /\ lookup id (subs m) = Some e /\ waits m e id /\
        o = OCancelled
  | Break x => o = ORaisedExn x /\ retryable x = false /\ exists id, In (id, e) (subs m)
  | Cancel i => i = e /\ o = OCancelled
  | Stop => o = OCancelled /\ exists id, In (id, e) (subs m)
  | BreakCancel x i => (i = e /\ o = OCancelled) \/ (o = ORaisedExn x /\ retryable x = false /\ exists id, In (id, e) (subs m))
  | Submit _ | Process _ | RejectReq _ _ => False
  end.

(* ---- the log of completions under the primitive operations ---- *)
Lemma ldones_send e r m : ldones (send e r m) = ldones m.
Proof. unfold send. destruct (nth_error (execs m) e); reflexivity. Qed.
Lemma clock_send e r m : clock (send e r m) = clock m.
Proof. unfold send. destruct (nth_error (execs m) e); reflexivity. Qed.
Lemma ldones_serve w m : ldones (fst (serve_m w m)) = ldones m.
Proof.
  unfold serve_m, create_job. destruct (wkind w).
  - destruct (mem (wprog w) (progs m)); [reflexivity|]. destruct (mem (wjob w) (jobs m)); reflexivity.
  - destruct (negb (mem (wprog w) (progs m))); [reflexivity|]. destruct (mem (wjob w) (jobs m)); reflexivity.
  - destruct (mem (wjob w) (jobs m)); reflexivity.
Qed.

Lemma waits_frame m m' e id : execs m' = execs m -> waits m' e id -> waits m e id.
Proof. unfold waits. intros ->. auto. Qed.

Lemma ldones_on_payload e p m x : In x (ldones (on_payload e p m)) ->
  In x (ldones m) \/ x = (clock m, e, match p with MRes r => OReturned r | MErr c => ORaisedStream c end).
Proof.
  unfold on_payload. destruct p as [r|c].
  - simpl. intros [H|H]; auto.
  - destruct (nth_error (execs m) e) as [y|]; auto. destruct (retry c (ecur y)).
    + rewrite ldones_send. auto.
    + simpl. intros [H|H]; auto.
Qed.

Lemma ldones_wake_broken x : forall ws m c e o,
  In (c, e, o) (ldones (fold_left (wake_broken x) ws m)) ->
  In (c, e, o) (ldones m) \/ (c = clock m /\ o = ORaisedExn x /\ retryable x = false /\ exists id, In (id, e) ws).
Proof.
  induction ws as [|[id0 e0] ws IH]; intros m c e o H; simpl in H; auto.
  apply IH in H. unfold wake_broken in H. simpl in H.
  destruct (waiting_on m e0 id0).
  - destruct (retryable x) eqn:Hx.
    + rewrite ldones_send, clock_send in H. destruct H as [H|[A [B [C _]]]]; auto. discriminate.
    + simpl in H. destruct H as [[H|H]|[A [B [C [id D]]]]]; auto.
      * inversion H; subst. right. repeat split; auto. exists id0. left; auto.
      * right. repeat split; auto. exists id. right; auto.
  - destruct H as [H|[A [B [C [id D]]]]]; auto. right. repeat split; auto. exists id. right; auto.
Qed.

Lemma ldones_wake_stopped : forall ws m c e o,
  In (c, e, o) (ldones (fold_left wake_stopped ws m)) ->
  In (c, e, o) (ldones m) \/ (c = clock m /\ o = OCancelled /\ exists id, In (id, e) ws).
Proof.
  induction ws as [|[id0 e0] ws IH]; intros m c e o H; simpl in H; auto.
  apply IH in H. unfold wake_stopped in H. simpl in H.
  destruct (waiting_on m e0 id0).
  - simpl in H. destruct H as [[H|H]|[A [B [id D]]]]; auto.
    + inversion H; subst. right. repeat split; auto. exists id0. left; auto.
    + right. repeat split; auto. exists id. right; auto.
  - destruct H as [H|[A [B [id D]]]]; auto. right. repeat split; auto. exists id. right; auto.
Qed.

(* P1: whatever the state (reachable or not), one event completes the future of submit e only if it is the response to e's
   own current request (with that response's content), the failure of the stream e was subscribed on (that failure, and only
   a non-retryable one), e's own cancellation, or stop() *)
Theorem outcome_provenance_step : forall m ev c e o,
  In (c, e, o) (ldones (mstep m ev)) -> In (c, e, o) (ldones m) \/ (c = S (clock m) /\ caused m ev e o).
Proof.
  intros m ev c e o H. unfold mstep in H.
  destruct ev as [p|k|k cd|k|k|x|i| |x i]; simpl caused.
  - rewrite ldones_send in H. auto.
  - simpl in H. destruct (take_nth k (wire m)) as [[w rest]|]; auto.
    pose proof (ldones_serve w (set_wire rest (set_clock (S (clock m)) m))) as Hs.
    destruct (serve_m w (set_wire rest (set_clock (S (clock m)) m))) as [m1 pl]. simpl in Hs.
    destruct (wlive w); simpl in H; rewrite Hs in H; auto.
  - simpl in H. destruct (take_nth k (wire m)) as [[w rest]|]; auto. destruct (wlive w); auto.
  - simpl in H. destruct (take_nth k (pending m)) as [[[id pl] rest]|] eqn:E; auto. simpl in H.
    destruct (lookup id (subs m)) as [e1|] eqn:El; auto.
    destruct (waiting_on _ e1 id) eqn:Hw; auto.
    apply ldones_on_payload in H. simpl in H. destruct H as [H|H]; auto.
    inversion H; subst. right. split; auto. exists id, pl, rest. repeat split; auto.
    + apply waiting_on_iff in Hw. eapply waits_frame; [|exact Hw]. reflexivity.
    + destruct pl; reflexivity.
  - simpl in H. destruct (take_nth k (pending m)) as [[[id pl] rest]|] eqn:E; auto. simpl in H.
    destruct (lookup id (subs m)) as [e1|] eqn:El; auto.
    destruct (waiting_on _ e1 id) eqn:Hw; auto.
    simpl in H. destruct H as [H|H]; auto.
    inversion H; subst. right. split; auto. exists id, pl, rest. repeat split; auto.
    apply waiting_on_iff in Hw. eapply waits_frame; [|exact Hw]. reflexivity.
  - apply ldones_wake_broken in H. simpl in H. destruct H as [H|[A [B [C D]]]]; auto.
  - simpl in H. destruct (nth_error (execs m) i) as [y|]; auto. destruct (is_running (est y)); auto.
    simpl in H. destruct H as [H|H]; auto. inversion H; subst. auto.
  - apply ldones_wake_stopped in H. simpl in H. destruct H as [H|[A [B D]]]; auto.
  - apply ldones_wake_broken in H. unfold cancel_if_running in H. simpl in H.
    destruct (nth_error (execs m) i) as [y|]; [destruct (is_running (est y))|]; simpl in H;
      destruct H as [H|[A [B [C D]]]]; auto 6.
    destruct H as [H|H]; auto. inversion H; subst. auto.
Qed.

(* P1 along every event sequence: the outcomes observed after one more event are the earlier ones plus caused ones *)
Theorem outcome_provenance : forall pp pj fl evs ev c e o,
  In (c, e, o) (obs_dones (mrun pp pj fl (evs ++ [ev]))) ->
  In (c, e, o) (obs_dones (mrun pp pj fl evs)) \/
  (c = S (clock (mrun pp pj fl evs)) /\ caused (mrun pp pj fl evs) ev e o).
Proof.
  intros pp pj fl evs ev c e o H. unfold obs_dones in *. apply in_rev in H. rewrite mrun_snoc in H.
  apply outcome_provenance_step in H. destruct H as [H|H]; auto. left. apply in_rev. rewrite rev_involutive. exact H.
Qed.

(* in particular: the response to a request of submit e completes no other submit, and a cancelled submit's late response
   completes nobody at all *)
Corollary late_reply_is_inert : forall pp pj fl evs k id p rest c e o,
  let m := mrun pp pj fl evs in
  take_nth k (pending m) = Some ((id, p), rest) ->
  (forall e', lookup id (subs m) = Some e' -> ~ waits m e' id) ->
  In (c, e, o) (obs_dones (mrun pp pj fl (evs ++ [Respond k]))) -> In (c, e, o) (obs_dones m).
Proof.
  intros pp pj fl evs k id p rest c e o m E Hn H. apply outcome_provenance in H. destruct H as [H|[_ H]]; auto.
  exfalso. simpl in H. destruct H as [id' [p' [rest' [E' [El [Hw _]]]]]]. fold m in E'. rewrite E in E'.
  inversion E'; subst. exact (Hn e El Hw).
Qed.

(* P2: the response to the current request of a waiting execution takes effect at that execution, in the same step: a result
   / failed job is returned by its submit, an error code is answered by the retry request the table prescribes or raised *)
Theorem own_reply_delivered : forall pp pj fl evs k id p rest e,
  let m := mrun pp pj fl evs in
  let m' := mrun pp pj fl (evs ++ [Respond k]) in
  take_nth k (pending m) = Some ((id, p), rest) -> waits m e id ->
  match p with
  | MRes r => In (S (clock m), e, OReturned r) (obs_dones m')
  | MErr c =>
      exists x, nth_error (execs m) e = Some x /\
        match retry c (ecur x) with
        | Some r' => In (S (clock m), e, next_id m, r') (obs_reqs m')
        | None => In (S (clock m), e, ORaisedStream c) (obs_dones m')
        end
  end.
Proof.
  intros pp pj fl evs k id p rest e m m' E Hw.
  destruct (W_mrun pp pj fl evs) as [H1 H2 H3 H4]. fold m in H1, H2, H3, H4.
  destruct (H3 e id Hw) as [[Hin _]|[]].
  pose proof (lookup_nodup id e (subs m) H1 Hin) as El.
  assert (Hw' : waiting_on (set_subs (remove_sub id (subs m)) (set_pending rest (set_clock (S (clock m)) m))) e id = true).
  { apply waiting_on_iff. destruct Hw as [x Hx]. exists x. exact Hx. }
  unfold m'. rewrite mrun_snoc. fold m. unfold obs_dones, obs_reqs, mstep. simpl. rewrite E. simpl. rewrite El, Hw'.
  destruct p as [r|c].
  - apply in_rev. rewrite rev_involutive. simpl. left. reflexivity.
  - destruct Hw as [x [Hx [Hr Hwt]]]. exists x. split; auto.
    unfold on_payload. simpl. rewrite Hx. destruct (retry c (ecur x)) as [r'|].
    + apply in_rev. rewrite rev_involutive. unfold send. simpl. rewrite Hx. simpl. left. reflexivity.
    + apply in_rev. rewrite rev_involutive. simpl. left. reflexivity.
Qed.
