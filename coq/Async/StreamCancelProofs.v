(* C20 — "cancellation cancels the remote job", at every cancellation point of the manager model (Async/Stream.v).
   A submit future ends cancelled exactly when, in the same step, cancel_quantum_job for its job reaches the server; and the
   future of a running submit ends cancelled — hence its remote job is cancelled — whichever way the cancellation arrives:
   cancel() while the execution idles, cancel() while the server's reply (any content) or a stream failure (any exception)
   is being delivered to it, stop().  These are the statements the step oracle `cancel-remote` of vf/checks/c20.py judges
   the real run by. *)
From Coq Require Import List Bool Arith Lia.
From VF Require Import Async.StreamTypes Generated.RetryTable Async.Stream Async.StreamProofs.
Import ListNotations.

(* K1: along every event sequence, (step, e) is among the cancel RPCs iff submit e ended cancelled at that step *)
Theorem cancelled_iff_remote_cancel : forall pp pj fl evs c e,
  let m := mrun pp pj fl evs in
  In (c, e, OCancelled) (obs_dones m) <-> In (c, e) (obs_cancels m).
Proof.
  intros pp pj fl evs c e m. subst m. destruct (completes_once_and_cancel_once pp pj fl evs) as [_ H]. rewrite H.
  rewrite in_map_iff. split.
  - intros Hin. exists (c, e, OCancelled). split; auto. apply filter_In. split; auto.
  - intros [[[c' e'] o] [E Hin]]. apply filter_In in Hin. destruct Hin as [Hin Hc]. simpl in E. inversion E; subst.
    unfold is_cancelled in Hc. simpl in Hc. destruct o; try discriminate. exact Hin.
Qed.

(* submit e ends cancelled at step c of the run m, and its remote job is cancelled at that step *)
Definition cancelled_at (m : mgr) (c e : nat) : Prop :=
  In (c, e, OCancelled) (obs_dones m) /\ In (c, e) (obs_cancels m).

Lemma cancelled_at_intro pp pj fl evs c e :
  In (c, e, OCancelled) (ldones (mrun pp pj fl evs)) -> cancelled_at (mrun pp pj fl evs) c e.
Proof.
  intros H. assert (H' : In (c, e, OCancelled) (obs_dones (mrun pp pj fl evs))) by (unfold obs_dones; apply in_rev in H; exact H).
  split; auto. apply cancelled_iff_remote_cancel. exact H'.
Qed.

(* ---- the log of completions only grows while the subscribers of a broken stream wake up ---- *)
Lemma ldones_send' e r m : ldones (send e r m) = ldones m.
Proof. unfold send. destruct (nth_error (execs m) e); reflexivity. Qed.

Lemma ldones_mono_wake_broken x : forall ws m z, In z (ldones m) -> In z (ldones (fold_left (wake_broken x) ws m)).
Proof.
  induction ws as [|s ws IH]; intros m z H; simpl; auto. apply IH. unfold wake_broken.
  destruct (waiting_on m (snd s) (fst s)); auto. destruct (retryable x).
  - rewrite ldones_send'. exact H.
  - simpl. right. exact H.
Qed.

(* stop(): every subscriber that is still waiting is cancelled *)
Lemma fold_stopped_cancels : forall ws m e c, clock m = c ->
  ((exists id, In (id, e) ws /\ waits m e id) \/ In (c, e, OCancelled) (ldones m)) ->
  In (c, e, OCancelled) (ldones (fold_left wake_stopped ws m)).
Proof.
  induction ws as [|[id0 e0] ws IH]; intros m e c Hc H; simpl.
  - destruct H as [[id [[] _]]|H]; auto.
  - apply IH.
    + unfold wake_stopped. simpl. destruct (waiting_on m e0 id0); auto.
    + unfold wake_stopped. simpl. destruct (waiting_on m e0 id0) eqn:Hw.
      * apply waiting_on_iff in Hw. destruct (Nat.eq_dec e e0) as [->|Hne].
        -- right. simpl. left. rewrite Hc. reflexivity.
        -- assert (E : (e0 =? e) = false) by (apply Nat.eqb_neq; auto).
           destruct H as [[id [Hin Hwe]]|H].
           ++ left. exists id. destruct Hin as [Hin|Hin]; [inversion Hin; congruence|]. split; auto.
              destruct Hwe as [y [Hy Hrest]]. exists y. msimpl. rewrite nth_error_update, E. auto.
           ++ right. simpl. right. exact H.
      * destruct H as [[id [Hin Hwe]]|H]; auto. left. exists id. destruct Hin as [Hin|Hin]; auto.
        inversion Hin; subst. apply waiting_on_iff in Hwe. congruence.
Qed.

(* K2a: cancel() while the execution idles (waiting for the server) *)
Theorem cancel_point_idle : forall pp pj fl evs i,
  let m := mrun pp pj fl evs in
  running m i -> cancelled_at (mrun pp pj fl (evs ++ [Cancel i])) (S (clock m)) i.
Proof.
  intros pp pj fl evs i m [y [Hy Hr]]. apply cancelled_at_intro. rewrite mrun_snoc. fold m. unfold mstep. simpl.
  rewrite Hy, Hr. simpl. left. reflexivity.
Qed.

(* K2b: cancel() while the reply to the execution's current request is being delivered — whatever the reply says: a
   result, a failed job, an error code the client would have answered with a retry request, a fatal one *)
Theorem cancel_point_reply : forall pp pj fl evs k id p rest e,
  let m := mrun pp pj fl evs in
  take_nth k (pending m) = Some ((id, p), rest) -> waits m e id ->
  cancelled_at (mrun pp pj fl (evs ++ [RespondCancel k])) (S (clock m)) e.
Proof.
  intros pp pj fl evs k id p rest e m E Hw. apply cancelled_at_intro. rewrite mrun_snoc. fold m.
  destruct (W_mrun pp pj fl evs) as [H1 H2 H3 H4]. fold m in H1, H2, H3, H4.
  destruct (H3 e id Hw) as [[Hin _]|[]].
  pose proof (lookup_nodup id e (subs m) H1 Hin) as El.
  assert (Hw' : waiting_on (set_subs (remove_sub id (subs m)) (set_pending rest (set_clock (S (clock m)) m))) e id = true).
  { apply waiting_on_iff. destruct Hw as [x Hx]. exists x. exact Hx. }
  unfold mstep. simpl. rewrite E. simpl. rewrite El, Hw'. simpl. left. reflexivity.
Qed.

(* K2c: cancel() while a failure of the stream is being delivered — whatever the exception: one the client would have
   answered by re-sending on a new stream, or a fatal one *)
Theorem cancel_point_break : forall pp pj fl evs x i,
  let m := mrun pp pj fl evs in
  running m i -> cancelled_at (mrun pp pj fl (evs ++ [BreakCancel x i])) (S (clock m)) i.
Proof.
  intros pp pj fl evs x i m [y [Hy Hr]]. apply cancelled_at_intro. rewrite mrun_snoc. fold m. unfold mstep.
  apply ldones_mono_wake_broken. unfold cancel_if_running. simpl. rewrite Hy, Hr. simpl. left. reflexivity.
Qed.

(* K2d: stop() with the job in flight *)
Theorem cancel_point_stop : forall pp pj fl evs e,
  let m := mrun pp pj fl evs in
  running m e -> cancelled_at (mrun pp pj fl (evs ++ [Stop])) (S (clock m)) e.
Proof.
  intros pp pj fl evs e m Hr. apply cancelled_at_intro. rewrite mrun_snoc. fold m.
  destruct (W_mrun pp pj fl evs) as [H1 H2 H3 H4]. fold m in H1, H2, H3, H4.
  destruct (H4 e Hr) as [id Hw]. destruct (H3 e id Hw) as [[Hin _]|[]].
  unfold mstep. apply fold_stopped_cancels; [reflexivity|]. left. exists id. split; [exact Hin|].
  destruct Hw as [z Hz]. exists z. exact Hz.
Qed.

(* and nothing else ends cancelled: a future ends cancelled only through its own cancel() or stop() (Cancel, RespondCancel
   of its own reply, BreakCancel naming it, Stop) — this is C20_outcome_provenance read for o = OCancelled *)
