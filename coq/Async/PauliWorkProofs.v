(* C20 — PauliSumCollector's work list: every term is handed out exactly samples_per_term samples, in jobs of 1..max_samples_per_job. *)
From Coq Require Import ZArith List Bool Lia.
From VF Require Import Async.Collector Async.PauliWork.
Import ListNotations.
Local Open Scope Z_scope.

(* the part of term t's samples that lies below the counter value T *)
Definition cover (spt t T : Z) : Z := Z.min (Z.max (T - t * spt) 0) spt.

Lemma pnext_some : forall n spt mj total i a, 0 < spt -> 0 < mj -> 0 <= total ->
  pnext n spt mj total = Some (i, a) ->
  0 <= i < n /\ i * spt <= total /\ 0 < a <= mj /\ total + a <= (i + 1) * spt /\
  (a = mj \/ total + a = (i + 1) * spt).
Proof.
  intros n spt mj total i a Hs Hm Ht H. unfold pnext in H.
  destruct (n <=? total / spt) eqn:E; [discriminate|]. inversion H; subst i a; clear H.
  apply Z.leb_gt in E.
  pose proof (Z.div_mod total spt ltac:(lia)) as Hd.
  pose proof (Z.mod_pos_bound total spt Hs) as Hb.
  pose proof (Z.div_pos total spt Ht Hs) as Hq.
  set (q := total / spt) in *. set (r := total mod spt) in *.
  assert (Hq1 : q * spt = spt * q) by apply Z.mul_comm.
  assert (Hq2 : (q + 1) * spt = spt * q + spt) by ring.
  assert (Hq3 : spt * (q + 1) = spt * q + spt) by ring.
  repeat split; try lia.
Qed.

Lemma pnext_none : forall n spt mj total, 0 < spt -> 0 <= total ->
  pnext n spt mj total = None -> n * spt <= total.
Proof.
  intros n spt mj total Hs Ht H. unfold pnext in H.
  destruct (n <=? total / spt) eqn:E; [|discriminate]. apply Z.leb_le in E.
  pose proof (Z.div_mod total spt ltac:(lia)) as Hd.
  pose proof (Z.mod_pos_bound total spt Hs) as Hb.
  assert (n * spt <= (total / spt) * spt) by (apply Z.mul_le_mono_nonneg_r; lia).
  assert ((total / spt) * spt = spt * (total / spt)) by apply Z.mul_comm. lia.
Qed.

Lemma cover_step : forall spt t i total a, 0 < spt -> 0 <= t -> 0 <= i ->
  i * spt <= total -> 0 < a -> total + a <= (i + 1) * spt ->
  cover spt t (total + a) - cover spt t total = if i =? t then a else 0.
Proof.
  intros spt t i total a Hs Ht Hi H1 Ha H2. unfold cover.
  destruct (i =? t) eqn:E.
  - apply Z.eqb_eq in E. subst t. assert ((i + 1) * spt = i * spt + spt) by ring. lia.
  - apply Z.eqb_neq in E.
    assert (Hc : t < i \/ i < t) by lia. destruct Hc as [Hc|Hc].
    + assert ((t + 1) * spt <= i * spt) by (apply Z.mul_le_mono_nonneg_r; lia).
      assert ((t + 1) * spt = t * spt + spt) by ring. lia.
    + assert ((i + 1) * spt <= t * spt) by (apply Z.mul_le_mono_nonneg_r; lia). lia.
Qed.

Lemma pwork_requested : forall fuel n spt mj total t, 0 < spt -> 0 < mj -> 0 <= n -> 0 <= t < n ->
  0 <= total <= n * spt -> n * spt - total < Z.of_nat fuel ->
  requested t (pwork fuel n spt mj total) = cover spt t (n * spt) - cover spt t total.
Proof.
  induction fuel as [|f IH]; intros n spt mj total t Hs Hm Hn Ht Htot Hf; [simpl in Hf; lia|].
  simpl. destruct (pnext n spt mj total) as [[i a]|] eqn:E.
  - destruct (pnext_some _ _ _ _ _ _ Hs Hm (proj1 Htot) E) as (Hi & H1 & Ha & H2 & _).
    assert ((i + 1) * spt <= n * spt) by (apply Z.mul_le_mono_nonneg_r; lia).
    simpl. rewrite IH by lia.
    pose proof (cover_step spt t i total a Hs (proj1 Ht) (proj1 Hi) H1 (proj1 Ha) H2). lia.
  - apply pnext_none in E; try lia. assert (total = n * spt) by lia. subst total. simpl. lia.
Qed.

(* every term's samples are handed out exactly once: samples_per_term in all, whatever the job size *)
Theorem pauli_work_exact : forall n spt mj t, 0 < spt -> 0 < mj -> 0 <= t < n ->
  requested t (pjobs n spt mj) = spt.
Proof.
  intros n spt mj t Hs Hm Ht. unfold pjobs, pfuel.
  assert (0 <= n * spt) by (apply Z.mul_nonneg_nonneg; lia).
  rewrite pwork_requested; try lia.
  unfold cover.
  assert ((t + 1) * spt <= n * spt) by (apply Z.mul_le_mono_nonneg_r; lia).
  assert ((t + 1) * spt = t * spt + spt) by ring.
  assert (0 <= t * spt) by (apply Z.mul_nonneg_nonneg; lia). lia.
Qed.

Lemma pwork_chunks : forall fuel n spt mj total, 0 < spt -> 0 < mj -> 0 <= total ->
  Forall (fun x => 0 <= fst x < n /\ 0 < snd x <= mj) (pwork fuel n spt mj total).
Proof.
  induction fuel as [|f IH]; intros n spt mj total Hs Hm Ht; simpl; [constructor|].
  destruct (pnext n spt mj total) as [[i a]|] eqn:E; [|constructor].
  destruct (pnext_some _ _ _ _ _ _ Hs Hm Ht E) as (Hi & H1 & Ha & H2 & _).
  constructor; [simpl; lia|]. apply IH; lia.
Qed.

(* every job is for a term of the observable and asks for 1..max_samples_per_job samples *)
Theorem pauli_work_chunks : forall n spt mj, 0 < spt -> 0 < mj ->
  Forall (fun x => 0 <= fst x < n /\ 0 < snd x <= mj) (pjobs n spt mj).
Proof. intros. apply pwork_chunks; lia. Qed.

(* nothing is left when next_job answers None: the work list ends because the counter reached n * spt, not because the
   model's fuel ran out *)
Lemma pwork_total : forall fuel n spt mj total, 0 < spt -> 0 < mj -> 0 <= n ->
  0 <= total <= n * spt -> n * spt - total < Z.of_nat fuel ->
  total + fold_right (fun x s => snd x + s) 0 (pwork fuel n spt mj total) = n * spt.
Proof.
  induction fuel as [|f IH]; intros n spt mj total Hs Hm Hn Htot Hf; [simpl in Hf; lia|].
  simpl. destruct (pnext n spt mj total) as [[i a]|] eqn:E.
  - destruct (pnext_some _ _ _ _ _ _ Hs Hm (proj1 Htot) E) as (Hi & H1 & Ha & H2 & _).
    assert ((i + 1) * spt <= n * spt) by (apply Z.mul_le_mono_nonneg_r; lia).
    simpl. specialize (IH n spt mj (total + a) Hs Hm Hn). lia.
  - apply pnext_none in E; try lia. simpl. lia.
Qed.

Theorem pauli_work_total : forall n spt mj, 0 < spt -> 0 < mj -> 0 <= n ->
  fold_right (fun x s => snd x + s) 0 (pjobs n spt mj) = n * spt
  /\ pnext n spt mj (n * spt) = None.
Proof.
  intros n spt mj Hs Hm Hn. split.
  - assert (0 <= n * spt) by (apply Z.mul_nonneg_nonneg; lia).
    pose proof (pwork_total (pfuel n spt) n spt mj 0 Hs Hm Hn ltac:(lia)) as H0.
    unfold pjobs. apply H0. unfold pfuel. rewrite Nat2Z.inj_succ, Z2Nat.id by lia. lia.
  - unfold pnext. rewrite Z.div_mul by lia. rewrite Z.leb_refl. reflexivity.
Qed.
