(* C20 — model of cirq.work.collector.Collector.collect_async (definitions only; proofs in CollectorProofs.v).

   The state machine has exactly the shape of the Python loop:

     results = AsyncCollector(); job_error = None; running_jobs = 0; queued_jobs = []; remaining_samples = budget
     while True:
         while remaining_samples > 0 and running_jobs < concurrency:        (fill)
             if not queued_jobs: queued_jobs.extend(flatten(next_job()))    (ask)
             if not queued_jobs: break
             new_job = queued_jobs.pop(0); remaining_samples -= new_job.repetitions
             running_jobs += 1; scope.spawn(run_job, new_job)               (take)
         if not running_jobs: break                                         (halt)
         job, result = await results.__anext__()                            (resume: pop buffer / raise / wait)
         running_jobs -= 1; self.on_job_result(job, result)                 (deliver)

   run_job(job): result = await sampler.run_async(...)   -> results.add((job, result)) unless job_error
                 exception                               -> results.error(e); job_error = e   unless job_error

   Environment (both universally quantified lists): the next_job oracle (its successive flattened answers; None/[]
   once exhausted) and the completion schedule: a list of batches, every batch a list of (index into the jobs
   currently in flight, outcome).  A batch is what completes between two activations of the loop: duet resumes the
   loop only after every ready run_job task has put its result into the AsyncCollector buffer.  Everything the
   properties talk about is recorded in the trace (newest event first). *)
From Coq Require Import ZArith List Bool Arith.
Import ListNotations.

Record job := mkjob { tag : nat; reps : Z }.
Inductive outcome := Ok (p : Z) | Err (e : Z).
Inductive status := Waiting | Halted | Raised (e : Z) | OutOfFuel.
Definition rjob := (nat * job)%type.          (* start sequence number (sid), job *)

Inductive tev :=
| EAsk (tags : list nat)                 (* next_job() called, flattened answer *)
| ETake (sid tg : nat) (r : Z)           (* budget charged, running_jobs += 1, task spawned *)
| EStart (sid : nat)                     (* sampler.run_async called for that job *)
| EDone (sid : nat) (o : outcome)        (* the environment completes the sampler future *)
| EResult (sid tg : nat) (p : Z)         (* on_job_result(job, result) *)
| ERaise (e : Z)                         (* collect_async raises *)
| EHalt.                                 (* collect_async returns *)

Record col := mkcol {
  queued : list job;
  spawned : list rjob;                   (* spawned, run_async not yet called *)
  inflight : list rjob;                  (* run_async called, future pending *)
  buffer : list (rjob * Z);              (* AsyncCollector buffer *)
  nrun : nat;                            (* running_jobs *)
  remaining : option Z;                  (* remaining_samples; None = np.inf *)
  oracle : list (list job);
  nsid : nat;
  err : option Z;                        (* job_error / results.error published *)
  st : status;
  rtrace : list tev }.                   (* newest first *)

Definition emit (e : tev) (c : col) : col :=
  mkcol (queued c) (spawned c) (inflight c) (buffer c) (nrun c) (remaining c) (oracle c) (nsid c) (err c) (st c)
        (e :: rtrace c).
Definition set_st (s : status) (c : col) : col :=
  mkcol (queued c) (spawned c) (inflight c) (buffer c) (nrun c) (remaining c) (oracle c) (nsid c) (err c) s (rtrace c).

Definition budget_left (r : option Z) : bool := match r with None => true | Some z => (0 <? z)%Z end.
Definition charge (r : option Z) (k : Z) : option Z := match r with None => None | Some z => Some (z - k)%Z end.

Definition ask (c : col) : col :=
  match oracle c with
  | [] => emit (EAsk []) c
  | a :: o => emit (EAsk (map tag a))
                (mkcol (queued c ++ a) (spawned c) (inflight c) (buffer c) (nrun c) (remaining c) o (nsid c) (err c)
                       (st c) (rtrace c))
  end.

Definition take (j : job) (q : list job) (c : col) : col :=
  emit (ETake (nsid c) (tag j) (reps j))
    (mkcol q (spawned c ++ [(nsid c, j)]) (inflight c) (buffer c) (S (nrun c)) (charge (remaining c) (reps j))
           (oracle c) (S (nsid c)) (err c) (st c) (rtrace c)).

Fixpoint fill (fuel conc : nat) (c : col) : col :=
  match fuel with
  | O => set_st OutOfFuel c
  | S f =>
    if budget_left (remaining c) && (nrun c <? conc) then
      let c1 := match queued c with [] => ask c | _ => c end in
      match queued c1 with
      | [] => c1
      | j :: q => fill f conc (take j q c1)
      end
    else c
  end.

Definition deliver (x : rjob * Z) (b : list (rjob * Z)) (c : col) : col :=
  emit (EResult (fst (fst x)) (tag (snd (fst x))) (snd x))
    (mkcol (queued c) (spawned c) (inflight c) b (pred (nrun c)) (remaining c) (oracle c) (nsid c) (err c) (st c)
           (rtrace c)).

Definition is_oof (s : status) : bool := match s with OutOfFuel => true | _ => false end.

(* after fill: `if not running_jobs: break`, else go and await the next result *)
Fixpoint resume (fuel conc : nat) (c : col) : col :=
  match buffer c with
  | x :: b =>
    match fuel with
    | O => set_st OutOfFuel c
    | S f =>
      let c2 := fill (S conc) conc (deliver x b c) in
      if is_oof (st c2) then c2
      else if nrun c2 =? 0 then emit EHalt (set_st Halted c2)
      else resume f conc c2
    end
  | [] =>
    match err c with
    | Some e => emit (ERaise e) (set_st (Raised e) c)
    | None => set_st Waiting c
    end
  end.

(* the spawned run_job tasks run on the next scheduler tick: they call sampler.run_async in spawn order;
   when collect_async raises, the scope interrupts them before they start *)
Fixpoint start_all (n : nat) (c : col) : col :=
  match n with
  | O => c
  | S k =>
    match spawned c with
    | [] => c
    | x :: r => start_all k (emit (EStart (fst x))
                  (mkcol (queued c) r (inflight c ++ [x]) (buffer c) (nrun c) (remaining c) (oracle c) (nsid c) (err c)
                         (st c) (rtrace c)))
    end
  end.
Definition flush (c : col) : col :=
  match st c with
  | Waiting | Halted => start_all (length (spawned c)) c
  | _ => c
  end.

Definition init (budget : option Z) (orc : list (list job)) : col :=
  mkcol [] [] [] [] 0 budget orc 0 None Waiting [].

Definition boot (conc : nat) (c : col) : col :=
  let c2 := fill (S conc) conc c in
  if is_oof (st c2) then c2
  else if nrun c2 =? 0 then emit EHalt (set_st Halted c2)
  else resume 0 conc c2.

Fixpoint remove_nth {A} (n : nat) (l : list A) : option (A * list A) :=
  match l, n with
  | [], _ => None
  | x :: r, O => Some (x, r)
  | x :: r, S k => match remove_nth k r with Some (y, r') => Some (y, x :: r') | None => None end
  end.

Definition complete (c : col) (ev : nat * outcome) : col :=
  match remove_nth (fst ev) (inflight c) with
  | None => c
  | Some (x, rest) =>
    let c1 := emit (EDone (fst x) (snd ev))
                (mkcol (queued c) (spawned c) rest (buffer c) (nrun c) (remaining c) (oracle c) (nsid c) (err c) (st c)
                       (rtrace c)) in
    match snd ev, err c1 with
    | Ok p, None => mkcol (queued c1) (spawned c1) (inflight c1) (buffer c1 ++ [(x, p)]) (nrun c1) (remaining c1)
                          (oracle c1) (nsid c1) (err c1) (st c1) (rtrace c1)
    | Err e, None => mkcol (queued c1) (spawned c1) (inflight c1) (buffer c1) (nrun c1) (remaining c1)
                           (oracle c1) (nsid c1) (Some e) (st c1) (rtrace c1)
    | _, Some _ => c1
    end
  end.

Definition woken (c : col) : bool :=
  match buffer c, err c with [], None => false | _, _ => true end.

Definition step (conc : nat) (c : col) (batch : list (nat * outcome)) : col :=
  match st c with
  | Waiting =>
    let c1 := fold_left complete batch c in
    if woken c1 then flush (resume (length (buffer c1)) conc c1) else c1
  | _ => c
  end.

Definition run (conc : nat) (budget : option Z) (orc : list (list job)) (sched : list (list (nat * outcome))) : col :=
  fold_left (step conc) sched (flush (boot conc (init budget orc))).

Definition trace (c : col) : list tev := rev (rtrace c).

(* ---- vocabulary of the theorems: functions of the trace only (what an observer of the real run sees) ---- *)
Fixpoint n_take (l : list tev) : nat := match l with [] => 0 | ETake _ _ _ :: r => S (n_take r) | _ :: r => n_take r end.
Fixpoint n_start (l : list tev) : nat := match l with [] => 0 | EStart _ :: r => S (n_start r) | _ :: r => n_start r end.
Fixpoint n_done (l : list tev) : nat := match l with [] => 0 | EDone _ _ :: r => S (n_done r) | _ :: r => n_done r end.
Fixpoint n_result (l : list tev) : nat := match l with [] => 0 | EResult _ _ _ :: r => S (n_result r) | _ :: r => n_result r end.
Fixpoint charged (l : list tev) : Z := match l with [] => 0%Z | ETake _ _ k :: r => (k + charged r)%Z | _ :: r => charged r end.
Fixpoint takes (l : list tev) : list (nat * nat) :=       (* (sid, tag) *)
  match l with [] => [] | ETake s t _ :: r => (s, t) :: takes r | _ :: r => takes r end.
Fixpoint dones (l : list tev) : list (nat * outcome) :=
  match l with [] => [] | EDone s o :: r => (s, o) :: dones r | _ :: r => dones r end.
Fixpoint results (l : list tev) : list (nat * nat * Z) :=  (* (sid, tag, payload) *)
  match l with [] => [] | EResult s t p :: r => (s, t, p) :: results r | _ :: r => results r end.
(* the successful completions that precede the first failure, in completion order *)
Fixpoint oks_pre (l : list (nat * outcome)) : list (nat * Z) :=
  match l with [] => [] | (s, Ok p) :: r => (s, p) :: oks_pre r | (_, Err _) :: _ => [] end.
Definition is_err (x : nat * outcome) : bool := match snd x with Err _ => true | Ok _ => false end.
(* newest-first trace: was the loop's most recent request for work answered with "nothing"? *)
Fixpoint starved (rtr : list tev) : bool :=
  match rtr with
  | [] => false
  | EAsk [] :: _ => true
  | EAsk _ :: _ => false
  | ETake _ _ _ :: _ => false
  | _ :: r => starved r
  end.

(* ---- decidable equality for the correspondence check ---- *)
Definition outcome_eqb (a b : outcome) : bool :=
  match a, b with Ok p, Ok q => (p =? q)%Z | Err p, Err q => (p =? q)%Z | _, _ => false end.
Definition status_eqb (a b : status) : bool :=
  match a, b with
  | Waiting, Waiting | Halted, Halted | OutOfFuel, OutOfFuel => true
  | Raised p, Raised q => (p =? q)%Z
  | _, _ => false
  end.
Fixpoint natl_eqb (a b : list nat) : bool :=
  match a, b with [], [] => true | x :: a', y :: b' => (x =? y) && natl_eqb a' b' | _, _ => false end.
Definition tev_eqb (a b : tev) : bool :=
  match a, b with
  | EAsk x, EAsk y => natl_eqb x y
  | ETake s t r, ETake s' t' r' => (s =? s') && (t =? t') && (r =? r')%Z
  | EStart s, EStart s' => s =? s'
  | EDone s o, EDone s' o' => (s =? s') && outcome_eqb o o'
  | EResult s t p, EResult s' t' p' => (s =? s') && (t =? t') && (p =? p')%Z
  | ERaise e, ERaise e' => (e =? e')%Z
  | EHalt, EHalt => true
  | _, _ => false
  end.
Fixpoint tevl_eqb (a b : list tev) : bool :=
  match a, b with [] , [] => true | x :: a', y :: b' => tev_eqb x y && tevl_eqb a' b' | _, _ => false end.

(* one correspondence case: inputs, and the trace / final status observed on the implementation *)
Definition agrees (case : nat * option Z * list (list job) * list (list (nat * outcome)) * list tev * status) : bool :=
  match case with
  | (conc, budget, orc, sched, tr, s) =>
    let c := run conc budget orc sched in tevl_eqb (trace c) tr && status_eqb (st c) s
  end.
